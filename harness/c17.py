"""C17 correspondence: pgmpy DynamicBayesianNetwork / DBNInference vs (a) pgmpy's own VariableElimination on
an explicitly unrolled BayesianNetwork built here, (b) the extracted Coq model (coq/C17/Model.v: the code's
logic at factor-algebra level) and the extracted brute-force specification (coq/C17/Spec.v)."""
import random
from fractions import Fraction

from harness import common
from harness.common import ok, bad

PROP = "C17"
LEVEL = "proof"
HASHSEEDS = {"quick": [0, 1, 2, 3], "thorough": [0, 1, 2, 3, 4, 5, 6, 7]}
BUDGET_S = {"quick": 150, "thorough": 1500}
EXHAUSTIVE = {"quick": False, "thorough": False}
RULE = ("random 2-TBN templates: 1-3 variables per slice, cardinalities 2-3, random intra-slice DAG, random "
        "inter-slice edges (persistence and cross edges, one or several interface nodes), strictly positive "
        "dyadic CPDs (a few with zeros); 1-3 query variables in slices 0..T (T<=4), 0-4 evidence items on "
        "interface and non-interface nodes in several slices; forward_inference, backward_inference and query; "
        "string/int node names, optional string state names; three template classes (every name has an intra "
        "edge and inter-edge heads=tails / heads!=tails / a name without intra edge).  Separate streams: "
        "initialize_initial_state with omitted CPDs, permuted CPD evidence order, cardinality 2-4, state names; "
        "get_constant_bn with t_slice 0..3; add_edge normalisation/mirroring incl. rejected edges; sessions: ONE "
        "DBNInference object answering 3-8 questions where consecutive questions often keep the evidence variables "
        "(esp. of slice 0) and change their states, change only the query, or repeat an earlier question - each answer "
        "must equal the fresh-engine answer.  A case is "
        "non-trivial when the template has >=1 inter edge (inference) / >=1 CPD to complete (init); distinct = "
        "distinct canonical (kind, template, question)")
TRUSTED_BASE = ["pgmpy BeliefPropagation/junction tree (replaced by its specification in the model: normalised marginal "
                "of the product of the tree's factors; that equality is property C02)",
                "pgmpy VariableElimination on the harness-built unrolled BayesianNetwork is an independent tie, "
                "itself cross-checked against the extracted brute-force sum when the joint has <= 6000 states",
                "networkx DiGraph insertion order of predecessors (modelled as edge-list order)"]
ASSUMPTIONS = ["names and state names are interned to nat by the harness",
               "floats are exact dyadic rationals on input; outputs compared at 1e-9 relative",
               "add_edge's has_path loop check is not modelled (only acyclic templates are generated)"]

# repaired in /repo (b467fa1, 4acab62): recurrences are unlisted violations
F_NAMES = "dbn-state-names-dropped"
F_NOINTRA = "dbn-inference-node-without-intra-edge"
F_IFACE = "dbn-interface-heads-vs-tails"
F_BWD = "dbn-backward-interface-evidence"
F_ISOL = "dbn-isolated-variable"
F_RESET = "dbn-query-resets-belief"

SPEC_LIMIT = 6000


# ------------------------------------------------------------------ generation
def _col(rng, card, zeros):
    if zeros == "heavy":
        # deterministic / sparse column: a random proper support, exact zeros elsewhere
        k = 1 if rng.random() < 0.55 else rng.randint(1, card)
        supp = rng.sample(range(card), k)
        den = 8
        while True:
            cuts = sorted(rng.randint(0, den) for _ in range(k - 1))
            parts = [b - a for a, b in zip([0] + cuts, cuts + [den])]
            if all(x > 0 for x in parts):
                break
        col = [[0, den] for _ in range(card)]
        for i, x in zip(supp, parts):
            col[i] = [x, den]
        return col
    den = rng.choice([8, 16, 64])
    while True:
        cuts = sorted(rng.randint(0, den) for _ in range(card - 1))
        parts = [b - a for a, b in zip([0] + cuts, cuts + [den])]
        if zeros or all(x > 0 for x in parts):
            return [[x, den] for x in parts]


def _table(rng, card, pcards, zeros):
    ncol = 1
    for c in pcards:
        ncol *= c
    cols = [_col(rng, card, zeros) for _ in range(ncol)]
    return [cols[c][r] for r in range(card) for c in range(ncol)]  # flat row-major over [var] + parents


def gen_template(rng, cls, nmax=3, cards=(2, 3), pe=None, zeros=None, need_non_interface=False):
    """cls: 'valid' (every name has an intra edge, heads = tails), 'iface' (heads != tails), 'nointra'"""
    for _ in range(10000):
        n = rng.randint(1, nmax)
        order = list(range(n))
        rng.shuffle(order)
        pi = rng.choice([0.5, 0.8, 1.0])
        intra = [[order[i], order[j]] for i in range(n) for j in range(i + 1, n) if rng.random() < pi]
        pe_ = pe if pe is not None else rng.choice([0.25, 0.4, 0.6])
        inter = [[u, v] for u in range(n) for v in range(n) if rng.random() < (pe_ if (u != v or pe is not None) else max(pe_, 0.3))]
        if not inter:
            continue
        touched = set(x for e in intra for x in e)
        heads = set(v for _, v in inter)
        tails = set(u for u, _ in inter)
        if cls == "any":
            pass
        elif cls == "nointra":
            if touched == set(range(n)):
                continue
        else:
            if touched != set(range(n)):
                continue
            if (cls == "valid") != (heads == tails):
                continue
        rng.shuffle(intra)
        rng.shuffle(inter)
        card = [rng.choice(cards) for _ in range(n)]
        if need_non_interface and tails == set(range(n)):
            continue
        zeros_ = zeros if zeros is not None else (rng.random() < 0.08)
        cpds = []
        for v in range(n):
            p0 = [[u, 0] for u, w in intra if w == v]
            p1 = [[u, 1] for u, w in intra if w == v] + [[u, 0] for u, w in inter if w == v]
            rng.shuffle(p0)
            rng.shuffle(p1)
            cpds.append({"var": [v, 0], "pars": p0, "vals": _table(rng, card[v], [card[u] for u, _ in p0], zeros_)})
            cpds.append({"var": [v, 1], "pars": p1, "vals": _table(rng, card[v], [card[u] for u, _ in p1], zeros_)})
        rng.shuffle(cpds)
        return {"n": n, "card": card, "intra": intra, "inter": inter, "cpds": cpds}
    raise RuntimeError("no template")


def gen_question(rng, t, tmax):
    n = t["n"]
    T = rng.randint(0, tmax)
    allv = [[v, s] for v in range(n) for s in range(T + 1)]
    nq = min(len(allv), rng.choice([1, 1, 1, 2, 3]))
    qs = rng.sample(allv, nq)
    rest = [x for x in allv if x not in qs]
    ne = min(len(rest), rng.choice([0, 1, 1, 2, 2, 3, 4]))
    ev = [[x, rng.randrange(t["card"][x[0]])] for x in rng.sample(rest, ne)]
    return qs, ev


def gen_session(rng, t, tmax):
    """3-8 questions for ONE DBNInference object.  Questions stay inside the classes where single queries are right
    (queries in one slice; smoothing evidence on non-interface names only); consecutive questions often keep the
    evidence VARIABLES and change their STATES, or repeat an earlier question."""
    n, card = t["n"], t["card"]
    tails = set(u for u, _ in t["inter"])

    def fresh():
        T = rng.randint(1, tmax)
        slot = rng.randint(0, T)
        qs = [[v, slot] for v in rng.sample(range(n), min(n, rng.choice([1, 1, 2])))]
        mode = rng.choice(["fwd", "fwd", "bwd", "query"])
        allv = [[v, s] for v in range(n) for s in range(T + 1) if [v, s] not in qs]
        if mode != "fwd":
            allv = [x for x in allv if x[0] not in tails]
        evv = []
        s0 = [x for x in allv if x[1] == 0]
        if s0 and rng.random() < 0.85:
            evv += rng.sample(s0, min(len(s0), rng.choice([1, 1, 2])))
        rest = [x for x in allv if x not in evv]
        evv += rng.sample(rest, min(len(rest), rng.choice([0, 1, 1, 2])))
        if [v for v in qs if v[1] == T] == [] and not any(x[1] == T for x in evv):
            pass  # T only bounds the slots drawn; the engine derives its own range
        return {"qs": qs, "ev": [[x, rng.randrange(card[x[0]])] for x in evv], "mode": mode}

    steps = []
    for k in range(rng.randint(3, 8)):
        r = rng.random()
        if steps and r < 0.55 and steps[-1]["ev"]:
            prev = steps[-1]
            ev = [[x, st] for x, st in prev["ev"]]
            idx = [i for i in range(len(ev)) if rng.random() < 0.7] or [rng.randrange(len(ev))]
            for i in idx:
                c = card[ev[i][0][0]]
                ev[i][1] = (ev[i][1] + rng.randint(1, c - 1)) % c
            st = {"qs": prev["qs"], "ev": ev, "mode": prev["mode"]}
            if rng.random() < 0.3:  # same evidence variables, other states, another query variable of the slice
                slot = prev["qs"][0][1]
                cand = [[v, slot] for v in range(n) if [v, slot] not in [x for x, _ in ev]]
                if cand:
                    st["qs"] = [rng.choice(cand)]
            steps.append(st)
        elif steps and r < 0.7:
            steps.append(dict(rng.choice(steps)))
        else:
            steps.append(fresh())
    return steps


def cases(tier, seed):
    rng = random.Random(seed)
    out = []
    n_inf = 260 if tier == "quick" else 2600
    for i in range(n_inf):
        r = rng.random()
        cls = "valid" if r < 0.66 else ("iface" if r < 0.88 else "nointra")
        t = gen_template(rng, cls)
        states = 1
        for c_ in t["card"]:
            states *= c_
        # exact rationals of the backward pass grow quickly: T = 4 only for <= 12 states per slice
        qs, ev = gen_question(rng, t, 4 if (rng.random() < 0.4 and states <= 12) else 3)
        use_init = rng.random() < 0.3
        if use_init:
            # variables without inter parents: slice-1 CPD = slice-0 CPD (same evidence order, same table), so it
            # can be left to initialize_initial_state
            heads_ = set(v for _, v in t["inter"])
            by_ = {tuple(c["var"]): c for c in t["cpds"]}
            for c in t["cpds"]:
                v, s_ = c["var"]
                if s_ == 1 and v not in heads_:
                    c["pars"] = [[u, 1] for u, _ in by_[(v, 0)]["pars"]]
                    c["vals"] = list(by_[(v, 0)]["vals"])
        out.append({"kind": "infer", "cls": cls, "t": t, "qs": qs, "ev": ev,
                    "mode": rng.choice(["fwd", "bwd", "query"]),
                    "style": rng.choice(["str", "int"]),
                    "named": rng.random() < 0.12, "use_init": use_init})
    # the documented example of the class, all questions
    n_init = 120 if tier == "quick" else 1200
    for i in range(n_init):
        t = gen_template(rng, "any", nmax=4, cards=(2, 2, 3, 4), pe=rng.choice([0.05, 0.15, 0.3]))
        # per name: both CPDs given / only slice 0 / only slice 1 / none
        pat = {v: rng.choice(["both", "s0", "s0", "s1", "s1", "none"]) for v in range(t["n"])}
        present = [pat[c["var"][0]] == "both" or (pat[c["var"][0]] == "s0" and c["var"][1] == 0)
                   or (pat[c["var"][0]] == "s1" and c["var"][1] == 1) for c in t["cpds"]]
        out.append({"kind": "init", "t": t, "present": present, "style": rng.choice(["str", "int"]),
                    "named": rng.random() < 0.3})
    n_cb = 60 if tier == "quick" else 500
    for i in range(n_cb):
        t = gen_template(rng, rng.choice(["valid", "iface", "nointra"]))
        out.append({"kind": "constbn", "t": t, "k": rng.choice([0, 0, 1, 3]), "style": rng.choice(["str", "int"]),
                    "named": rng.random() < 0.25, "isolated": rng.random() < 0.15})
    # zero-heavy smoothing: deterministic/sparse CPDs, backward_inference/query over >= 2 slices, evidence on
    # non-interface variables (it rules out interface states: the forward potential gets exact zeros)
    n_z = 90 if tier == "quick" else 800
    for i in range(n_z):
        t = gen_template(rng, "valid", cards=(2, 2, 3), zeros="heavy", need_non_interface=True)
        tails_ = set(u for u, _ in t["inter"])
        T = rng.randint(1, 3)
        slot = rng.randint(0, T)
        qs = [[rng.randrange(t["n"]), slot]]
        pool = [[v, s_] for v in range(t["n"]) for s_ in range(T + 1) if v not in tails_ and [v, s_] not in qs]
        evv = rng.sample(pool, min(len(pool), rng.choice([1, 2, 2, 3])))
        if not any(x[1] == T for x in evv) and qs[0][1] != T:
            last = [x for x in pool if x[1] == T]
            if last:
                evv.append(rng.choice(last))
        # states drawn by forward sampling would be best; a random state is possible often enough, and the
        # impossible ones are reported as skipped (zero-probability-evidence)
        out.append({"kind": "infer", "cls": "valid", "t": t, "qs": qs,
                    "ev": [[x, rng.randrange(t["card"][x[0]])] for x in evv],
                    "mode": rng.choice(["bwd", "query"]), "style": rng.choice(["str", "int"]),
                    "named": False, "use_init": False, "zeros": True})
    # get_constant_bn sessions: the returned network is the caller's; mutating it must not leak into later calls
    n_cs = 60 if tier == "quick" else 500
    for i in range(n_cs):
        t = gen_template(rng, rng.choice(["valid", "valid", "iface"]))
        out.append({"kind": "constbn_session", "t": t, "k": rng.choice([0, 0, 1, 2]),
                    "mutation": rng.choice(["replace_cpd", "remove_node", "add_node", "remove_cpds", "write_values"]),
                    "target": rng.randrange(2 * t["n"]), "simulate": rng.random() < 0.5,
                    "style": rng.choice(["str", "int"]), "named": False})
    # sessions: one engine object, several questions (cross-query state would show here)
    n_s = 70 if tier == "quick" else 600
    for i in range(n_s):
        r = rng.random()
        cls = "valid" if r < 0.85 else ("iface" if r < 0.95 else "nointra")
        t = gen_template(rng, cls)
        states = 1
        for c_ in t["card"]:
            states *= c_
        out.append({"kind": "session", "t": t, "steps": gen_session(rng, t, 3 if states <= 12 else 2),
                    "style": rng.choice(["str", "int"]), "use_init": False})
    n_g = 80 if tier == "quick" else 600
    for i in range(n_g):
        n = rng.randint(1, 4)
        order = list(range(n))
        rng.shuffle(order)
        pos = {v: i for i, v in enumerate(order)}
        edges = []
        for _ in range(rng.randint(1, 6)):
            u, v = rng.randrange(n), rng.randrange(n)
            kind = rng.random()
            if kind < 0.45:  # intra edge at some slice, respecting the hidden order (or a self loop)
                if u != v and pos[u] > pos[v]:
                    u, v = v, u
                s = rng.choice([0, 0, 1, 2])
                edges.append([[u, s], [v, s]])
            elif kind < 0.85:
                s = rng.choice([0, 0, 1, 2])
                edges.append([[u, s], [v, s + 1]])
            elif kind < 0.93:
                edges.append([[u, 1], [v, 0]])
            else:
                edges.append([[u, 0], [v, 2]])
        out.append({"kind": "graph", "n": n, "edges": edges, "extra": [v for v in range(n) if rng.random() < 0.3],
                    "style": rng.choice(["str", "int"])})
    return out


def shrink(case):
    if case["kind"] == "session":
        for i in range(len(case["steps"])):
            if len(case["steps"]) > 1:
                c = dict(case)
                c["steps"] = case["steps"][:i] + case["steps"][i + 1:]
                yield c
        for i, st in enumerate(case["steps"]):
            for j in range(len(st["ev"])):
                c = dict(case)
                c["steps"] = [dict(x) for x in case["steps"]]
                c["steps"][i]["ev"] = st["ev"][:j] + st["ev"][j + 1:]
                yield c
    if case["kind"] == "infer":
        for i in range(len(case["ev"])):
            c = dict(case)
            c["ev"] = case["ev"][:i] + case["ev"][i + 1:]
            yield c
        if len(case["qs"]) > 1:
            for i in range(len(case["qs"])):
                c = dict(case)
                c["qs"] = [case["qs"][i]]
                yield c
        if case.get("named") or case.get("use_init"):
            c = dict(case)
            c["named"] = False
            c["use_init"] = False
            yield c


# ------------------------------------------------------------------ helpers
STR_NAMES = ["A", "B", "C", "D"]
INT_NAMES = [7, 0, 3, 12]
STATE_POOL = [["lo", "hi", "mid", "top"], ["x", "y", "z", "w"], ["off", "on", "err", "idle"], ["p", "q", "r", "s"]]


def nm(case, i):
    return (STR_NAMES if case.get("style", "str") == "str" else INT_NAMES)[i]


def frs(vals):
    return [Fraction(a, b) for a, b in vals]


def state_label(case, v, i):
    return STATE_POOL[v][i] if case.get("named") else i


def state_code(case, v, lab):
    """interned state name: default integer names are themselves, strings are 100 + index"""
    if isinstance(lab, str):
        return 100 + STATE_POOL[v].index(lab)
    return int(lab)


def mk_tabular(case, c, card):
    from pgmpy.factors.discrete import TabularCPD
    v, s = c["var"]
    pars = [(nm(case, u), k) for u, k in c["pars"]]
    pc = [card[u] for u, _ in c["pars"]]
    ncol = 1
    for x in pc:
        ncol *= x
    flat = [float(Fraction(a, b)) for a, b in c["vals"]]
    vals = [flat[r * ncol:(r + 1) * ncol] for r in range(card[v])]
    sn = None
    if case.get("named"):
        sn = {(nm(case, v), s): STATE_POOL[v][:card[v]]}
        for u, k in c["pars"]:
            sn[(nm(case, u), k)] = STATE_POOL[u][:card[u]]
    kw = {"state_names": sn} if sn else {}
    return TabularCPD((nm(case, v), s), card[v], vals, evidence=pars or None, evidence_card=pc or None, **kw)


def edges_of(t):
    return [[[u, 0], [v, 0]] for u, v in t["intra"]] + [[[u, 0], [v, 1]] for u, v in t["inter"]]


class CpdNodeMissing(Exception):
    pass


def build_dbn(case, t, cpds, extra_nodes=True):
    from pgmpy.models import DynamicBayesianNetwork as DBN
    d = DBN()
    if extra_nodes:
        d.add_nodes_from([nm(case, i) for i in range(t["n"])])
    d.add_edges_from([((nm(case, a[0]), a[1]), (nm(case, b[0]), b[1])) for a, b in edges_of(t)])
    try:
        d.add_cpds(*[mk_tabular(case, c, t["card"]) for c in cpds])
    except ValueError as e:
        # a variable that is only the tail of inter edges has no slice-1 node: its slice-1 CPD is rejected
        if "CPD defined on variable not in the model" in str(e):
            raise CpdNodeMissing()
        raise
    return d


def wire_cpd(case, c, card):
    v, s = c["var"]
    names = [[state_code(case, v, state_label(case, v, i)) for i in range(card[v])]]
    for u, _ in c["pars"]:
        names.append([state_code(case, u, state_label(case, u, i)) for i in range(card[u])])
    return [c["var"], card[v], c["pars"], [card[u] for u, _ in c["pars"]], frs(c["vals"]), names]


def unname(case, n, x):
    """pgmpy node (DynamicNode or tuple) -> [index, slice]"""
    pool = STR_NAMES if case.get("style", "str") == "str" else INT_NAMES
    return [pool.index(x[0]), int(x[1])]


def cpd_from_pgmpy(case, c, n):
    var = unname(case, n, c.variable)
    pars = [unname(case, n, p) for p in c.variables[1:]]
    allv = [var] + pars
    names = []
    for node, (v, _) in zip(c.variables, allv):
        names.append([state_code(case, v, lab) for lab in c.state_names[node]])
    return {"var": var, "card": int(c.cardinality[0]), "pars": pars, "pcards": [int(x) for x in c.cardinality[1:]],
            "vals": [float(x) for x in c.values.ravel()], "names": names}


def cpd_from_model(w):
    return {"var": w[0], "card": w[1], "pars": w[2], "pcards": w[3], "vals": [common.frac(x) for x in w[4]],
            "names": w[5]}


def cpd_from_wire(w):
    return {"var": w[0], "card": w[1], "pars": w[2], "pcards": w[3], "vals": list(w[4]), "names": w[5]}


def same_cpd(a, b, names=True):
    if (a["var"], a["card"], a["pars"], a["pcards"]) != (b["var"], b["card"], b["pars"], b["pcards"]):
        return False
    if names and a["names"] != b["names"]:
        return False
    return len(a["vals"]) == len(b["vals"]) and all(common.approx(x, y) for x, y in zip(a["vals"], b["vals"]))


def named_table(c):
    """CPD as {frozenset((node, state-name-code)) : value}: the observable meaning"""
    import itertools
    allv = [tuple(c["var"])] + [tuple(p) for p in c["pars"]]
    cards = [c["card"]] + list(c["pcards"])
    out = {}
    idx = 0
    for combo in itertools.product(*[range(k) for k in cards]):
        key = frozenset((v, c["names"][i][combo[i]] if c["names"] else combo[i]) for i, v in enumerate(allv))
        out[key] = c["vals"][idx]
        idx += 1
    return out


def same_meaning(a, b):
    ta, tb = named_table(a), named_table(b)
    return set(ta) == set(tb) and all(common.approx(ta[k], tb[k]) for k in ta)


def template_key(case):
    return common.canon_key({k: v for k, v in case.items() if k not in ("hashseed",)})


# ------------------------------------------------------------------ inference cases
def unrolled_reference(t, T, q, ev, filt):
    from pgmpy.models import BayesianNetwork
    from pgmpy.factors.discrete import TabularCPD
    from pgmpy.inference import VariableElimination
    name = lambda v, s: "%d_%d" % (v, s)
    bn = BayesianNetwork()
    cp = []
    by = {tuple(c["var"]): c for c in t["cpds"]}
    for s in range(T + 1):
        for v in range(t["n"]):
            bn.add_node(name(v, s))
    for s in range(T + 1):
        for v in range(t["n"]):
            c = by[(v, 0)] if s == 0 else by[(v, 1)]
            par = [name(u, k if s == 0 else s - 1 + k) for u, k in c["pars"]]
            for p in par:
                bn.add_edge(p, name(v, s))
            pc = [t["card"][u] for u, _ in c["pars"]]
            ncol = 1
            for x in pc:
                ncol *= x
            flat = [float(Fraction(a, b)) for a, b in c["vals"]]
            vals = [flat[r * ncol:(r + 1) * ncol] for r in range(t["card"][v])]
            cp.append(TabularCPD(name(v, s), t["card"][v], vals, evidence=par or None, evidence_card=pc or None))
    bn.add_cpds(*cp)
    e = {name(x[0], x[1]): st for x, st in ev if not filt or x[1] <= q[1]}
    r = VariableElimination(bn).query([name(q[0], q[1])], evidence=e or None, show_progress=False)
    return [float(x) for x in r.values]


def vec_eq(a, b):
    return len(a) == len(b) and all(common.approx(x, y) for x, y in zip(a, b))


def has_nan(v):
    return any(x != x for x in v)


def _build_engine(case, t, cls, heads, tags):
    """DBN + DBNInference as a user builds them; returns (engine, None) or (None, ('err', 3))"""
    from pgmpy.inference import DBNInference
    cpds = t["cpds"]
    used_init = False
    if case.get("use_init") and not case.get("named") and cls != "nointra":
        # omit slice-1 CPDs that initialize_initial_state copies: no inter parents, equal to slice 0's table
        # (any cardinality, any evidence order)
        by = {tuple(c["var"]): c for c in cpds}
        keep = []
        for c in cpds:
            v, s = c["var"]
            if s == 1 and v not in heads:
                c0 = by[(v, 0)]
                if [[u, 1] for u, _ in c0["pars"]] == c["pars"] and c0["vals"] == c["vals"]:
                    used_init = True
                    continue
            keep.append(c)
        if used_init:
            dbn = build_dbn(case, t, keep)
            dbn.initialize_initial_state()
            tags.append("via-initialize_initial_state")
        else:
            dbn = build_dbn(case, t, cpds)
    else:
        dbn = build_dbn(case, t, cpds)
    try:
        return DBNInference(dbn), None
    except ValueError as e:
        if "CPD defined on variable not in the model" in str(e):
            return None, ("err", 3)
        raise


def run_infer(case, drv, shared=None):
    """shared: dict holding the DBNInference object of a session (one engine, several questions)"""
    import numpy as np
    from pgmpy.inference import DBNInference
    t, qs, ev, mode = case["t"], case["qs"], case["ev"], case["mode"]
    n, card = t["n"], t["card"]
    filt = mode == "fwd"
    heads = set(v for _, v in t["inter"])
    tails = set(u for u, _ in t["inter"])
    touched = set(x for e in t["intra"] for x in e)
    cls = "nointra" if touched != set(range(n)) else ("valid" if heads == tails else "iface")
    iev = any(x[0] in tails for x, _ in ev)
    T = max([q[1] for q in qs] + [x[1] for x, _ in ev])
    tags = ["infer", "cls=" + cls, "mode=" + mode, "n=%d" % n, "T=%d" % T, "nev=%d" % len(ev), "nq=%d" % len(qs),
            "iface-evidence=%s" % iev, "ninter=%d" % len(t["inter"]), "maxcard=%d" % max(card)]
    if case.get("named"):
        tags.append("named-states")
    if case.get("zeros"):
        nz = sum(1 for c in t["cpds"] for a, _ in c["vals"] if a == 0)
        tot = sum(len(c["vals"]) for c in t["cpds"])
        tags += ["zero-heavy", "zeros=%d%%" % (10 * int(10 * nz / tot))]
    key = template_key(case)

    # --- pgmpy
    cpds = t["cpds"]
    if shared is not None and "engine" in shared:
        inf, impl = shared["engine"]
        if shared.get("used_init"):
            tags.append("via-initialize_initial_state")
    else:
        inf, impl = _build_engine(case, t, cls, heads, tags)
        if shared is not None:
            shared["engine"] = (inf, impl)
            shared["used_init"] = "via-initialize_initial_state" in tags
    named_crash = None
    if impl is None:
        pq = [(nm(case, v), s) for v, s in qs]
        pev = {(nm(case, x[0]), x[1]): state_label(case, x[0], st) for x, st in ev} or None
        try:
            if mode == "fwd":
                r = inf.forward_inference(pq, pev)
            elif mode == "bwd":
                r = inf.backward_inference(pq, pev)
            else:
                r = inf.query(pq, pev)
            impl = ("ok", {tuple(unname(case, n, k)): r[k] for k in r})
        except ValueError as e:
            if "Factors defined on clusters of variable not" in str(e):
                impl = ("err", 4)
            else:
                raise
        except (IndexError, KeyError) as e:
            # exact class: string state names, evidence given by name, more than one slice
            if case.get("named") and ev and T >= 1:
                named_crash = repr(e)
            else:
                raise

    # --- model
    wire = [wire_cpd(dict(case, named=False), c, card) for c in cpds]
    model = drv.call_e("c17_infer", [n, card, edges_of(t), wire, qs, ev, 0 if filt else 1])
    if model[0] == "ok":
        model = ("ok", {tuple(k): [common.frac(x) for x in v] for k, v in model[1]})

    # --- class: a name without intra edge
    if cls == "nointra":
        if impl == ("err", 3) and model == ("err", 3):
            return bad("crash", {"what": "DBNInference.__init__ raises ValueError: a variable without intra-slice edge "
                                         "is missing from the start/1.5-slice BayesianNetwork", "intra": t["intra"],
                                 "inter": t["inter"], "n": n}, finding=F_NOINTRA, key=key, tags=tags + ["err=3"])
        return bad("impl!=model", {"impl": str(impl)[:300], "model": str(model)[:300]}, key=key, tags=tags)

    if named_crash is not None:
        return bad("crash", {"what": "evidence given by state name fails after the state names were dropped "
                                     "by _shift_factor", "exception": named_crash}, finding=F_NAMES, key=key,
                   tags=tags + ["named-crash"])

    # --- references
    refs, specs = {}, {}
    joint = 1
    for s in range(T + 1):
        for v in range(n):
            joint *= card[v]
    zero_evidence = False
    for q in qs:
        try:
            refs[tuple(q)] = unrolled_reference(t, T, q, ev, filt)
        except Exception as e:  # impossible evidence in the reference (zero rows)
            refs[tuple(q)] = None
        if joint <= SPEC_LIMIT:
            sp = drv.call_e("c17_spec", [n, card, wire, T, q, ev, 0 if filt else 1])
            if sp[0] == "ok":
                specs[tuple(q)] = [common.frac(x) for x in sp[1]]
            else:
                zero_evidence = True
    if specs:
        tags.append("spec-checked")
    for q in specs:
        if refs.get(q) is not None and not has_nan(refs[q]) and not vec_eq(refs[q], specs[q]):
            return bad("ref!=spec", {"q": q, "ref": refs[q], "spec": [float(x) for x in specs[q]]}, key=key, tags=tags)
    if zero_evidence or any(v is None or has_nan(v) for v in refs.values()):
        return ok(nontrivial=False, key=key, tags=tags + ["zero-probability-evidence"])
    if model == ("err", 5):
        # the model's normalising constant is exactly zero: impossible evidence (reported as skipped)
        return ok(nontrivial=False, key=key, tags=tags + ["zero-probability-evidence"])
    truth = {q: (specs[q] if q in specs else refs[q]) for q in refs}

    def impl_vals():
        return {k: [float(x) for x in f.values.ravel()] for k, f in impl[1].items()}

    def agrees(a, b):
        return set(a) == set(b) and all(vec_eq(a[k], b[k]) for k in a)

    # --- class: inter-edge heads != tails
    if cls == "iface":
        detail = {"intra": t["intra"], "inter": t["inter"], "qs": qs, "ev": ev, "mode": mode}
        if filt:
            if impl[0] == "err" or model[0] == "err":
                if impl == model and impl == ("err", 4):
                    return bad("crash", dict(detail, what="potential over the slice-1 HEADS of the inter edges is "
                               "not inside the in-clique (built on the slice-0 TAILS)"), finding=F_IFACE, key=key,
                               tags=tags + ["err=4"])
                return bad("impl!=model", {"impl": str(impl)[:300], "model": str(model)[:300]}, key=key, tags=tags)
            iv = impl_vals()
            if has_nan([x for v in iv.values() for x in v]):
                return ok(nontrivial=False, key=key, tags=tags + ["nan"])
            if not agrees(iv, model[1]):
                return bad("impl!=model", dict(detail, impl=str(iv), model={str(k): [float(x) for x in v] for k, v in model[1].items()}),
                           key=key, tags=tags)
            if not agrees(iv, truth):
                return bad("impl!=unrolled", dict(detail, impl=str(iv), unrolled=str(truth)), finding=F_IFACE, key=key,
                           tags=tags + ["wrong-marginal"])
            return ok(key=key, tags=tags + ["agree"])
        # backward pass: the forward potentials fail as above (model error 4), or the backward message over the
        # TAILS (at slice 1) does not fit the out-clique built around the HEADS (possible only if tails !<= heads;
        # which clique is chosen is junction-tree internal, so that sub-case is not predicted by the model)
        if impl[0] == "err":
            if model == ("err", 4) or not tails <= heads:
                return bad("crash", dict(detail, what="ValueError from _update_belief", model=str(model)[:80]),
                           finding=F_IFACE, key=key, tags=tags + ["err=4"])
            return bad("impl!=model", {"impl": str(impl)[:300], "model": str(model)[:300]}, key=key, tags=tags)
        if model[0] != "ok" and model != ("err", 6):
            return bad("impl!=model", {"impl": str(impl)[:300], "model": str(model)[:300]}, key=key, tags=tags)
        iv = impl_vals()
        if model == ("err", 6):
            # non-zero / zero in the as-coded backward pass (numpy inf/nan): no model value; judged by the unrolled network
            if has_nan([x for v in iv.values() for x in v]) or not agrees(iv, truth):
                return bad("impl!=unrolled", dict(detail, impl=str(iv), unrolled=str(truth)), finding=F_IFACE, key=key,
                           tags=tags + ["wrong-marginal", "model-nonfinite-division"])
            return ok(key=key, tags=tags + ["agree", "model-nonfinite-division"])
        if has_nan([x for v in iv.values() for x in v]):
            return ok(nontrivial=False, key=key, tags=tags + ["nan"])
        if not agrees(iv, model[1]):
            return bad("impl!=model", dict(detail, impl=str(iv), model={str(k): [float(x) for x in v] for k, v in model[1].items()}),
                       key=key, tags=tags)
        if not agrees(iv, truth):
            return bad("impl!=unrolled", dict(detail, impl=str(iv), unrolled=str(truth)), finding=F_IFACE, key=key,
                       tags=tags + ["wrong-marginal"])
        return ok(key=key, tags=tags + ["agree"])

    # --- class: valid
    # model error 6: the backward pass divides a non-zero message entry by a zero potential entry (numpy: inf/nan);
    # the model gives no value there, pgmpy's answer is then judged against the unrolled network only
    model_nonfinite = model == ("err", 6)
    if impl[0] != "ok" or (model[0] != "ok" and not model_nonfinite):
        if model == ("err", 5):
            return ok(nontrivial=False, key=key, tags=tags + ["zero-probability-evidence"])
        return bad("impl!=model", {"impl": str(impl)[:300], "model": str(model)[:300]}, key=key, tags=tags)
    iv = impl_vals()
    import math
    nonfinite = any(not math.isfinite(x) for v in iv.values() for x in v)
    if model_nonfinite:
        tags.append("model-nonfinite-division")
    else:
        if nonfinite:
            # the evidence has positive probability (checked above) and the model answers: NaN/inf is a wrong answer
            return bad("impl-nan", {"qs": qs, "ev": ev, "mode": mode, "impl": str(iv),
                                    "model": str({k: [float(x) for x in v] for k, v in model[1].items()})},
                       key=key, tags=tags + ["nan"])
        if not agrees(iv, model[1]):
            return bad("impl!=model", {"qs": qs, "ev": ev, "mode": mode, "impl": str(iv),
                                       "model": str({k: [float(x) for x in v] for k, v in model[1].items()})},
                       key=key, tags=tags)
    if nonfinite or not agrees(iv, truth):
        detail = {"intra": t["intra"], "inter": t["inter"], "qs": qs, "ev": ev, "mode": mode, "impl": str(iv),
                  "unrolled": str({k: [float(x) for x in v] for k, v in truth.items()})}
        qt = sorted(set(q[1] for q in qs))
        multi = len(qt) >= 2 and ((filt and len([x for x in qt if x >= 1]) >= 2) or (not filt and qt[-1] >= 1))
        if multi:
            return bad("impl!=unrolled", dict(detail, what="BeliefPropagation.query re-initialises the engine, dropping "
                       "the interface potential; later slices (forward) / earlier slices (backward) use the prior-less tree"),
                       finding=F_RESET, key=key, tags=tags + ["wrong-marginal", "multi-slice-query"])
        if not filt and iev:
            return bad("impl!=unrolled", detail, finding=F_BWD, key=key, tags=tags + ["wrong-marginal", "bwd-iface-evidence"])
        return bad("impl!=unrolled", detail, key=key, tags=tags)
    if case.get("named"):
        # labels of the returned marginals
        for k, f in impl[1].items():
            want = STATE_POOL[k[0]][:card[k[0]]]
            got = list(list(f.state_names.values())[0])
            if got != want:
                return bad("labels", {"q": k, "expected_state_names": want, "got": [str(x) for x in got]},
                           finding=F_NAMES, key=key, tags=tags + ["labels-dropped"])
    return ok(key=key, tags=tags + ["agree"])


# ------------------------------------------------------------------ initialize_initial_state
def run_init(case, drv):
    t = case["t"]
    n, card = t["n"], t["card"]
    given = [c for c, p in zip(t["cpds"], case["present"]) if p]
    key = template_key(case)
    tags = ["init", "n=%d" % n, "given=%d" % len(given), "maxcard=%d" % max(card)]
    if case.get("named"):
        tags.append("named-states")
    dbn = build_dbn(case, t, given)
    try:
        dbn.initialize_initial_state()
        impl = ("ok", [cpd_from_pgmpy(case, c, n) for c in dbn.cpds])
    except (ValueError, TypeError) as e:
        impl = ("err", 1, repr(e)[:200])
    except Exception as e:
        if type(e).__name__ != "NetworkXError":
            raise
        impl = ("err", 2, repr(e)[:200])
    wire = [wire_cpd(case, c, card) for c in given]
    model = drv.call_e("c17_init", [list(range(n)), edges_of(t), wire])
    if model[0] == "ok":
        model = ("ok", [cpd_from_model(w) for w in model[1]])
    if impl[0] != model[0] or (impl[0] == "err" and impl[1] != model[1]):
        return bad("impl!=model", {"impl": str(impl)[:400], "model": str(model)[:400]}, key=key, tags=tags)
    # the property: every added CPD is the other slice's CPD, unaltered (named assignment, state names)
    src = {tuple(c["var"]): cpd_from_wire(wire_cpd(case, c, card)) for c in given}
    # graph predecessor order of each node, as networkx stores it
    gpar = {}
    for a, b in edges_of(t):
        gpar.setdefault(tuple(b), []).append(a)
        if a[1] == b[1]:
            gpar.setdefault((b[0], 1), []).append([a[0], 1])
    nodeset = set((i, 0) for i in range(n))
    for a, b in edges_of(t):
        nodeset.update([tuple(a), tuple(b), (b[0], 0)])
        if a[1] == b[1]:
            nodeset.update([(a[0], 1), (b[0], 1)])
    if impl[0] == "err" and impl[1] == 2:
        # exact class: the mirror node of a given CPD does not exist (variable without intra edge that is no
        # head of an inter edge: only its slice-0 node was created)
        if any((c["var"][0], 1 - c["var"][1]) not in nodeset for c in given):
            return bad("crash", {"what": "initialize_initial_state raises NetworkXError: a variable without any edge has no "
                                 "slice-1 node", "exception": impl[2]}, finding=F_ISOL, key=key, tags=tags + ["err=2"])
        return bad("unexplained-error", {"impl": impl}, key=key, tags=tags)
    if impl[0] == "err":
        # the only legitimate error: a CPD is missing whose parent count differs from its mirror's graph parents
        for c in given:
            v, s = c["var"]
            tv = (v, 1 - s)
            if tv in src:
                continue
            ps = gpar.get(tv, [])
            if ps and all(p[1] == ps[0][1] for p in ps) and len(ps) != len(c["pars"]):
                return ok(key=key, tags=tags + ["err=1", "user-error:parent-count"])
        return bad("unexplained-error", {"impl": impl}, key=key, tags=tags)
    if len(impl[1]) != len(model[1]) or not all(same_cpd(a, b) for a, b in zip(impl[1], model[1])):
        return bad("impl!=model", {"impl": str(impl)[:600], "model": str(model)[:600]}, key=key, tags=tags)
    added = impl[1][len(given):]
    tags.append("added=%d" % len(added))
    worst = None
    for c in added:
        v, s = c["var"]
        s0 = src[(v, 1 - s)]
        if s0["pars"] and not c["pars"]:
            tags.append("marginalised-branch")
            continue  # not a copy: an initial distribution invented from a transition CPD
        expect = dict(s0, var=[v, s], pars=[[u, 1 - k] for u, k in s0["pars"]])
        if len(expect["pars"]) >= 2 and expect["pars"] != gpar.get((v, s), []):
            tags.append("evidence-order!=graph-order")
        if c["card"] != 2 and not c["pars"]:
            tags.append("parentless-card>2")
        if not same_meaning(dict(c, names=None), dict(expect, names=None)):
            return bad("altered-copy", {"what": "the completed CPD is not the other slice's CPD by named assignment",
                                        "source_parents": s0["pars"], "copy_parents": c["pars"], "var": [v, s]},
                       key=key, tags=tags + ["altered-copy"])
        if c["pars"] != expect["pars"]:
            tags.append("parent-order-changed")
        if c["names"] != expect["names"] and not worst:
            # exact class: string state names were given and the copy carries the default integer names
            if case.get("named") and c["names"] == [list(range(k)) for k in [c["card"]] + list(c["pcards"])]:
                worst = bad("labels", {"what": "copied CPD has integer state names", "var": [v, s]}, finding=F_NAMES,
                            key=key, tags=tags + ["labels-dropped"])
            else:
                return bad("labels", {"what": "unexpected state names", "got": c["names"], "expected": expect["names"]},
                           key=key, tags=tags)
    if worst:
        return worst
    return ok(nontrivial=bool(added), key=key, tags=tags + ["agree"])


# ------------------------------------------------------------------ get_constant_bn
def _constbn_parse(case, sname):
    a, b = sname.rsplit("_", 1)
    pool = STR_NAMES if case.get("style", "str") == "str" else [str(x) for x in INT_NAMES]
    return [pool.index(a), int(b)]


def _constbn_check(case, bn, model, cpds, card, k, key, tags):
    """bn (pgmpy's constant network) against the model's and against the template; None = fine"""
    parse = lambda sname: _constbn_parse(case, sname)
    try:
        [parse(x) for x in bn.nodes()]
    except (ValueError, AttributeError):
        return bad("impl!=model", {"what": "constant network has nodes that are not template nodes",
                                   "nodes": sorted(str(x) for x in bn.nodes())}, key=key, tags=tags)
    iedges = sorted([parse(u), parse(v)] for u, v in bn.edges())
    medges = sorted(model[1][0])
    if iedges != medges:
        return bad("impl!=model", {"edges_impl": iedges, "edges_model": medges}, key=key, tags=tags)
    icp = []
    for c in bn.cpds:
        var = parse(c.variable)
        pars = [parse(p) for p in c.variables[1:]]
        nmz = [[state_code(case, v, lab) for lab in c.state_names[node]] for node, (v, _) in zip(c.variables, [var] + pars)]
        icp.append({"var": var, "card": int(c.cardinality[0]), "pars": pars, "pcards": [int(x) for x in c.cardinality[1:]],
                    "vals": [float(x) for x in c.values.ravel()], "names": nmz})
    mcp = [cpd_from_model(w) for w in model[1][1]]
    if len(icp) != len(mcp) or not all(same_cpd(a, b) for a, b in zip(icp, mcp)):
        return bad("impl!=model", {"impl": str(icp)[:600], "model": str(mcp)[:600]}, key=key, tags=tags)
    # property: the template's CPDs, unchanged (up to the slice offset)
    src = [cpd_from_wire(wire_cpd(case, c, card)) for c in cpds]
    for a, s0 in zip(icp, src):
        expect = dict(s0, var=[s0["var"][0], s0["var"][1] + k], pars=[[u, x + k] for u, x in s0["pars"]])
        if not same_meaning(dict(a, names=None), dict(expect, names=None)):
            return bad("altered-cpd", {"impl": str(a)[:300], "expected": str(expect)[:300]}, key=key, tags=tags)
        if a["names"] != expect["names"]:
            return bad("labels", {"what": "get_constant_bn drops the state names", "var": a["var"]}, finding=F_NAMES,
                       key=key, tags=tags + ["labels-dropped"])
    return None


def run_constbn(case, drv):
    t = case["t"]
    n, card, k = t["n"], t["card"], case["k"]
    key = template_key(case)
    tags = ["constbn", "n=%d" % n, "k=%d" % k]
    cpds = list(t["cpds"])
    names = list(range(n))
    if case.get("isolated"):
        # an extra variable with CPDs but no edge at all
        n2 = n + 1
        card = card + [2]
        cpds = cpds + [{"var": [n, 0], "pars": [], "vals": [[1, 4], [3, 4]]}]
        names = list(range(n2))
        tags.append("isolated-node")
    t2 = dict(t, n=len(names), card=card)
    dbn = build_dbn(case, t2, cpds)
    try:
        bn = dbn.get_constant_bn(t_slice=k)
        impl = ("ok", bn)
    except ValueError as e:
        if "CPD defined on variable not in the model" not in str(e):
            raise
        impl = ("err", 2)
    wire = [wire_cpd(case, c, card) for c in cpds]
    model = drv.call_e("c17_constbn", [names, edges_of(t), wire, k])
    if impl[0] == "err" or model[0] == "err":
        ends = set()
        for a, b in edges_of(t):
            ends.update([tuple(a), tuple(b)])
            if a[1] == b[1]:
                ends.update([(a[0], 1), (b[0], 1)])
        if impl[0] == "err" and model == ("err", 2) and any(tuple(c["var"]) not in ends for c in cpds):
            return bad("crash", {"what": "get_constant_bn raises ValueError: a CPD's node is no endpoint of any edge (isolated variable, or a "
                                 "variable whose only edges enter it from the previous slice)"}, finding=F_ISOL,
                       key=key, tags=tags + ["err=2"])
        return bad("impl!=model", {"impl": str(impl)[:300], "model": str(model)[:300]}, key=key, tags=tags)

    o = _constbn_check(case, bn, model, cpds, card, k, key, tags)
    if o is not None:
        return o
    return ok(key=key, tags=tags + ["agree"])


# ------------------------------------------------------------------ add_edge & getters
def run_graph(case, drv):
    from pgmpy.models import DynamicBayesianNetwork as DBN
    n = case["n"]
    key = template_key(case)
    tags = ["graph", "n=%d" % n, "edges=%d" % len(case["edges"])]
    d = DBN()
    d.add_nodes_from([nm(case, v) for v in case["extra"]])
    try:
        d.add_edges_from([((nm(case, a[0]), a[1]), (nm(case, b[0]), b[1])) for a, b in case["edges"]])
        un = lambda x: unname(case, n, x)
        impl = ("ok", [sorted(un(x) for x in d.nodes()), sorted([un(u), un(v)] for u, v in d.edges()),
                       sorted([un(u), un(v)] for u, v in d.get_intra_edges(0)),
                       sorted([un(u), un(v)] for u, v in d.get_inter_edges()),
                       sorted(un(x) for x in d.get_interface_nodes(0)), sorted(un(x) for x in d.get_interface_nodes(1))])
    except (ValueError, NotImplementedError) as e:
        impl = ("err", 7)
    model = drv.call_e("c17_graph", [case["extra"], case["edges"]])
    if model[0] == "ok":
        model = ("ok", [sorted(x) for x in model[1]])
    if impl != model:
        return bad("impl!=model", {"impl": str(impl)[:500], "model": str(model)[:500]}, key=key, tags=tags)
    return ok(nontrivial=impl[0] == "ok" and len(impl[1][1]) > 0, key=key,
              tags=tags + (["rejected-edge"] if impl[0] == "err" else ["agree"]))


def run_case(case, drv):
    common.quiet()
    k = case["kind"]
    try:
        return _run_case(case, drv)
    except CpdNodeMissing:
        return ok(nontrivial=False, key=template_key(case), tags=[k, "cpd-on-missing-slice1-node"])


def run_session(case, drv):
    """One DBNInference object answers all the steps; every answer must be the fresh-engine answer (model,
    unrolled reference): the current code keeps no cross-query state."""
    steps = case["steps"]
    key = template_key(case)
    tags = set(["session", "steps=%d" % len(steps)])
    for a, b in zip(steps, steps[1:]):
        va, vb = sorted(x for x, _ in a["ev"]), sorted(x for x, _ in b["ev"])
        if va and va == vb and sorted(map(str, a["ev"])) != sorted(map(str, b["ev"])):
            tags.add("restated-evidence")
            sa = sorted(str(e) for e in a["ev"] if e[0][1] == 0)
            sb = sorted(str(e) for e in b["ev"] if e[0][1] == 0)
            if sa and sa != sb:
                tags.add("restated-slice0-evidence")
    if any(steps[i] == steps[j] for i in range(len(steps)) for j in range(i)):
        tags.add("repeated-question")
    shared = {}
    finding = None
    for i, st in enumerate(steps):
        sub = {"kind": "infer", "t": case["t"], "qs": st["qs"], "ev": st["ev"], "mode": st["mode"],
               "style": case.get("style", "str"), "named": False, "use_init": case.get("use_init", False)}
        o = run_infer(sub, drv, shared)
        tags.update(x for x in o.get("tags", []) if x.startswith(("cls=", "mode=", "T=", "n=")) or x in (
            "agree", "spec-checked", "zero-probability-evidence"))
        if not o["ok"]:
            det = {"step": i, "question": st, "earlier_questions": steps[:i], "detail": o.get("detail")}
            if o.get("finding") is None:
                return bad("session:" + str(o.get("kind")), det, key=key, tags=sorted(tags))
            if finding is None:
                finding = bad("session:" + str(o.get("kind")), det, finding=o["finding"], key=key, tags=sorted(tags))
    if finding is not None:
        return finding
    return ok(key=key, tags=sorted(tags))


def run_constbn_session(case, drv):
    """get_constant_bn returns a network that belongs to the caller (DBN.fit fits it, users edit it): two calls give
    independent objects, and after the caller mutated one, a later call still returns the template's network; its
    VariableElimination marginals are those of the 2-slice unrolled network; simulate() still covers all nodes."""
    import numpy as np
    from pgmpy.factors.discrete import TabularCPD
    t = case["t"]
    n, card, k = t["n"], t["card"], case["k"]
    key = template_key(case)
    tags = ["constbn-session", "n=%d" % n, "k=%d" % k, "mutation=" + case["mutation"]]
    cpds = list(t["cpds"])
    dbn = build_dbn(case, t, cpds)
    wire = [wire_cpd(case, c, card) for c in cpds]
    model = drv.call_e("c17_constbn", [list(range(n)), edges_of(t), wire, k])
    try:
        bn1 = dbn.get_constant_bn(t_slice=k)
    except ValueError as e:
        if "CPD defined on variable not in the model" in str(e) and model == ("err", 2):
            return ok(nontrivial=False, key=key, tags=tags + ["err=2"])  # class covered by the constbn stream
        raise
    if model[0] != "ok":
        return bad("impl!=model", {"impl": "ok", "model": str(model)}, key=key, tags=tags)
    o = _constbn_check(case, bn1, model, cpds, card, k, key, tags)
    if o is not None:
        return o
    bn1b = dbn.get_constant_bn(t_slice=k)
    if bn1b is bn1 or any(a is b for a in bn1.cpds for b in bn1b.cpds):
        return bad("shared-object", {"what": "two get_constant_bn calls return the same network / CPD objects"},
                   key=key, tags=tags)
    # --- the caller edits ITS network
    target = bn1.cpds[case["target"] % len(bn1.cpds)]
    mut = case["mutation"]
    if mut == "replace_cpd":
        vals = np.array(target.get_values())
        vals = vals[::-1].copy()  # reverse the rows: another distribution unless symmetric
        ev_ = list(target.variables[1:])
        bn1.add_cpds(TabularCPD(target.variable, int(target.cardinality[0]), vals, evidence=ev_ or None,
                                evidence_card=[int(x) for x in target.cardinality[1:]] or None))
    elif mut == "remove_node":
        leaves = [x for x in bn1.nodes() if not list(bn1.successors(x))]
        bn1.remove_node(sorted(leaves)[case["target"] % len(leaves)])
    elif mut == "add_node":
        bn1.add_node("extra_9")
        bn1.add_edge(sorted(bn1.nodes())[0], "extra_9") if sorted(bn1.nodes())[0] != "extra_9" else None
    elif mut == "remove_cpds":
        bn1.remove_cpds(target)
    else:
        target.values[...] = np.roll(np.asarray(target.values), 1, axis=0)
    # --- later calls still give the template's network
    for kk in ([k] if k == 0 else [k, 0]):
        mdl = model if kk == k else drv.call_e("c17_constbn", [list(range(n)), edges_of(t), wire, kk])
        bn2 = dbn.get_constant_bn(t_slice=kk)
        o = _constbn_check(case, bn2, mdl, cpds, card, kk, key, tags + ["after-mutation"])
        if o is not None:
            o["kind"] = "after-mutation:" + str(o["kind"])
            return o
        if kk == 0:
            # the k = 0 constant network IS the network unrolled to T = 1
            from pgmpy.inference import VariableElimination
            pool = STR_NAMES if case.get("style", "str") == "str" else [str(x) for x in INT_NAMES]
            v = case["target"] % n
            got = [float(x) for x in VariableElimination(bn2).query(["%s_1" % pool[v]], show_progress=False).values]
            want = unrolled_reference(t, 1, [v, 1], [], False)
            if not vec_eq(got, want):
                return bad("after-mutation:marginal", {"var": [v, 1], "constant_bn": got, "unrolled": want}, key=key, tags=tags)
    if case.get("simulate"):
        df = dbn.simulate(n_samples=3, n_time_slices=2, seed=0, show_progress=False)
        spool = [str(x) for x in (STR_NAMES if case.get("style", "str") == "str" else INT_NAMES)]
        cols = sorted([spool.index(str(c[0])), int(c[1])] for c in df.columns)
        want = sorted([v, s] for v in range(n) for s in (0, 1))
        if cols != want:
            return bad("after-mutation:simulate", {"columns": cols, "expected": want}, key=key, tags=tags)
        for c in df.columns:
            v = spool.index(str(c[0]))
            if not all(0 <= int(x) < card[v] for x in df[c]):
                return bad("after-mutation:simulate", {"column": str(c), "values": [str(x) for x in df[c]]}, key=key, tags=tags)
        tags.append("simulate")
    return ok(key=key, tags=tags + ["agree"])


def _run_case(case, drv):
    k = case["kind"]
    if k == "session":
        return run_session(case, drv)
    if k == "constbn_session":
        return run_constbn_session(case, drv)
    if k == "infer":
        return run_infer(case, drv)
    if k == "init":
        return run_init(case, drv)
    if k == "constbn":
        return run_constbn(case, drv)
    return run_graph(case, drv)
