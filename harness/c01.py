"""C01 correspondence: pgmpy VariableElimination.query on discrete Bayesian networks vs the Coq model
(coq/C01/Model.v, proved equal to the brute-force posterior in coq/C01/Props.v) and vs the extracted
brute-force specification (coq/C01/Spec.v)."""
import itertools
import random
from fractions import Fraction

from harness import common
from harness.common import ok, bad

PROP = "C01"
LEVEL = "proof"
HASHSEEDS = {"quick": [0, 1, 2, 3], "thorough": list(range(16))}
BUDGET_S = {"quick": 150, "thorough": 1500}
EXHAUSTIVE = {"quick": False, "thorough": False}
RULE = ("exhaustive: every DAG on <=3 (quick) / <=4 (thorough) labelled nodes x every disjoint (query, evidence) "
        "pair of subsets with P(e)>0; random: BNs of 1..6 nodes (isolated nodes, chains, colliders, multi-parent "
        "families, disconnected parts, diamonds), cardinalities 1..4, node and state names int/str/tuple/mixed with "
        "permuted state lists, CPD columns dyadic with exact zeros and deterministic columns, hard evidence by state "
        "name and virtual-evidence lists; each query is run with elimination_order in {greedy, MinFill, MinNeighbors, "
        "MinWeight, WeightedMinFill, random explicit permutation, None} x joint in {True, False}, every case under a "
        "fixed PYTHONHASHSEED.  pgmpy's answer is compared by NAMED assignment with the extracted model (1e-9) and "
        "the model with the extracted brute-force posterior (exactly); sessions: 3-8 queries on ONE engine (roles "
        "re-split over the same node set, other evidence states, repeats, virtual evidence in between), every answer "
        "checked; virtual evidence is given with explicit state names in model order AND in every other order (all "
        "permutations for <=4 states, likelihood = same function of the state NAME): the outcome must be EITHER a "
        "rejection (ValueError; the model rejects exactly when the order differs, as the code does) OR, if accepted, "
        "exactly the posterior for the named likelihood; tiny-probability networks (entries down to 2^-40, several rare "
        "evidence variables, P(e) in 1e-6..1e-30, near-zero query marginals) compared at 1e-9 PURELY relative.  Non-trivial: >=1 edge or evidence, P(e)>0; "
        "distinct = distinct (network, query, evidence, virtual evidence).  Generalisation classes: A sessions on one engine AND "
        "one model object with edits through add_cpds(existing variable), remove_node, add_node+add_edge, remove_edge, "
        "add_edge in between, same and fresh engines, oracle = the CURRENT network read back from the object; B every "
        "query checks that variables/evidence/virtual_evidence/elimination_order (and predict_probability's frame) equal a "
        "deep snapshot afterwards, sessions hand over the SAME refilled list/dict objects; C every returned table is "
        "overwritten in place after the comparison, later answers on the same model must not notice; CPDs are built from "
        "nested lists, C-contiguous / Fortran-order ndarrays and slices of a reused buffer; D predict_probability on 1-4 "
        "rows with range/shifted/permuted/gapped/duplicate/string index, shuffled columns, object/native/categorical "
        "dtype with unused categories; E node names that are substrings of one another, keyword-like, x with __x (the name "
        "of x's virtual child), 1 with '1', int/str/tuple/mixed; F state names 1-based, permuted ints, booleans, equal across "
        "variables; a CPD listing a parent's states in another order must be refused (badstates), likewise virtual "
        "evidence; G families with 8 parents / combs (>= 9 variables in a factor) with integer names >= 8, cardinality 1, "
        "single-node and edgeless models, evidence None vs {}, virtual_evidence None vs [], tuple of variables, falsy "
        "names/states 0/False (no optional numeric bounds exist on this route); H entries 2^-6..2^-300 (P(e) down to "
        "~1e-180), near-zero marginals, tables differing by 2^-30..2^-40, exact zeros and P(e)=0 (excluded input, "
        "recorded), purely relative tolerance in the tiny stream; I numpy and torch (float64) backends; J every "
        "elimination_order, joint, show_progress, and both BayesianNetwork front ends; K rejected calls inside "
        "sessions (query variable also observed, virtual evidence on an unknown variable / wrong cardinality / other "
        "state order, a LATER invalid entry after a valid one, malformed explicit orders): ValueError iff "
        "Model.query_rejects <> 0, engine and arguments untouched, later answers checked; L insertion order of nodes, "
        "edges and CPDs, parent order, evidence and virtual-evidence order, explicit orders, hash seeds; M budget: the "
        "streams are shuffled by tools/check.py; N every name and state handed to a query is an equal but NOT identical "
        "object (rebuilt str/tuple/int, integer names > 256); O variables as list or tuple (set via predict_probability), "
        "explicit orders as list or tuple, evidence None/{} , virtual_evidence None/[] - query documents lists and a "
        "dict only, generators / ndarrays / pandas Index are not documented there; P 9-12 node chains, trees and "
        "polytrees, 17 nodes, a variable with 257 states; Q CPDs typed with three decimals (column sums within 0.005 of 1): "
        "off-normalised ROOT priors are compared with the brute-force posterior (pruned = unpruned), off-normalised "
        "non-root columns with the model only, which prunes barren nodes exactly as the code does (the unpruned CPD "
        "product differs there by the size of the input's own rounding); R virtual evidence x joint=False x every "
        "order, evidence on a root x virtual evidence, torch x virtual evidence, sessions x non-uniform priors")
TRUSTED_BASE = ["numpy/opt_einsum contraction and DiscreteFactor array primitives are modelled by their documented "
                "pointwise meaning (Base/RefFactor)",
                "python set/dict iteration order is the explicit parameter `ord` of the model; results compared as "
                "named-assignment tables",
                "session stream: the engine keeps no cross-query state in the code (e568f1b restores the model), so the "
                "model answer of step k of a session is the single-query answer",
                "floats are fed as exact dyadic rationals; float rounding is not modelled (1e-9 relative tolerance)"]
ASSUMPTIONS = ["node and state names are interned to nat by the harness",
               "P(evidence) = 0 is an excluded input (pgmpy returns nan); such cases are generated but not counted",
               "virtual evidence is given with the model's own state order"]

EOS = ["greedy", "MinFill", "MinNeighbors", "MinWeight", "WeightedMinFill", "perm", None]
HEUR = {"WeightedMinFill": 0, "MinNeighbors": 1, "MinWeight": 2, "MinFill": 3}


# ------------------------------------------------------------------ generation
def fr(x):
    return [x.numerator, x.denominator]


def rand_col(rng, card, mode):
    if card > 16 and mode != "det":
        # many states: dyadic column over 2^14, every entry positive (or some exact zeros)
        den = 2 ** 14
        parts = [0 if (mode == "zeros" and rng.random() < 0.1) else 1 for _ in range(card)]
        left = den - sum(parts)
        while left > 0:
            k = rng.randrange(card)
            add = min(left, rng.randint(1, 256))
            if parts[k] or mode != "zeros":
                parts[k] += add
                left -= add
        return [Fraction(x, den) for x in parts]
    if mode == "det":
        k = rng.randrange(card)
        return [Fraction(int(i == k)) for i in range(card)]
    if mode == "unif2":
        den = 2 ** rng.choice([1, 2])
        while True:
            cuts = sorted(rng.randint(0, den) for _ in range(card - 1))
            parts = [b - a for a, b in zip([0] + cuts, cuts + [den])]
            return [Fraction(x, den) for x in parts]
    return common.rand_column(rng, card, zeros=(mode == "zeros"))


def gen_cpds(rng, n, edges, cards, coarse=False):
    cpds = {}
    for v in range(n):
        pa = [u for (u, w) in edges if w == v]
        rng.shuffle(pa)
        ncol = 1
        for p in pa:
            ncol *= cards[p]
        style = rng.choice(["pos", "zeros", "zeros", "det", "mix", "coarse"]) if not coarse else "coarse"
        cols = []
        for _ in range(ncol):
            m = style
            if style == "mix":
                m = rng.choice(["pos", "zeros", "det"])
            if style == "coarse":
                m = "unif2"
            cols.append(rand_col(rng, cards[v], m))
        if style == "coarse" and ncol > 1 and rng.random() < 0.5:
            cols = [cols[0]] * ncol  # parent-independent table: equal reduced factors become likely
        cpds[str(v)] = {"pa": pa, "cols": [[fr(x) for x in c] for c in cols]}
    return cpds


def shape_dag(rng, n):
    kind = rng.choice(["rand", "rand", "chain", "collider", "family", "disc", "diamond", "isolated", "twins"])
    if kind == "chain":
        o = list(range(n))
        rng.shuffle(o)
        return kind, [(o[i], o[i + 1]) for i in range(n - 1)]
    if kind == "collider" and n >= 3:
        o = list(range(n))
        rng.shuffle(o)
        e = [(o[0], o[2]), (o[1], o[2])]
        for k in range(3, n):
            e.append((o[rng.choice([0, 1, 2, k - 1])], o[k]))
        return kind, e
    if kind == "family" and n >= 3:
        o = list(range(n))
        rng.shuffle(o)
        return kind, [(o[i], o[n - 1]) for i in range(min(n - 1, 3))] + (
            [(o[n - 1], o[n - 2])] if n >= 5 else [])
    if kind == "disc" and n >= 4:
        o = list(range(n))
        rng.shuffle(o)
        h = n // 2
        return kind, [(o[i], o[i + 1]) for i in range(h - 1)] + [(o[i], o[i + 1]) for i in range(h, n - 1)]
    if kind == "diamond" and n >= 4:
        o = list(range(n))
        rng.shuffle(o)
        e = [(o[0], o[1]), (o[0], o[2]), (o[1], o[3]), (o[2], o[3])]
        for k in range(4, n):
            e.append((o[rng.randrange(k)], o[k]))
        return kind, e
    if kind == "twins" and n >= 3:
        # two children sharing all their parents (and often their tables): D2-style collapse candidates
        o = list(range(n))
        rng.shuffle(o)
        pa = o[: max(1, min(2, n - 2))]
        return kind, [(p, o[-1]) for p in pa] + [(p, o[-2]) for p in pa]
    if kind == "isolated":
        return kind, []
    _, e = common.rand_dag(rng, n)
    return "rand", e


def collapse_case(rng, hashseed):
    """A -> X, A -> Y, E -> X, E -> Y with P(X|A,E) = P(Y|A,E); evidence given in the order X, Y, E"""
    extra = rng.choice([0, 0, 1])
    n = 4 + extra
    A, E, X, Y = 0, 1, 2, 3
    edges = [(A, X), (A, Y), (E, X), (E, Y)]
    if extra:
        edges.append(rng.choice([(4, A), (A, 4), (X, 4), (4, E)]))
    cards = [rng.choice([2, 3]), 2, 2, 2] + [2] * extra
    cpds = gen_cpds(rng, n, edges, cards)
    # X and Y: same function of (A, E), possibly with different parent orders; strictly positive columns
    ca, ce = cards[A], cards[E]
    tab = {(a, e): rand_col(rng, 2, "pos") for a in range(ca) for e in range(ce)}
    for v in (X, Y):
        pa = [A, E] if rng.random() < 0.5 else [E, A]
        cfgs = [(a, e) for a in range(ca) for e in range(ce)] if pa == [A, E] else [(a, e) for e in range(ce) for a in range(ca)]
        cpds[str(v)] = {"pa": pa, "cols": [[fr(x) for x in tab[c]] for c in cfgs]}
    for v in (A, E):
        cpds[str(v)] = {"pa": cpds[str(v)]["pa"], "cols": [[fr(x) for x in rand_col(rng, cards[v], "pos")]
                                                           for _ in cpds[str(v)]["cols"]]}
    st = rng.randrange(2)
    return {"kind": "rand", "shape": "collapse", "n": n, "nodes": list(range(n)), "edges": [list(e) for e in edges],
            "cards": cards, "cpds": cpds, "nstyle": "str", "sstyle": "int", "nameseed": rng.randint(0, 10**9),
            "Q": [A], "E": [[X, st], [Y, st], [E, rng.randrange(2)]], "vev": [], "oseed": rng.randint(0, 10**9),
            "hashseed": hashseed}


def cols_for(rng, v, pa, cards):
    ncol = 1
    for p in pa:
        ncol *= cards[p]
    mode = rng.choice(["pos", "zeros", "mix"])
    return [[fr(x) for x in rand_col(rng, cards[v], rng.choice(["pos", "zeros", "det"]) if mode == "mix" else mode)]
            for _ in range(ncol)]


def pick_query_on(rng, alive, cards, allow_vev):
    q = rng.sample(alive, rng.randint(1, min(3, len(alive))))
    rest = [v for v in alive if v not in q]
    e = rng.sample(rest, rng.randint(0, min(3, len(rest))))
    ev = [[v, rng.randrange(cards[v])] for v in e]
    vev = []
    if allow_vev and rng.random() < 0.4:
        for v in rng.sample(alive, rng.randint(1, min(2, len(alive)))):
            vals = [Fraction(rng.choice([0, 1, 2, 3, 4, 4, 5, 8]), 8) for _ in range(cards[v])]
            t = [v, [fr(x) for x in vals]]
            if cards[v] >= 2 and rng.random() < 0.25:
                t.append(rng.choice(all_perms(cards[v])))
            vev.append(t)
    return q, ev, vev


def session_case(rng, hashseed, edits=False):
    """ONE engine (and one model object), a sequence of steps: queries (roles re-split over the same node set, other
    evidence states, repeats, virtual evidence also with re-ordered state lists), calls that must be rejected, and -
    with edits - changes of the model through every mutator in between (add_cpds of an existing variable, remove_node,
    add_node + add_edge(s), remove_edge, add_edge); the oracle of every step is the model on the CURRENT network"""
    n = rng.choice([3, 3, 4, 4, 5])
    shape, edges = shape_dag(rng, n)
    if rng.random() < 0.4:
        o = list(range(n))
        rng.shuffle(o)
        shape, edges = "chain", [(o[i], o[i + 1]) for i in range(n - 1)]
    edges = [tuple(e) for e in edges]
    n_total = n + (3 if edits else 0)
    cards = [rng.choice([2, 2, 3]) for _ in range(n_total)]
    cpds = gen_cpds(rng, n, edges, cards)
    # hidden topological order (edits keep the graph acyclic by only adding edges forward in it)
    topo, left = [], set(range(n))
    while left:
        for v in sorted(left):
            if all(u not in left for (u, w) in edges if w == v):
                topo.append(v)
                left.discard(v)
                break
    alive = list(range(n))
    eset = set(edges)
    pa = {v: list(cpds[str(v)]["pa"]) for v in range(n)}
    next_id = n
    steps = []
    queries = []
    nsteps = rng.randint(3, 8)
    while len([s_ for s_ in steps if "op" not in s_]) < nsteps:
        usable = [s_ for s_ in queries if all(v in alive for v in s_["Q"] + [e[0] for e in s_["E"]] + [t[0] for t in s_["vev"]])]
        r = rng.random()
        if usable and r < 0.45:
            prev = usable[-1]
            pool = list(prev["Q"]) + [e[0] for e in prev["E"]]
            rng.shuffle(pool)
            nq = rng.randint(1, max(1, len(pool) - 1)) if len(pool) > 1 else 1
            q, e = pool[:nq], pool[nq:]
            ev = [[v, rng.randrange(cards[v])] for v in e]
            vev = []
        elif usable and r < 0.6:
            prev = usable[-1]
            q, ev, vev = list(prev["Q"]), [[v, rng.randrange(cards[v])] for v, _ in prev["E"]], []
        elif usable and r < 0.75:
            prev = rng.choice(usable)
            q, ev, vev = list(prev["Q"]), [list(x) for x in prev["E"]], [list(x) for x in prev["vev"]]
        else:
            q, ev, vev = pick_query_on(rng, alive, cards, True)
        st = {"Q": q, "E": ev, "vev": vev, "eo": rng.choice(EOS), "joint": rng.random() < 0.6}
        steps.append(st)
        queries.append(st)
        # a call that must be rejected (and must leave the engine as it was)
        if rng.random() < 0.2:
            why = rng.choice(["common", "vev_unknown", "vev_card", "vev_later", "vev_later_unknown"])
            a = rng.choice(alive)
            rj = {"op": "reject", "why": why, "Q": [a], "E": [], "vev": [], "eo": rng.choice(EOS), "joint": rng.random() < 0.5}
            if why == "common":
                rj["E"] = [[a, rng.randrange(cards[a])]]
            elif why == "vev_unknown":
                rj["vev"] = [[999, 2, [0, 1]]]
            elif why == "vev_card":
                rj["vev"] = [[a, cards[a] + 1, list(range(cards[a] + 1))]]
            elif why == "vev_later_unknown":
                rj["vev"] = [[a, cards[a], list(range(cards[a]))], [999, 2, [0, 1]]]
            else:
                b_ = rng.choice(alive)
                rj["vev"] = [[a, cards[a], list(range(cards[a]))], [b_, cards[b_] + 1, list(range(cards[b_] + 1))]]
            steps.append(rj)
        if rng.random() < 0.15:
            steps.append({"op": "fresh_engine"})
        if edits and rng.random() < 0.5:
            kind = rng.choice(["replace_cpd", "replace_cpd", "remove_node", "add_node", "remove_edge", "add_edge"])
            if kind == "replace_cpd":
                v = rng.choice(alive)
                rng.shuffle(pa[v])
                steps.append({"op": "replace_cpd", "v": v, "pa": list(pa[v]), "cols": cols_for(rng, v, pa[v], cards)})
            elif kind == "remove_node" and len(alive) >= 3:
                v = rng.choice(alive)
                alive.remove(v)
                topo.remove(v)
                eset = {(u, w) for (u, w) in eset if v not in (u, w)}
                for w in alive:
                    if v in pa[w]:
                        pa[w].remove(v)
                steps.append({"op": "remove_node", "v": v})
            elif kind == "add_node" and next_id < n_total:
                v = next_id
                next_id += 1
                pv = rng.sample(alive, rng.randint(0, min(2, len(alive))))
                pa[v] = list(pv)
                alive.append(v)
                topo.append(v)
                eset |= {(u, v) for u in pv}
                steps.append({"op": "add_node", "v": v, "pa": list(pv), "cols": cols_for(rng, v, pv, cards)})
            elif kind == "remove_edge" and eset:
                u, v = rng.choice(sorted(eset))
                eset.discard((u, v))
                pa[v].remove(u)
                steps.append({"op": "remove_edge", "u": u, "v": v, "pa": list(pa[v]), "cols": cols_for(rng, v, pa[v], cards)})
            elif kind == "add_edge":
                cand = [(topo[i], topo[k]) for i in range(len(topo)) for k in range(i + 1, len(topo))
                        if (topo[i], topo[k]) not in eset and len(pa[topo[k]]) < 3]
                if cand:
                    u, v = rng.choice(cand)
                    eset.add((u, v))
                    pa[v].insert(rng.randint(0, len(pa[v])), u)
                    steps.append({"op": "add_edge", "u": u, "v": v, "pa": list(pa[v]), "cols": cols_for(rng, v, pa[v], cards)})
    nodes = list(range(n))
    rng.shuffle(nodes)
    c = {"kind": "session", "shape": shape, "n": n, "nodes": nodes, "edges": [list(e) for e in edges], "cards": cards,
         "cpds": cpds, "nstyle": rng.choice(["str", "str", "int", "tuple", "substr"]),
         "sstyle": rng.choice(["int", "str", "tuple", "mixed", "onebased", "bool"]),
         "nameseed": rng.randint(0, 10**9), "steps": steps, "oseed": rng.randint(0, 10**9), "hashseed": hashseed}
    if edits:
        c["n_total"] = n_total
        c["edits"] = True
    if rng.random() < 0.15:
        c["backend"] = "torch"
    return c


def state_names(rng, card, style):
    if style == "int":
        l = list(range(card))
    elif style == "str":
        l = ["s%d" % i for i in range(card)]
    elif style == "tuple":
        l = [["t", i] for i in range(card)]  # JSON: lists; turned into tuples by the worker
    elif style == "onebased":
        l = list(range(1, card + 1))  # integers that are not their positions
    elif style == "bool":
        l = [False, True] if card == 2 else ([True] if card == 1 else list(range(2, card + 2)))
    else:
        pool = [0, "a", ["t", 1], 1, "b", ["u", 2]]
        l = pool[:card]
    if rng.random() < 0.6:
        rng.shuffle(l)
    return l


def all_perms(k):
    return [list(p) for p in itertools.permutations(range(k))]


def tiny_case(rng, hashseed):
    """rare independent alarms: CPD entries down to 2^-40, P(evidence) between 1e-6 and 1e-30"""
    k = rng.randint(2, 4)
    hc = rng.choice([2, 3])
    n = 1 + k + 1
    H, C = 0, n - 1
    alarms = list(range(1, 1 + k))
    edges = [(H, a) for a in alarms if rng.random() < 0.5]
    cpar = rng.sample(alarms, rng.randint(1, 2))
    edges += [(a, C) for a in cpar]
    cards = [hc] + [2] * k + [2]
    cpds = gen_cpds(rng, n, edges, cards)
    cpds[str(H)] = {"pa": [], "cols": [[fr(x) for x in rand_col(rng, hc, "pos")]]}
    deep = rng.random() < 0.3
    top = 300 if deep else 40
    budget = rng.randint(200, 600) if deep else rng.randint(20, 100)
    ms = [max(6, min(top, budget // k + rng.randint(-4, 4))) for _ in alarms]
    for a, mexp in zip(alarms, ms):
        pa = cpds[str(a)]["pa"]
        cols = []
        for _ in range(hc if pa else 1):
            me = max(6, min(top, mexp + rng.randint(-3, 3)))
            cols.append([fr(1 - Fraction(1, 2 ** me)), fr(Fraction(1, 2 ** me))])
        cpds[str(a)] = {"pa": pa, "cols": cols}
    obs = rng.sample(alarms, rng.randint(2, k))
    ev = [[a, 1] for a in obs]
    rest = [v for v in range(n) if v not in obs]
    q = rng.sample(rest, rng.randint(1, min(2, len(rest))))
    if rng.random() < 0.4:
        # a near-zero, non-zero query marginal: an unobserved alarm, little or no evidence
        ev = ev[:rng.randint(0, 1)]
        free = [a for a in alarms if a not in [e[0] for e in ev]]
        q = [rng.choice(free)] + ([H] if rng.random() < 0.5 else [])
    nodes = list(range(n))
    rng.shuffle(nodes)
    return {"kind": "rand", "shape": "tiny", "rel": True, "n": n, "nodes": nodes, "edges": [list(e) for e in edges],
            "cards": cards, "cpds": cpds, "nstyle": rng.choice(["str", "int"]), "sstyle": rng.choice(["int", "str"]),
            "nameseed": rng.randint(0, 10**9), "Q": q, "E": ev, "vev": [], "oseed": rng.randint(0, 10**9),
            "hashseed": hashseed}


def vevperm_case(rng, hashseed):
    """one virtual evidence on a variable with 3 or 4 states, non-uniform distinct likelihoods; the worker runs it
    with the state list in EVERY order"""
    n = rng.choice([2, 3, 4])
    shape, edges = shape_dag(rng, n)
    cards = [rng.choice([2, 3]) for _ in range(n)]
    x = rng.randrange(n)
    cards[x] = rng.choice([3, 3, 4])
    vals = rng.sample([Fraction(i, 16) for i in range(1, 16)], cards[x])
    rest = [v for v in range(n) if v != x]
    q = [x] if (not rest or rng.random() < 0.4) else rng.sample(rest, rng.randint(1, min(2, len(rest))))
    e = [v for v in range(n) if v not in q and v != x and rng.random() < 0.3]
    return {"kind": "vevperm", "shape": shape, "n": n, "nodes": list(range(n)), "edges": [list(e_) for e_ in edges],
            "cards": cards, "cpds": gen_cpds(rng, n, edges, cards), "nstyle": rng.choice(["str", "int", "tuple"]),
            "sstyle": rng.choice(["int", "str", "tuple", "mixed"]), "nameseed": rng.randint(0, 10**9),
            "Q": q, "E": [[v, rng.randrange(cards[v])] for v in e], "x": x, "vals": [fr(v) for v in vals],
            "oseed": rng.randint(0, 10**9), "hashseed": hashseed}


def offnorm_case(rng, hashseed, where):
    """valid but not exactly normalised tables: columns typed with three decimals whose sums are within 0.005 of one
    (check_model accepts 0.01).  where='root': only parentless CPDs are off (pruned = unpruned reference, compared with
    the brute-force posterior); where='any': also non-root columns (the code prunes barren nodes as if their columns
    summed to one, so the oracle is the model, which prunes the same way)"""
    n = rng.choice([2, 3, 3, 4, 5])
    shape, edges = shape_dag(rng, n)
    cards = [rng.choice([2, 3, 3, 4]) for _ in range(n)]
    cpds = gen_cpds(rng, n, edges, cards)
    roots = [v for v in range(n) if not cpds[str(v)]["pa"]]
    for v in range(n):
        if where == "root" and v not in roots:
            continue
        if rng.random() < (0.8 if v in roots else 0.6):
            cols = []
            for col in cpds[str(v)]["cols"]:
                c = [Fraction(a, b) for a, b in col]
                if rng.random() < 0.3 and cards[v] == 3:
                    c2 = [Fraction(333, 1000)] * 3
                else:
                    d = Fraction(rng.choice([-4, -3, -1, 1, 2, 4]), 1000)
                    c2 = [Fraction(round(float(x * (1 + d)) * 1000), 1000) for x in c]
                    if sum(c2) == 1 and c2[0] > 0:
                        c2[0] += Fraction(1, 1000)
                if abs(sum(c2) - 1) <= Fraction(5, 1000) and all(x >= 0 for x in c2):
                    c = c2
                cols.append([fr(x) for x in c])
            cpds[str(v)]["cols"] = cols
    q, ev, vev = pick_query(rng, n, cards, True)
    r = rng.random()
    if r < 0.5:
        ev, vev = [], []          # nothing observed: "already a distribution" shortcuts
    elif r < 0.65:
        ev = []
    nodes = list(range(n))
    rng.shuffle(nodes)
    return {"kind": "rand", "shape": "offnorm-" + where, "offnorm": where, "n": n, "nodes": nodes,
            "edges": [list(e) for e in edges], "cards": cards, "cpds": cpds, "nstyle": rng.choice(["str", "int", "tuple"]),
            "sstyle": rng.choice(["int", "str", "onebased"]), "nameseed": rng.randint(0, 10**9), "Q": q, "E": ev,
            "vev": vev, "oseed": rng.randint(0, 10**9), "hashseed": hashseed}


def midsize_case(rng, hashseed, tier):
    """9-12 node chains / trees / polytrees, 17 nodes (1 mod 8), a variable with 257 states"""
    kind = rng.choice(["chain", "tree", "poly", "chain", "wide257"] + (["n17"] if tier != "quick" or rng.random() < 0.3 else []))
    if kind == "wide257":
        n, cards = 3, [257, 2, 2]
        edges = [(0, 1), (1, 2)] if rng.random() < 0.5 else [(0, 1), (0, 2)]
    else:
        n = 17 if kind == "n17" else rng.choice([9, 10, 11, 12])
        o = list(range(n))
        rng.shuffle(o)
        if kind in ("chain", "n17"):
            edges = [(o[i], o[i + 1]) for i in range(n - 1)]
        elif kind == "tree":
            edges = [(o[rng.randrange(i)], o[i]) for i in range(1, n)]
        else:
            edges = [(o[rng.randrange(i)], o[i]) if rng.random() < 0.5 else (o[i], o[rng.randrange(i)]) for i in range(1, n)]
            # keep it a DAG: orient every edge along o
            pos = {v: k for k, v in enumerate(o)}
            edges = [(u, w) if pos[u] < pos[w] else (w, u) for u, w in edges]
            # at most 3 parents
            cnt, keep = {}, []
            for u, w in edges:
                if cnt.get(w, 0) < 3:
                    keep.append((u, w))
                    cnt[w] = cnt.get(w, 0) + 1
            edges = keep
        cards = [2] * n
    q = rng.sample(range(n), rng.randint(1, 2))
    rest = [v for v in range(n) if v not in q]
    ev = [[v, rng.randrange(cards[v])] for v in rng.sample(rest, rng.randint(0, min(3, len(rest))))]
    vev = []
    if kind != "wide257" and rng.random() < 0.3:
        v = rng.randrange(n)
        vev = [[v, [fr(Fraction(rng.randint(1, 7), 8)) for _ in range(cards[v])]]]
    nodes = list(range(n))
    rng.shuffle(nodes)
    return {"kind": "rand", "shape": "mid-" + kind, "n": n, "nodes": nodes, "edges": [list(e) for e in edges], "cards": cards,
            "cpds": gen_cpds(rng, n, edges, cards), "nstyle": rng.choice(["int", "str", "bigint"]),
            "sstyle": "int" if kind == "wide257" else rng.choice(["int", "str", "onebased"]),
            "nameseed": rng.randint(0, 10**9), "Q": q, "E": ev, "vev": vev, "oseed": rng.randint(0, 10**9),
            "ncfg": 2 if kind in ("n17", "wide257") else 3, "hashseed": hashseed}


def big_case(rng, hashseed):
    """>= 9 variables in one factor (a family with 8 parents, or a long chain eliminated into wide factors), integer
    node names >= 8 (the iteration order of a set of small ints is increasing only below 8)"""
    n = rng.choice([10, 10, 11])
    o = list(range(n))
    rng.shuffle(o)
    if rng.random() < 0.6:
        child = o[-1]
        edges = [(p, child) for p in o[:8]] + ([(o[8], o[0])] if n > 9 else [])
        shape = "family8"
    else:
        # a 'comb': chain plus a hub observed late, VE with a poor explicit order builds wide factors
        edges = [(o[i], o[i + 1]) for i in range(n - 1)] + [(o[0], o[k]) for k in range(2, n, 2)]
        shape = "comb"
    cards = [2] * n
    q = rng.sample(range(n), rng.randint(1, 2))
    rest = [v for v in range(n) if v not in q]
    ev = [[v, rng.randrange(2)] for v in rng.sample(rest, rng.randint(0, 2))]
    vev = []
    if rng.random() < 0.3:
        v = rng.randrange(n)
        vev = [[v, [fr(Fraction(rng.randint(1, 7), 8)) for _ in range(2)]]]
    nodes = list(range(n))
    rng.shuffle(nodes)
    return {"kind": "rand", "shape": shape, "n": n, "nodes": nodes, "edges": [list(e) for e in edges], "cards": cards,
            "cpds": gen_cpds(rng, n, edges, cards), "nstyle": rng.choice(["int", "int", "str"]),
            "sstyle": rng.choice(["int", "str", "onebased"]), "nameseed": rng.randint(0, 10**9), "Q": q, "E": ev, "vev": vev,
            "oseed": rng.randint(0, 10**9), "ncfg": 3, "hashseed": hashseed}


def nearequal_case(rng, hashseed):
    """the collapse network with tables that differ by 2^-30 .. 2^-40 (inside DiscreteFactor.__eq__'s atol)"""
    c = collapse_case(rng, hashseed)
    d = Fraction(1, 2 ** rng.randint(30, 40))
    cols = [[Fraction(a, b) for a, b in col] for col in c["cpds"]["3"]["cols"]]
    k = rng.randrange(len(cols))
    if cols[k][0] > d and cols[k][1] + d < 1:
        cols[k] = [cols[k][0] - d, cols[k][1] + d]
    c["cpds"]["3"]["cols"] = [[fr(x) for x in col] for col in cols]
    c["shape"] = "nearequal"
    return c


def pick_query(rng, n, cards, allow_vev):
    nodes = list(range(n))
    q = rng.sample(nodes, rng.randint(1, min(3, n)))
    rest = [v for v in nodes if v not in q]
    e = rng.sample(rest, rng.randint(0, min(3, len(rest))))
    ev = [[v, rng.randrange(cards[v])] for v in e]
    vev = []
    if allow_vev and rng.random() < 0.5:
        for v in rng.sample(nodes, rng.randint(1, min(2, n))):
            vals = [Fraction(rng.choice([0, 1, 2, 3, 4, 4, 5, 8]), 8) for _ in range(cards[v])]
            t = [v, [fr(x) for x in vals]]
            if cards[v] >= 2 and rng.random() < 0.25:
                t.append(rng.choice(all_perms(cards[v])))  # state list in an order of its own
            vev.append(t)
            if rng.random() < 0.15:
                # a second, different likelihood on the same variable
                vev.append([v, [fr(Fraction(rng.choice([1, 2, 3, 5, 8]), 8)) for _ in range(cards[v])]])
    return q, ev, vev


def cases(tier, seed):
    rng = random.Random(seed)
    out = []
    hs = HASHSEEDS[tier]
    # exhaustive small DAGs, all (Q, E)
    nmax = 3 if tier == "quick" else 4
    k = 0
    for n in range(1, nmax + 1):
        for edges in common.all_dags(n):
            cards = [rng.choice([1, 2, 2, 3]) for _ in range(n)]
            out.append({"kind": "exh", "n": n, "nodes": list(range(n)), "edges": [list(e) for e in edges], "cards": cards,
                        "cpds": gen_cpds(rng, n, edges, cards), "nstyle": "str", "sstyle": rng.choice(["int", "str"]),
                        "nameseed": rng.randint(0, 10**9), "qseed": rng.randint(0, 10**9), "hashseed": hs[k % len(hs)]})
            k += 1
    # random structured networks
    nrand = 260 if tier == "quick" else 4000
    for i in range(nrand):
        n = rng.choice([1, 2, 3, 3, 4, 4, 5, 5, 6])
        shape, edges = shape_dag(rng, n)
        cards = [rng.choice([1, 2, 2, 2, 3, 3, 4]) for _ in range(n)]
        if n >= 6:
            cards = [min(c, 3) for c in cards]
        coarse = shape == "twins" or rng.random() < 0.15
        nodes = list(range(n))
        rng.shuffle(nodes)
        nstyle = rng.choice(["str", "str", "int", "tuple", "mixed", "substr"])
        q, ev, vev = pick_query(rng, n, cards, True)
        order_seed = rng.randint(0, 10**9)
        base = {"kind": "rand", "shape": shape, "n": n, "nodes": nodes, "edges": [list(e) for e in edges], "cards": cards,
                "cpds": gen_cpds(rng, n, edges, cards, coarse), "nstyle": nstyle,
                "sstyle": rng.choice(["int", "str", "tuple", "mixed", "onebased", "bool"]), "nameseed": rng.randint(0, 10**9),
                "Q": q, "E": ev, "vev": vev, "oseed": order_seed}
        if rng.random() < 0.2:
            base["backend"] = "torch"
        # the same query under 2 (quick) / 4 (thorough) different hash seeds
        for h in rng.sample(hs, 2 if tier == "quick" else 4):
            c = dict(base)
            c["hashseed"] = h
            out.append(c)
    # networks built so that two evidence-reduced factors coincide (same scope, table and origin)
    for i in range(10 if tier == "quick" else 80):
        out.append(collapse_case(rng, hs[i % len(hs)]))
    # sessions: ONE engine, several queries; consecutive queries often use the same node set with the
    # query / evidence roles re-split, the same evidence variables in other states, or repeat earlier queries
    for i in range(110 if tier == "quick" else 1600):
        out.append(session_case(rng, hs[i % len(hs)]))
    # ... with changes of the model object in between (every mutator), oracle = the current network
    for i in range(70 if tier == "quick" else 1000):
        out.append(session_case(rng, hs[i % len(hs)], edits=True))
    # tiny probabilities: P(evidence) in 1e-6 .. 1e-30, near-zero marginals (pure relative comparison)
    for i in range(60 if tier == "quick" else 800):
        out.append(tiny_case(rng, hs[i % len(hs)]))
    # virtual evidence with the state list in every order
    for i in range(16 if tier == "quick" else 300):
        out.append(vevperm_case(rng, hs[i % len(hs)]))
    # wide factors (>= 9 variables), integer names >= 8
    for i in range(8 if tier == "quick" else 120):
        out.append(big_case(rng, hs[i % len(hs)]))
    # valid but not exactly normalised tables
    for i in range(40 if tier == "quick" else 600):
        out.append(offnorm_case(rng, hs[i % len(hs)], "root" if i % 3 else "any"))
    # mid-sized and threshold-sized networks
    for i in range(10 if tier == "quick" else 150):
        out.append(midsize_case(rng, hs[i % len(hs)], tier))
    # tables that differ by less than the tolerance of factor equality
    for i in range(6 if tier == "quick" else 80):
        out.append(nearequal_case(rng, hs[i % len(hs)]))
    # a child CPD that lists a parent's states in another order: the engine must refuse the model
    for i in range(8 if tier == "quick" else 80):
        n = rng.choice([2, 3])
        o = list(range(n))
        rng.shuffle(o)
        edges = [(o[i_], o[i_ + 1]) for i_ in range(n - 1)]
        cards = [rng.choice([2, 3]) for _ in range(n)]
        out.append({"kind": "badstates", "n": n, "nodes": list(range(n)), "edges": [list(e) for e in edges], "cards": cards,
                    "cpds": gen_cpds(rng, n, edges, cards), "nstyle": rng.choice(["str", "int"]),
                    "sstyle": rng.choice(["int", "str", "onebased"]), "nameseed": rng.randint(0, 10**9),
                    "child": o[1], "perm": rng.choice(all_perms(cards[o[0]])), "hashseed": hs[i % len(hs)]})
    # malformed elimination orders (rejection paths)
    for i in range(12 if tier == "quick" else 60):
        n = rng.choice([3, 4])
        _, edges = common.rand_dag(rng, n)
        cards = [2] * n
        out.append({"kind": "badorder", "n": n, "nodes": list(range(n)), "edges": [list(e) for e in edges], "cards": cards,
                    "cpds": gen_cpds(rng, n, edges, cards), "nstyle": "str", "sstyle": "int",
                    "nameseed": rng.randint(0, 10**9), "which": rng.choice(["hasq", "hase", "missing"]),
                    "hashseed": hs[i % len(hs)]})
    # the BayesianNetwork front ends that route through the same joint
    for i in range(40 if tier == "quick" else 500):
        n = rng.choice([2, 3, 4, 5])
        shape, edges = shape_dag(rng, n)
        cards = [rng.choice([1, 2, 2, 3]) for _ in range(n)]
        q, ev, _ = pick_query(rng, n, cards, False)
        out.append({"kind": "front", "n": n, "nodes": list(range(n)), "edges": [list(e) for e in edges], "cards": cards,
                    "cpds": gen_cpds(rng, n, edges, cards), "nstyle": rng.choice(["str", "substr"]),
                    "sstyle": rng.choice(["int", "str", "onebased", "bool"]),
                    "nameseed": rng.randint(0, 10**9), "E": ev, "hashseed": hs[i % len(hs)]})
    return out


def shrink(case):
    if case.get("kind") == "session":
        st = case["steps"]
        for i in range(len(st)):
            if len(st) > 1 and st[i].get("op") in (None, "reject", "fresh_engine"):
                c = dict(case)
                c["steps"] = st[:i] + st[i + 1:]
                yield c
        return
    if case.get("kind") != "rand":
        return
    n = case["n"]
    # drop a virtual evidence / an evidence / a query variable
    for key in ("vev", "E", "Q"):
        for i in range(len(case[key])):
            if key == "Q" and len(case["Q"]) == 1:
                continue
            c = dict(case)
            c[key] = case[key][:i] + case[key][i + 1:]
            yield c
    # drop a node that is not used by the query
    used = set(case["Q"]) | {e[0] for e in case["E"]} | {t[0] for t in case["vev"]}
    for v in range(n):
        if v in used:
            continue
        if any(u == v for (u, w) in case["edges"]):
            continue  # only leaves: the CPDs of the others stay valid
        if v != n - 1:
            continue  # keep labels dense
        c = dict(case)
        c["n"] = n - 1
        c["nodes"] = [x for x in case["nodes"] if x != v]
        c["edges"] = [e for e in case["edges"] if v not in e]
        c["cards"] = case["cards"][:-1]
        c["cpds"] = {k: x for k, x in case["cpds"].items() if int(k) != v}
        yield c


# ------------------------------------------------------------------ building both sides
def tup(x):
    return tuple(tup(y) for y in x) if isinstance(x, list) else x


def names_of(case):
    rng = random.Random(case["nameseed"])
    n = case.get("n_total", case["n"])
    if case["nstyle"] == "substr":
        pool = ["x1", "x10", "x", "x100", "G", "G2", "G20", "evidence", "variables", "None", "0", "1", "values", "__x",
                "___x", 1, 0]
        rng.shuffle(pool)
        # "x" with "__x" (the name of x's virtual child) and 1 with "1" often together
        if n >= 2 and rng.random() < 0.3:
            pool = rng.choice([["x", "__x"], ["x", "__x", "___x"], [1, "1"], ["0", 0]]) + [y for y in pool if y not in ("x", "__x", "___x", 1, "1", "0", 0)]
        if case.get("kind") == "front":
            # predict_probability builds its column labels as name + "_" + str(state): string names only
            pool = [y for y in pool if isinstance(y, str)]
        nn = pool[:n]
    elif case["nstyle"] == "str" and n > 13:
        nn = ["N%d" % i for i in rng.sample(range(3 * n), n)]
    elif case["nstyle"] == "bigint":
        nn = rng.sample(range(257, 257 + 4 * n + 8), n)
    else:
        nn = common.node_names(rng, n, case["nstyle"])
    sn = [[tup(s) for s in state_names(rng, case["cards"][v], case["sstyle"])] for v in range(n)]
    return nn, sn


def apply_edit(m, st, cards, nn, sn):
    """one change of the model object through its public mutators"""
    op = st["op"]
    cols = [[Fraction(a, b) for a, b in col] for col in st.get("cols", [])]
    if op == "remove_node":
        m.remove_node(nn[st["v"]])
    elif op == "replace_cpd":
        m.add_cpds(make_cpd(st["v"], cards, st["pa"], cols, nn, sn))
    elif op == "add_node":
        m.add_node(nn[st["v"]])
        m.add_edges_from([(nn[u], nn[st["v"]]) for u in st["pa"]])
        m.add_cpds(make_cpd(st["v"], cards, st["pa"], cols, nn, sn))
    elif op == "remove_edge":
        m.remove_edge(nn[st["u"]], nn[st["v"]])
        m.add_cpds(make_cpd(st["v"], cards, st["pa"], cols, nn, sn))
    elif op == "add_edge":
        m.add_edge(nn[st["u"]], nn[st["v"]])
        m.add_cpds(make_cpd(st["v"], cards, st["pa"], cols, nn, sn))
    else:
        raise ValueError(op)
    m.check_model()


def run_reject(case, drv, m, nn, sn, st, ve, rng, tags):
    """a call the code must reject with ValueError (model: Model.query_rejects <> 0); arguments stay untouched"""
    from pgmpy.factors.discrete import TabularCPD
    cards = case["cards"]
    idx = {repr(x): i for i, x in enumerate(nn)}
    nodes = [idx[repr(x)] for x in m.nodes()]
    code = drv.call("c01_reject", [[[v, cards[v]] for v in range(len(cards))], nodes, st["Q"], [e[0] for e in st["E"]],
                                   [[t[0], t[1], t[2]] for t in st["vev"]]])
    virt = []
    for v, gc, perm in st["vev"]:
        name = nn[v] if v < len(nn) else "no such node"
        names = [sn[v][p] if (v < len(sn) and p < len(sn[v])) else "extra%d" % p for p in perm]
        virt.append(TabularCPD(name, gc, [[0.5]] * gc, state_names={name: names}))
    parg, _ = eo_args(st["eo"], case, st["Q"], st["E"], rng, nn)
    if isinstance(parg, list):
        parg = [x for x in parg if repr(x) in {repr(y) for y in m.nodes()}]
    res, pure = do_query(ve, [nn[q] for q in st["Q"]], {nn[v]: sn[v][i] for v, i in st["E"]}, virt, parg, st["joint"], rng, None)
    detail = {"step": st, "model_code": code, "impl": repr(res)[:200]}
    if not pure:
        return bad("argument-mutated", detail)
    if code == 0:
        raise RuntimeError("generator: reject step the model accepts")
    if not isinstance(res, ValueError):
        if isinstance(res, Exception):
            raise res
        return bad("rejected-call-accepted", detail)
    tags.append("reject=%s" % st["why"])
    return None


def set_backend(case):
    from pgmpy import config
    if case.get("backend") == "torch":
        import torch
        config.set_backend("torch", device="cpu", dtype=torch.float64)
    else:
        config.set_backend("numpy")


def as_values(values, style):
    """the container a CPD table is given in: nested lists, C-contiguous float64 ndarray, a non-contiguous view,
    a slice of a larger reused buffer"""
    import numpy as np
    if style == "list":
        return values
    a = np.array(values, dtype=float)
    if style == "ndarray":
        return np.ascontiguousarray(a)
    if style == "view":
        return np.asfortranarray(a)
    buf = np.full((a.shape[0] + 2, a.shape[1] + 3), 9.0)
    buf[1:1 + a.shape[0], 2:2 + a.shape[1]] = a
    return buf[1:1 + a.shape[0], 2:2 + a.shape[1]]


def make_cpd(v, cards, pa, cols, nn, sn, vstyle="list"):
    from pgmpy.factors.discrete import TabularCPD
    values = [[float(cols[j][i]) for j in range(len(cols))] for i in range(cards[v])]
    st = {nn[v]: list(sn[v])}
    for p in pa:
        st[nn[p]] = list(sn[p])
    values = as_values(values, vstyle)
    if pa:
        return TabularCPD(nn[v], cards[v], values, evidence=[nn[p] for p in pa],
                          evidence_card=[cards[p] for p in pa], state_names=st)
    return TabularCPD(nn[v], cards[v], values, state_names=st)


def build(case):
    from pgmpy.models import BayesianNetwork
    from pgmpy.factors.discrete import TabularCPD
    nn, sn = names_of(case)
    n, cards = case["n"], case["cards"]
    set_backend(case)
    # insertion orders of nodes, edges and CPDs and the container of the tables are all free
    brng = random.Random(case["nameseed"] + 1)
    m = BayesianNetwork()
    m.add_nodes_from([nn[v] for v in case["nodes"]])
    edges = [(nn[u], nn[v]) for u, v in case["edges"]]
    brng.shuffle(edges)
    m.add_edges_from(edges)
    order = list(range(n))
    brng.shuffle(order)
    for v in order:
        c = case["cpds"][str(v)]
        cols = [[Fraction(a, b) for a, b in col] for col in c["cols"]]
        vstyle = brng.choice(["list", "list", "ndarray", "view", "buffer"])
        m.add_cpds(make_cpd(v, cards, c["pa"], cols, nn, sn, vstyle))
    m.check_model()
    return m, nn, sn


def model_bn(case, m, nn, extra_cards=()):
    """wire form of the network: [cards nodes edges cpds]; node order as pgmpy stores it"""
    idx = {repr(x): i for i, x in enumerate(nn)}
    n, cards = case["n"], case["cards"]
    nodes = [idx[repr(x)] for x in m.nodes()]
    cl = [[v, cards[v]] for v in range(n)] + [list(x) for x in extra_cards]
    if case.get("_live"):
        # the CURRENT state of the pgmpy model (after edits): exact rationals of the floats it holds
        import numpy as np
        cp = []
        for cpd in m.get_cpds():
            vs = [idx[repr(x)] for x in cpd.variables]
            for x, v in zip(cpd.variables, vs):
                if list(cpd.state_names[x]) != list(case["_sn"][v]):
                    raise RuntimeError("live CPD lists the states of %r in another order" % (x,))
            flat = [Fraction(float(t)) for t in np.asarray(cpd.values, dtype=float).ravel()]
            cp.append([idx[repr(cpd.variable)], [vs, flat]])
        edges = [[idx[repr(u)], idx[repr(w)]] for u, w in m.edges()]
        return [cl, nodes, edges, cp]
    cp = []
    for v in range(n):
        c = case["cpds"][str(v)]
        cols = [[Fraction(a, b) for a, b in col] for col in c["cols"]]
        flat = [cols[j][i] for i in range(cards[v]) for j in range(len(cols))]
        cp.append([v, [[v] + list(c["pa"]), flat]])
    return [cl, nodes, [list(e) for e in case["edges"]], cp]


def idx_tuples(cs):
    return list(itertools.product(*[range(c) for c in cs]))


def table_of_model(fac, cards, sn):
    """model factor [vars, vals] -> {frozenset((var, state-name)) : Fraction}"""
    vs, vals = fac
    out = {}
    for k, idx in enumerate(idx_tuples([cards[v] for v in vs])):
        out[frozenset((v, repr(sn[v][i])) for v, i in zip(vs, idx))] = common.frac(vals[k])
    return out


def table_of_impl(phi, nn, idxn):
    import numpy as np
    vs = [idxn[repr(x)] for x in phi.variables]
    out = {}
    vals = np.asarray(phi.values, dtype=float).reshape([len(phi.state_names[x]) for x in phi.variables])
    for idx in idx_tuples(list(vals.shape)):
        out[frozenset((v, repr(phi.state_names[x][i])) for v, x, i in zip(vs, phi.variables, idx))] = float(vals[idx])
    return out


def close(a, b, rel):
    """rel=False: |a-b| <= 1e-9*max(1,|b|);  rel=True (tiny-probability stream): |a-b| <= 1e-9*|b|"""
    if not rel:
        return common.approx(a, b)
    a, b = float(a), float(b)
    if a != a:
        return False
    return abs(a - b) <= 1e-9 * abs(b)


def cmp_tables(ti, tm, rel=False):
    if set(ti) != set(tm):
        return "keys differ"
    for k in tm:
        if not close(ti[k], tm[k], rel):
            return "value at %s: impl %r model %s" % (sorted(k), ti[k], tm[k])
    return None


def spec_tables(drv, wire, Q, E, vev, cards, sn):
    """(P(e), joint posterior table, per-variable tables) by brute force from coq/C01/Spec.v"""
    r = drv.call("c01_spec", wire + [Q, E, vev])
    pe = common.frac(r[0])
    if pe == 0:
        return pe, None, None
    joint = {}
    per = {q: {} for q in Q}
    for k, idx in enumerate(idx_tuples([cards[q] for q in Q])):
        p = common.frac(r[1][k]) / pe
        joint[frozenset((q, repr(sn[q][i])) for q, i in zip(Q, idx))] = p
        for q, i in zip(Q, idx):
            kk = frozenset([(q, repr(sn[q][i]))])
            per[q][kk] = per[q].get(kk, 0) + p
    return pe, joint, per


def eo_args(eo, case, Q, E, rng, nn):
    """(pgmpy argument, model argument) for one elimination_order option"""
    if eo == "greedy":
        return "greedy", [0]
    if eo is None:
        return None, [2]
    if eo == "perm":
        rest = [v for v in range(case["n"]) if v not in Q and v not in [e[0] for e in E]]
        rng.shuffle(rest)
        return [nn[v] for v in rest], [3, rest]
    return eo, [1, HEUR[eo]]


def clone(x):
    """an object equal to x that is not x (rebuilt at run time): `is` instead of `==` must be noticed"""
    if isinstance(x, bool):
        return x
    if isinstance(x, str):
        return (x + " ")[:-1] if x else x
    if isinstance(x, tuple):
        return tuple([clone(y) for y in x])
    if isinstance(x, int):
        return int(str(x))
    return x


def order_container(parg, rng, tags):
    """query documents elimination_order as 'str or list': a list or (equal content) a tuple; ndarray / pandas Index are
    not documented for query and make `elimination_order == "greedy"` ambiguous in the unchanged code, so not passed"""
    if not isinstance(parg, list) or not parg:
        return parg
    return tuple(parg) if rng.random() < 0.3 else parg


def snapshot_args(vars_arg, ev_arg, virt_arg, order_arg):
    import copy
    import numpy as np
    if order_arg is not None and not isinstance(order_arg, (str, list)):
        order_arg = list(order_arg)
    return [copy.deepcopy(list(vars_arg)), copy.deepcopy(ev_arg),
            None if virt_arg is None else [(list(c.variables), np.asarray(c.values, dtype=float).copy(),
                                            copy.deepcopy(dict(c.state_names)), list(np.asarray(c.cardinality)))
                                           for c in virt_arg],
            copy.deepcopy(order_arg)]


def same_snapshot(a, b):
    import numpy as np
    if a[0] != b[0] or a[1] != b[1] or a[3] != b[3] or (a[2] is None) != (b[2] is None):
        return False
    for x, y in zip(a[2] or [], b[2] or []):
        if x[0] != y[0] or x[2] != y[2] or x[3] != y[3] or x[1].shape != y[1].shape or not np.array_equal(x[1], y[1]):
            return False
    return len(a[2] or []) == len(b[2] or [])


def do_query(ve, qn, evidence, virt, parg, joint, rng, reuse):
    """call query with the arguments in one of their admissible forms; returns (result | exception, purity verdict).
    reuse: containers that are refilled and handed over again by the session stream (same object, other content)"""
    if reuse is not None:
        reuse["vars"][:] = qn
        vars_arg = reuse["vars"]
    else:
        vars_arg = tuple(qn) if rng.random() < 0.2 else list(qn)
    if evidence:
        if reuse is not None:
            reuse["ev"].clear()
            reuse["ev"].update(evidence)
            ev_arg = reuse["ev"]
        else:
            ev_arg = dict(evidence)
    else:
        ev_arg = rng.choice([None, {}])
    virt_arg = virt if virt else rng.choice([None, None, []])
    order_arg = parg
    if type(parg) is list and reuse is not None:
        reuse["order"][:] = parg
        order_arg = reuse["order"]
    before = snapshot_args(vars_arg, ev_arg, virt_arg, order_arg)
    try:
        res = ve.query(vars_arg, evidence=ev_arg, virtual_evidence=virt_arg, elimination_order=order_arg,
                       joint=joint, show_progress=rng.random() < 0.1)
    except Exception as ex:  # the caller decides which exceptions are expected
        res = ex
    pure = same_snapshot(before, snapshot_args(vars_arg, ev_arg, virt_arg, order_arg))
    return res, pure


def scribble(res):
    """overwrite the returned tables in place: the engine, the model and later answers must not notice"""
    for phi in (res.values() if isinstance(res, dict) else [res]):
        try:
            if hasattr(phi.values, "fill_"):
                phi.values.fill_(-7.0)
            else:
                phi.values[...] = -7.0
        except Exception:
            pass


def one_query(case, drv, m, nn, sn, Q, E, vev, eo, joint, rng, tags, engine=None, reuse=None):
    """run one configuration on pgmpy, the model and the spec; returns None or a bad(...) outcome"""
    from pgmpy.inference import VariableElimination
    from pgmpy.factors.discrete import TabularCPD
    n, cards = case["n"], list(case["cards"])
    rel = bool(case.get("rel"))
    idxn = {repr(x): i for i, x in enumerate(nn)}
    # a virtual evidence may list the states in an order of its own: [v, vals, perm]; vals stay in MODEL order
    # (the likelihood is a function of the state NAME), the CPD handed to pgmpy is permuted consistently
    vperm = [(list(t[2]) if len(t) > 2 else list(range(cards[t[0]]))) for t in vev]
    vev = [[t[0], t[1]] for t in vev]
    # every virtual-evidence ENTRY gets a fresh binary child (the code picks a fresh node name, the model a fresh id);
    # two entries on one variable therefore both count (their likelihoods multiply, as in Spec.weight)
    vcards = [[n + k, 2] for k in range(len(vev))]
    allcards = cards + [2] * len(vev)
    allsn = list(sn) + [[0, 1]] * len(vev)
    wire = model_bn(case, m, nn, vcards)
    vev_model = [[v, n + k, [Fraction(a, b) for a, b in vals]] for k, (v, vals) in enumerate(vev)]
    vev_spec = [[v, [Fraction(a, b) for a, b in vals]] for v, vals in vev]
    ckey = None if case.get("_live") else repr((Q, E, vev))
    cache = _SPEC_CACHE if ckey is not None else {}
    if ckey not in cache:
        cache[ckey] = spec_tables(drv, wire, Q, E, vev_spec, cards, sn)
    pe, sjoint, sper = cache[ckey]
    detail = {"Q": Q, "E": E, "vev": vev, "eo": str(eo), "joint": joint}
    parg, marg = eo_args(eo, case, Q, E, rng, nn)
    detail["order"] = marg
    evidence = {clone(nn[v]): clone(sn[v][i]) for v, i in E} or None
    if isinstance(parg, list):
        parg = order_container([clone(x) for x in parg], rng, tags)
    virt = [TabularCPD(clone(nn[v]), cards[v], [[float(Fraction(*vals[p]))] for p in perm],
                       state_names={nn[v]: [sn[v][p] for p in perm]})
            for (v, vals), perm in zip(vev, vperm)] or None
    # the model's rule (= the code's): a virtual evidence whose state list is not the model's own is rejected
    reordered = [perm for (v, _), perm in zip(vev, vperm)
                 if not drv.call("c01_vevok", [list(range(cards[v])), perm])]
    ve = engine or VariableElimination(m)
    if pe == 0:
        tags.append("excluded P(e)=0")
        res, pure = do_query(ve, [nn[q] for q in Q], evidence, virt, parg, joint, rng, reuse)
        if isinstance(res, Exception):
            tags.append("P(e)=0: pgmpy raises %s" % type(res).__name__)
        else:
            tags.append("P(e)=0: pgmpy returns (nan) without raising")
        return "excluded"
    res, pure = do_query(ve, [clone(nn[q]) for q in Q], evidence, virt, parg, joint, rng, reuse)
    if not pure:
        return bad("argument-mutated", detail)
    if isinstance(res, ValueError) and reordered:
        tags.append("vev reordered: rejected (ValueError)")
        return "rejected"
    if isinstance(res, Exception):
        raise res
    if reordered:
        tags.append("vev reordered: accepted (must be exact)")
    oflag = rng.random() < 0.5
    mr = drv.call("c01_query", wire + [Q, E, vev_model, marg, joint, oflag])
    cfree = bool(mr[0])
    if joint:
        impl = {0: res}
        spec = {0: sjoint}
    else:
        if set(idxn[repr(k)] for k in res) != set(Q):
            return bad("impl!=spec:result-keys", detail)
        impl = {idxn[repr(k)]: f for k, f in res.items()}
        spec = sper
    mod = {q: f for q, f in mr[1]}
    if set(mod) != set(impl):
        return bad("impl!=model:result-keys", detail)
    for q in sorted(impl):
        phi = impl[q]
        # result carries the model's own state names for its variables
        for x in phi.variables:
            v = idxn[repr(x)]
            if list(phi.state_names[x]) != list(allsn[v]):
                detail.update({"var": v, "impl_names": repr(phi.state_names[x]), "model_names": repr(allsn[v])})
                return bad("impl!=spec:state-names", detail)
        want = set(Q) if joint else {q}
        if set(idxn[repr(x)] for x in phi.variables) != want:
            detail.update({"scope": [idxn[repr(x)] for x in phi.variables]})
            return bad("impl!=spec:result-scope", detail)
        ti = table_of_impl(phi, nn, idxn)
        tm = table_of_model(mod[q], allcards, allsn)
        ts = spec[q]
        d_im = cmp_tables(ti, tm, rel)
        if case.get("_live"):
            # after remove_node pgmpy holds re-normalised float columns (thirds ...) that do not sum to 1 exactly, so
            # pruning a barren node changes the exact rational in the 17th digit: compare at 1e-12 there
            d_ms = None if (set(tm) == set(ts) and all(abs(tm[k_] - ts[k_]) <= Fraction(1, 10**12) * max(1, abs(ts[k_]))
                                                       for k_ in ts)) else "model != brute-force posterior (1e-12)"
        else:
            d_ms = None if tm == ts else "model != brute-force posterior"
        d_is = cmp_tables(ti, ts, rel)
        if case.get("offnorm") == "any":
            d_is, d_ms = (d_im and "impl != model (off-normalised non-root column: oracle = model)"), None
        if d_is:
            detail.update({"impl": sorted((sorted(k), v) for k, v in ti.items()),
                           "spec": sorted((sorted(k), str(v)) for k, v in ts.items()),
                           "impl_vs_model": d_im, "collision_free": cfree})
            # (a recurrence of the repaired equal-factors-merged defect, fix 2ce9c42, lands here, unlisted)
            return bad("impl!=spec:posterior", detail)
        if d_im:
            detail.update({"diff": d_im})
            return bad("impl!=model", detail)
        if d_ms:
            detail.update({"diff": d_ms, "collision_free": cfree})
            return bad("model!=spec", detail)
    if not cfree:
        # working factors are tagged by identity: two different tuples can never compare equal
        return bad("model:collision-despite-identity-tags", detail)
    scribble(res)
    return None


def run_queries(case, drv, m, nn, sn, Q, E, vev, configs, rng, tags):
    nt = False
    for eo, joint in configs:
        r = one_query(case, drv, m, nn, sn, Q, E, vev, eo, joint, rng, tags)
        if r == "excluded":
            return None, False
        if r == "rejected":
            nt = True
            continue
        if r is not None:
            return r, True
        nt = True
        tags.append("eo=%s" % eo)
        tags.append("joint=%s" % joint)
    return None, nt


_SPEC_CACHE = {}


def run_case(case, drv):
    _SPEC_CACHE.clear()
    kind = case["kind"]
    m, nn, sn = build(case)
    tags = ["kind=" + kind, "n=%d" % case["n"], "nodes=%s states=%s" % (case["nstyle"], case["sstyle"]),
            "maxcard=%d" % max(case["cards"])]
    n, cards = case["n"], case["cards"]
    if kind == "exh":
        rng = random.Random(case["qseed"])
        allcfg = [(eo, j) for eo in EOS for j in (True, False)]
        k = 0
        nt = False
        for assign in itertools.product((0, 1, 2), repeat=n):  # 0 rest, 1 query, 2 evidence
            Q = [v for v in range(n) if assign[v] == 1]
            if not Q:
                continue
            rng.shuffle(Q)
            E = [[v, rng.randrange(cards[v])] for v in range(n) if assign[v] == 2]
            cfgs = [allcfg[(k + 5 * i) % len(allcfg)] for i in range(3)]
            k += 1
            b, t = run_queries(case, drv, m, nn, sn, Q, E, [], cfgs, rng, tags)
            if b:
                return dict(b, key=common.canon_key(case), tags=tags)
            nt = nt or t
        return ok(nontrivial=nt and (len(case["edges"]) > 0 or n > 1), key=common.canon_key(
            ["exh", n, case["edges"], case["cards"], case["cpds"]]), tags=tags + ["exh n=%d" % n])
    if kind == "rand":
        rng = random.Random(case["oseed"])
        Q, E, vev = case["Q"], case["E"], case["vev"]
        tags += ["shape=" + case["shape"], "|Q|=%d" % len(Q), "|E|=%d" % len(E), "|vev|=%d" % len(vev)]
        cfgs = [(eo, j) for eo in EOS for j in (True, False)]
        if case.get("ncfg"):
            rng.shuffle(cfgs)
            cfgs = cfgs[:case["ncfg"]]
        if case.get("backend"):
            tags.append("backend=" + case["backend"])
        b, nt = run_queries(case, drv, m, nn, sn, Q, E, vev, cfgs, rng, tags)
        if b:
            return dict(b, key=common.canon_key(case), tags=tags)
        if nt:
            # engine reuse: the same query twice on one engine, with another query (with the virtual evidence,
            # which temporarily augments the engine's model) in between (purity is C16; only recorded)
            from pgmpy.inference import VariableElimination
            from pgmpy.factors.discrete import TabularCPD
            ve = VariableElimination(m)
            ev = {nn[v]: sn[v][i] for v, i in E} or None
            virt = [TabularCPD(nn[t[0]], cards[t[0]], [[float(Fraction(a, b))] for a, b in t[1]],
                               state_names={nn[t[0]]: list(sn[t[0]])}) for t in vev] or None
            r1 = ve.query([nn[q] for q in Q], evidence=ev, elimination_order="MinFill", show_progress=False)
            try:
                ve.query([nn[Q[0]]], virtual_evidence=virt, elimination_order="greedy", show_progress=False)
            except Exception:
                tags.append("ANOMALY engine-reuse: intermediate query raised")
            r2 = ve.query([nn[q] for q in Q], evidence=ev, elimination_order="MinFill", show_progress=False)
            idxn = {repr(x): i for i, x in enumerate(nn)}
            if cmp_tables(table_of_impl(r1, nn, idxn), {k: Fraction(v) for k, v in table_of_impl(r2, nn, idxn).items()}):
                tags.append("ANOMALY engine-reuse changes answer")
        key = common.canon_key(["rand", case["nodes"], case["edges"], cards, case["cpds"], Q, E, vev, case["nstyle"],
                                case["sstyle"]])
        return ok(nontrivial=nt and (len(case["edges"]) > 0 or len(E) > 0), key=key, tags=tags)
    if kind == "vevperm":
        rng = random.Random(case["oseed"])
        x = case["x"]
        tags += ["shape=" + case["shape"], "vev card=%d" % cards[x]]
        nt = 0
        for perm in all_perms(cards[x]):
            for eo, joint in [(rng.choice(EOS), True), (rng.choice(EOS), False)]:
                r = one_query(case, drv, m, nn, sn, case["Q"], case["E"], [[x, case["vals"], perm]], eo, joint, rng, tags)
                if r == "excluded":
                    return ok(nontrivial=False, tags=tags)
                if r == "rejected":
                    nt += 1
                    continue
                if r is not None:
                    r["detail"]["state_order"] = perm
                    return dict(r, kind="vevperm:" + r["kind"], key=common.canon_key(case), tags=tags)
                nt += 1
        # probe (recorded only; purity is C16): after a rejected virtual evidence, a valid one on the SAME engine
        from pgmpy.inference import VariableElimination
        from pgmpy.factors.discrete import TabularCPD
        ve = VariableElimination(m)
        vals = case["vals"]
        perm = all_perms(cards[x])[1]
        bad_cpd = TabularCPD(nn[x], cards[x], [[float(Fraction(*vals[p]))] for p in perm],
                             state_names={nn[x]: [sn[x][p] for p in perm]})
        good_cpd = TabularCPD(nn[x], cards[x], [[float(Fraction(*v))] for v in vals], state_names={nn[x]: list(sn[x])})
        try:
            ve.query([nn[case["Q"][0]]], virtual_evidence=[bad_cpd], show_progress=False)
        except ValueError:
            if set(repr(y) for y in ve.model.nodes()) != set(repr(y) for y in m.nodes()):
                tags.append("ANOMALY engine keeps augmented model after a rejected virtual evidence")
            try:
                ve.query([nn[case["Q"][0]]], virtual_evidence=[good_cpd], show_progress=False)
            except Exception as ex:
                tags.append("ANOMALY valid virtual evidence raises %s after a rejected one on the same engine"
                            % type(ex).__name__)
        return ok(nontrivial=nt > 0, key=common.canon_key(["vevperm", case["edges"], cards, case["cpds"], case["Q"],
                                                           case["E"], x, case["vals"]]), tags=tags)
    if kind == "session":
        from pgmpy.inference import VariableElimination
        rng = random.Random(case["oseed"])
        ve = VariableElimination(m)
        live = bool(case.get("edits"))
        lcase = dict(case, n=len(nn), _live=True, _sn=sn) if live else case
        reuse = {"vars": [], "ev": {}, "order": []}
        tags += ["shape=" + case["shape"], "steps=%d" % len(case["steps"])] + (["session with model edits"] if live else [])
        nt = 0
        for k, st in enumerate(case["steps"]):
            op = st.get("op")
            if op == "fresh_engine":
                ve = VariableElimination(m)
                continue
            if op == "reject":
                r = run_reject(lcase, drv, m, nn, sn, st, ve, rng, tags)
            elif op is not None:
                apply_edit(m, st, cards, nn, sn)
                tags.append("edit=%s" % op)
                continue
            else:
                r = one_query(lcase, drv, m, nn, sn, st["Q"], st["E"], st["vev"], st["eo"], st["joint"], rng, tags,
                              engine=ve, reuse=reuse)
                if r is None and live and st["E"]:
                    # the model-level front end on the current state
                    wire = model_bn(lcase, m, nn)
                    pe = common.frac(drv.call("c01_spec", wire + [st["Q"], st["E"], []])[0])
                    got = m.get_state_probability({nn[v]: sn[v][i] for v, i in st["E"]})
                    if not common.approx(got, pe):
                        r = bad("impl!=spec:get_state_probability", {"E": st["E"], "impl": float(got), "spec": str(pe)})
            if r == "excluded":
                continue
            if r == "rejected":
                nt += 1
                continue
            if r is not None:
                r["detail"]["step"] = k
                r["detail"]["earlier_steps"] = case["steps"][:k]
                return dict(r, kind="session:" + r["kind"], key=common.canon_key(case), tags=tags)
            nt += 1
        if set(repr(x) for x in ve.model.nodes()) != set(repr(x) for x in m.nodes()):
            return bad("session:engine-model-not-restored", {"engine_nodes": repr(list(ve.model.nodes()))})
        return ok(nontrivial=nt >= 2, key=common.canon_key(["session", case["nodes"], case["edges"], cards, case["cpds"],
                                                            case["steps"], case["nstyle"], case["sstyle"]]),
                  tags=tags + ["session answered=%d" % nt])
    if kind == "badstates":
        return run_badstates(case, drv, m, nn, sn, tags)
    if kind == "badorder":
        return run_badorder(case, drv, m, nn, sn, tags)
    if kind == "front":
        return run_front(case, drv, m, nn, sn, tags)
    raise ValueError(kind)


def run_badstates(case, drv, m, nn, sn, tags):
    """the same state set in another order in the child's CPD: accepted iff it is the parent's own list (the rule of
    Model.vev_accepted); otherwise VariableElimination(model) must raise ValueError, not answer positionally"""
    from pgmpy.inference import VariableElimination
    cards = case["cards"]
    c = case["child"]
    spec = case["cpds"][str(c)]
    p = spec["pa"][0]
    perm = case["perm"]
    cols = [[Fraction(a, b) for a, b in col] for col in spec["cols"]]
    sn2 = list(sn)
    sn2[p] = [sn[p][k] for k in perm]
    # the columns follow the listed order, so the CPD is the same function of the parent's state NAME
    m.add_cpds(make_cpd(c, cards, [p], [cols[k] for k in perm], nn, sn2))
    accept = bool(drv.call("c01_vevok", [list(range(cards[p])), perm]))
    try:
        ve = VariableElimination(m)
        impl = "accepted"
    except ValueError:
        impl = "ValueError"
    if accept != (impl == "accepted"):
        if impl == "accepted":
            # accepted although re-ordered: then the answer must be the one for the named table
            r = one_query(case, drv, m, nn, sn, [c], [[p, 0]], [], "MinFill", True, random.Random(0), tags, engine=ve)
            if r is None:
                return ok(nontrivial=True, tags=tags + ["badstates accepted and exact"])
            return dict(r, kind="badstates:" + r["kind"], tags=tags) if isinstance(r, dict) else ok(nontrivial=False, tags=tags)
        return bad("impl!=model:state-order-rejection", {"perm": perm, "impl": impl, "model_accepts": accept})
    return ok(nontrivial=not accept, key=common.canon_key(["badstates", case["edges"], cards, perm, case["cpds"]]),
              tags=tags + ["badstates=%s" % impl])


def run_badorder(case, drv, m, nn, sn, tags):
    """explicit orders that pgmpy must reject with ValueError <-> model error codes 1 / 2"""
    from pgmpy.inference import VariableElimination
    n = case["n"]
    Q, E = [0], [[1, 0]]
    rest = list(range(2, n))
    which = case["which"]
    if which == "hasq":
        order, code = rest + [0], 1
    elif which == "hase":
        order, code = [1] + rest, 1
    else:
        order, code = rest[:-1], 2
    wire = model_bn(case, m, nn)
    pe = common.frac(drv.call("c01_spec", wire + [Q, E, []])[0])
    if pe == 0:
        return ok(nontrivial=False, tags=tags + ["excluded P(e)=0"])
    st, r = drv.call_e("c01_query", wire + [Q, E, [], [3, order], True, False])
    try:
        VariableElimination(m).query([nn[0]], evidence={nn[1]: sn[1][0]}, elimination_order=[nn[v] for v in order],
                                     show_progress=False)
        impl = "ok"
    except ValueError:
        impl = "ValueError"
    # pruning may have removed the missing node, in which case both sides accept
    if (impl == "ValueError") != (st == "err"):
        return bad("impl!=model:order-rejection", {"order": order, "impl": impl, "model": [st, r if st == "err" else "ok"]})
    return ok(nontrivial=True, key=common.canon_key(["bad", case["edges"], which]), tags=tags + ["badorder=%s/%s" % (which, impl)])


def run_front(case, drv, m, nn, sn, tags):
    """BayesianNetwork.get_state_probability (= P(e)) and predict_probability (= per-variable posterior of every
    missing variable, one row per data row, in the row order and with the index of the data; the index is never data)"""
    import pandas as pd
    n, cards, E = case["n"], case["cards"], case["E"]
    wire = model_bn(case, m, nn)
    evars = [e[0] for e in E]
    rest = [v for v in range(n) if v not in evars]
    if not rest:
        return ok(nontrivial=False, tags=tags)
    pe, sjoint, sper = spec_tables(drv, wire, rest, E, [], cards, sn)
    got = m.get_state_probability({nn[v]: sn[v][i] for v, i in E})
    if not common.approx(got, pe):
        return bad("impl!=spec:get_state_probability", {"E": E, "impl": float(got), "spec": str(pe)})
    if not E:
        return ok(nontrivial=False, tags=tags + ["front: P(e) only"])
    rng = random.Random(case["nameseed"] + 7)
    # rows: the case's evidence first, then other states of the same variables (also repeated rows)
    rows = [[i for _, i in E]] + [[rng.randrange(cards[v]) for v in evars] for _ in range(rng.randint(0, 3))]
    specs = []
    for r in rows:
        p_r, _, per_r = spec_tables(drv, wire, rest, [[v, i] for v, i in zip(evars, r)], [], cards, sn)
        specs.append((p_r, per_r))
    keep = [k for k in range(len(rows)) if specs[k][0] != 0]
    if not keep:
        return ok(nontrivial=False, tags=tags + ["front: P(e) only"])
    rows = [rows[k] for k in keep]
    specs = [specs[k] for k in keep]
    nr = len(rows)
    ikind = rng.choice(["range", "shifted", "permuted", "gapped", "duplicate", "string"])
    index = {"range": list(range(nr)), "shifted": list(range(5, 5 + nr)), "permuted": rng.sample(range(nr), nr),
             "gapped": [10 * (k + 1) for k in range(nr)], "duplicate": [k // 2 for k in range(nr)],
             "string": ["row%d" % (nr - k) for k in range(nr)]}[ikind]
    dkind = rng.choice(["object", "native", "categorical", "categorical-unused"])
    cols = {}
    for c_, v in enumerate(evars):
        vals = [sn[v][r[c_]] for r in rows]
        if dkind == "object" or any(isinstance(x, tuple) for x in sn[v]):
            ser = pd.Series(vals, index=index, dtype=object)
        elif dkind == "native":
            ser = pd.Series(vals, index=index)
        else:
            cats = list(sn[v]) if dkind == "categorical-unused" else [x for x in sn[v] if x in vals]
            ser = pd.Series(pd.Categorical(vals, categories=cats), index=index)
        cols[nn[v]] = ser
    order = list(cols)
    rng.shuffle(order)
    df = pd.DataFrame({k: cols[k] for k in order})
    before = df.copy(deep=True)
    pp = m.predict_probability(df)
    tags.append("front: index=%s dtype=%s rows=%d" % (ikind, dkind, nr))
    if not df.equals(before) or list(df.index) != list(before.index) or list(df.columns) != list(before.columns):
        return bad("argument-mutated", {"what": "predict_probability data frame"})
    if list(pp.index) != list(index) or len(pp) != nr:
        return bad("impl!=spec:predict_probability-index", {"index": repr(index), "impl": repr(list(pp.index))})
    for k in range(nr):
        for v in rest:
            for i in range(cards[v]):
                col = str(nn[v]) + "_" + str(sn[v][i])
                want = specs[k][1][v][frozenset([(v, repr(sn[v][i]))])]
                if col not in pp.columns or not common.approx(pp[col].iloc[k], want):
                    return bad("impl!=spec:predict_probability", {"E": E, "row": k, "rows": rows, "col": col, "spec": str(want),
                                                                    "index": ikind, "dtype": dkind,
                                                                    "impl": repr(pp.to_dict())[:400]})
    return ok(nontrivial=True, key=common.canon_key(["front", case["edges"], cards, case["cpds"], E, rows]),
              tags=tags + ["front: predict_probability"])
