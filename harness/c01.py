"""C01 correspondence: pgmpy VariableElimination.query on discrete Bayesian networks vs the Coq model
(coq/C01/Model.v, proved equal to the brute-force posterior in coq/C01/Props.v) and vs the extracted
brute-force specification (coq/C01/Spec.v)."""
import itertools
import random
from fractions import Fraction

from harness import common
from harness.common import ok, bad

PROP = "C01"
LEVEL = "proof"
HASHSEEDS = {"quick": [0, 1, 2, 3], "thorough": list(range(16))}
BUDGET_S = {"quick": 150, "thorough": 1500}
EXHAUSTIVE = {"quick": False, "thorough": False}
RULE = ("exhaustive: every DAG on <=3 (quick) / <=4 (thorough) labelled nodes x every disjoint (query, evidence) "
        "pair of subsets with P(e)>0; random: BNs of 1..6 nodes (isolated nodes, chains, colliders, multi-parent "
        "families, disconnected parts, diamonds), cardinalities 1..4, node and state names int/str/tuple/mixed with "
        "permuted state lists, CPD columns dyadic with exact zeros and deterministic columns, hard evidence by state "
        "name and virtual-evidence lists; each query is run with elimination_order in {greedy, MinFill, MinNeighbors, "
        "MinWeight, WeightedMinFill, random explicit permutation, None} x joint in {True, False}, every case under a "
        "fixed PYTHONHASHSEED.  pgmpy's answer is compared by NAMED assignment with the extracted model (1e-9) and "
        "the model with the extracted brute-force posterior (exactly); sessions: 3-8 queries on ONE engine (roles "
        "re-split over the same node set, other evidence states, repeats, virtual evidence in between), every answer "
        "checked; virtual evidence is given with explicit state names in model order AND in every other order (all "
        "permutations for <=4 states, likelihood = same function of the state NAME): the outcome must be EITHER a "
        "rejection (ValueError; the model rejects exactly when the order differs, as the code does) OR, if accepted, "
        "exactly the posterior for the named likelihood; tiny-probability networks (entries down to 2^-40, several rare "
        "evidence variables, P(e) in 1e-6..1e-30, near-zero query marginals) compared at 1e-9 PURELY relative.  Non-trivial: >=1 edge or evidence, P(e)>0; "
        "distinct = distinct (network, query, evidence, virtual evidence)")
TRUSTED_BASE = ["numpy/opt_einsum contraction and DiscreteFactor array primitives are modelled by their documented "
                "pointwise meaning (Base/RefFactor)",
                "python set/dict iteration order is the explicit parameter `ord` of the model; results compared as "
                "named-assignment tables",
                "session stream: the engine keeps no cross-query state in the code (e568f1b restores the model), so the "
                "model answer of step k of a session is the single-query answer",
                "floats are fed as exact dyadic rationals; float rounding is not modelled (1e-9 relative tolerance)"]
ASSUMPTIONS = ["node and state names are interned to nat by the harness",
               "P(evidence) = 0 is an excluded input (pgmpy returns nan); such cases are generated but not counted",
               "virtual evidence is given with the model's own state order"]

EOS = ["greedy", "MinFill", "MinNeighbors", "MinWeight", "WeightedMinFill", "perm", None]
HEUR = {"WeightedMinFill": 0, "MinNeighbors": 1, "MinWeight": 2, "MinFill": 3}


# ------------------------------------------------------------------ generation
def fr(x):
    return [x.numerator, x.denominator]


def rand_col(rng, card, mode):
    if mode == "det":
        k = rng.randrange(card)
        return [Fraction(int(i == k)) for i in range(card)]
    if mode == "unif2":
        den = 2 ** rng.choice([1, 2])
        while True:
            cuts = sorted(rng.randint(0, den) for _ in range(card - 1))
            parts = [b - a for a, b in zip([0] + cuts, cuts + [den])]
            return [Fraction(x, den) for x in parts]
    return common.rand_column(rng, card, zeros=(mode == "zeros"))


def gen_cpds(rng, n, edges, cards, coarse=False):
    cpds = {}
    for v in range(n):
        pa = [u for (u, w) in edges if w == v]
        rng.shuffle(pa)
        ncol = 1
        for p in pa:
            ncol *= cards[p]
        style = rng.choice(["pos", "zeros", "zeros", "det", "mix", "coarse"]) if not coarse else "coarse"
        cols = []
        for _ in range(ncol):
            m = style
            if style == "mix":
                m = rng.choice(["pos", "zeros", "det"])
            if style == "coarse":
                m = "unif2"
            cols.append(rand_col(rng, cards[v], m))
        if style == "coarse" and ncol > 1 and rng.random() < 0.5:
            cols = [cols[0]] * ncol  # parent-independent table: equal reduced factors become likely
        cpds[str(v)] = {"pa": pa, "cols": [[fr(x) for x in c] for c in cols]}
    return cpds


def shape_dag(rng, n):
    kind = rng.choice(["rand", "rand", "chain", "collider", "family", "disc", "diamond", "isolated", "twins"])
    if kind == "chain":
        o = list(range(n))
        rng.shuffle(o)
        return kind, [(o[i], o[i + 1]) for i in range(n - 1)]
    if kind == "collider" and n >= 3:
        o = list(range(n))
        rng.shuffle(o)
        e = [(o[0], o[2]), (o[1], o[2])]
        for k in range(3, n):
            e.append((o[rng.choice([0, 1, 2, k - 1])], o[k]))
        return kind, e
    if kind == "family" and n >= 3:
        o = list(range(n))
        rng.shuffle(o)
        return kind, [(o[i], o[n - 1]) for i in range(min(n - 1, 3))] + (
            [(o[n - 1], o[n - 2])] if n >= 5 else [])
    if kind == "disc" and n >= 4:
        o = list(range(n))
        rng.shuffle(o)
        h = n // 2
        return kind, [(o[i], o[i + 1]) for i in range(h - 1)] + [(o[i], o[i + 1]) for i in range(h, n - 1)]
    if kind == "diamond" and n >= 4:
        o = list(range(n))
        rng.shuffle(o)
        e = [(o[0], o[1]), (o[0], o[2]), (o[1], o[3]), (o[2], o[3])]
        for k in range(4, n):
            e.append((o[rng.randrange(k)], o[k]))
        return kind, e
    if kind == "twins" and n >= 3:
        # two children sharing all their parents (and often their tables): D2-style collapse candidates
        o = list(range(n))
        rng.shuffle(o)
        pa = o[: max(1, min(2, n - 2))]
        return kind, [(p, o[-1]) for p in pa] + [(p, o[-2]) for p in pa]
    if kind == "isolated":
        return kind, []
    _, e = common.rand_dag(rng, n)
    return "rand", e


def collapse_case(rng, hashseed):
    """A -> X, A -> Y, E -> X, E -> Y with P(X|A,E) = P(Y|A,E); evidence given in the order X, Y, E"""
    extra = rng.choice([0, 0, 1])
    n = 4 + extra
    A, E, X, Y = 0, 1, 2, 3
    edges = [(A, X), (A, Y), (E, X), (E, Y)]
    if extra:
        edges.append(rng.choice([(4, A), (A, 4), (X, 4), (4, E)]))
    cards = [rng.choice([2, 3]), 2, 2, 2] + [2] * extra
    cpds = gen_cpds(rng, n, edges, cards)
    # X and Y: same function of (A, E), possibly with different parent orders; strictly positive columns
    ca, ce = cards[A], cards[E]
    tab = {(a, e): rand_col(rng, 2, "pos") for a in range(ca) for e in range(ce)}
    for v in (X, Y):
        pa = [A, E] if rng.random() < 0.5 else [E, A]
        cfgs = [(a, e) for a in range(ca) for e in range(ce)] if pa == [A, E] else [(a, e) for e in range(ce) for a in range(ca)]
        cpds[str(v)] = {"pa": pa, "cols": [[fr(x) for x in tab[c]] for c in cfgs]}
    for v in (A, E):
        cpds[str(v)] = {"pa": cpds[str(v)]["pa"], "cols": [[fr(x) for x in rand_col(rng, cards[v], "pos")]
                                                           for _ in cpds[str(v)]["cols"]]}
    st = rng.randrange(2)
    return {"kind": "rand", "shape": "collapse", "n": n, "nodes": list(range(n)), "edges": [list(e) for e in edges],
            "cards": cards, "cpds": cpds, "nstyle": "str", "sstyle": "int", "nameseed": rng.randint(0, 10**9),
            "Q": [A], "E": [[X, st], [Y, st], [E, rng.randrange(2)]], "vev": [], "oseed": rng.randint(0, 10**9),
            "hashseed": hashseed}


def session_case(rng, hashseed):
    n = rng.choice([3, 3, 4, 4, 5])
    shape, edges = shape_dag(rng, n)
    if rng.random() < 0.4:
        o = list(range(n))
        rng.shuffle(o)
        shape, edges = "chain", [(o[i], o[i + 1]) for i in range(n - 1)]
    cards = [rng.choice([2, 2, 3]) for _ in range(n)]
    nstyle = rng.choice(["str", "str", "int", "tuple"])
    steps = []
    for k in range(rng.randint(3, 8)):
        r = rng.random()
        if steps and r < 0.45:
            # same node set, roles re-split
            prev = steps[-1]
            pool = list(prev["Q"]) + [e[0] for e in prev["E"]]
            rng.shuffle(pool)
            nq = rng.randint(1, max(1, len(pool) - 1)) if len(pool) > 1 else 1
            q, e = pool[:nq], pool[nq:]
            ev = [[v, rng.randrange(cards[v])] for v in e]
            vev = []
        elif steps and r < 0.6:
            # same roles, other evidence states
            prev = steps[-1]
            q, ev, vev = list(prev["Q"]), [[v, rng.randrange(cards[v])] for v, _ in prev["E"]], []
        elif steps and r < 0.75:
            prev = rng.choice(steps)
            q, ev, vev = list(prev["Q"]), [list(x) for x in prev["E"]], [list(x) for x in prev["vev"]]
        else:
            q, ev, vev = pick_query(rng, n, cards, True)
        # sessions use virtual evidence in model order only: a REJECTED virtual evidence leaves the engine with the
        # augmented model (exception safety / purity = C16; probed and tagged in the vevperm stream)
        vev = [t[:2] for t in vev]
        steps.append({"Q": q, "E": ev, "vev": vev, "eo": rng.choice(EOS), "joint": rng.random() < 0.6})
    nodes = list(range(n))
    rng.shuffle(nodes)
    return {"kind": "session", "shape": shape, "n": n, "nodes": nodes, "edges": [list(e) for e in edges], "cards": cards,
            "cpds": gen_cpds(rng, n, edges, cards), "nstyle": nstyle, "sstyle": rng.choice(["int", "str", "tuple", "mixed"]),
            "nameseed": rng.randint(0, 10**9), "steps": steps, "oseed": rng.randint(0, 10**9), "hashseed": hashseed}


def state_names(rng, card, style):
    if style == "int":
        l = list(range(card))
    elif style == "str":
        l = ["s%d" % i for i in range(card)]
    elif style == "tuple":
        l = [["t", i] for i in range(card)]  # JSON: lists; turned into tuples by the worker
    else:
        pool = [0, "a", ["t", 1], 1, "b", ["u", 2]]
        l = pool[:card]
    if rng.random() < 0.6:
        rng.shuffle(l)
    return l


def all_perms(k):
    return [list(p) for p in itertools.permutations(range(k))]


def tiny_case(rng, hashseed):
    """rare independent alarms: CPD entries down to 2^-40, P(evidence) between 1e-6 and 1e-30"""
    k = rng.randint(2, 4)
    hc = rng.choice([2, 3])
    n = 1 + k + 1
    H, C = 0, n - 1
    alarms = list(range(1, 1 + k))
    edges = [(H, a) for a in alarms if rng.random() < 0.5]
    cpar = rng.sample(alarms, rng.randint(1, 2))
    edges += [(a, C) for a in cpar]
    cards = [hc] + [2] * k + [2]
    cpds = gen_cpds(rng, n, edges, cards)
    cpds[str(H)] = {"pa": [], "cols": [[fr(x) for x in rand_col(rng, hc, "pos")]]}
    budget = rng.randint(20, 100)
    ms = [max(6, min(40, budget // k + rng.randint(-4, 4))) for _ in alarms]
    for a, mexp in zip(alarms, ms):
        pa = cpds[str(a)]["pa"]
        cols = []
        for _ in range(hc if pa else 1):
            me = max(6, min(40, mexp + rng.randint(-3, 3)))
            cols.append([fr(1 - Fraction(1, 2 ** me)), fr(Fraction(1, 2 ** me))])
        cpds[str(a)] = {"pa": pa, "cols": cols}
    obs = rng.sample(alarms, rng.randint(2, k))
    ev = [[a, 1] for a in obs]
    rest = [v for v in range(n) if v not in obs]
    q = rng.sample(rest, rng.randint(1, min(2, len(rest))))
    if rng.random() < 0.4:
        # a near-zero, non-zero query marginal: an unobserved alarm, little or no evidence
        ev = ev[:rng.randint(0, 1)]
        free = [a for a in alarms if a not in [e[0] for e in ev]]
        q = [rng.choice(free)] + ([H] if rng.random() < 0.5 else [])
    nodes = list(range(n))
    rng.shuffle(nodes)
    return {"kind": "rand", "shape": "tiny", "rel": True, "n": n, "nodes": nodes, "edges": [list(e) for e in edges],
            "cards": cards, "cpds": cpds, "nstyle": rng.choice(["str", "int"]), "sstyle": rng.choice(["int", "str"]),
            "nameseed": rng.randint(0, 10**9), "Q": q, "E": ev, "vev": [], "oseed": rng.randint(0, 10**9),
            "hashseed": hashseed}


def vevperm_case(rng, hashseed):
    """one virtual evidence on a variable with 3 or 4 states, non-uniform distinct likelihoods; the worker runs it
    with the state list in EVERY order"""
    n = rng.choice([2, 3, 4])
    shape, edges = shape_dag(rng, n)
    cards = [rng.choice([2, 3]) for _ in range(n)]
    x = rng.randrange(n)
    cards[x] = rng.choice([3, 3, 4])
    vals = rng.sample([Fraction(i, 16) for i in range(1, 16)], cards[x])
    rest = [v for v in range(n) if v != x]
    q = [x] if (not rest or rng.random() < 0.4) else rng.sample(rest, rng.randint(1, min(2, len(rest))))
    e = [v for v in range(n) if v not in q and v != x and rng.random() < 0.3]
    return {"kind": "vevperm", "shape": shape, "n": n, "nodes": list(range(n)), "edges": [list(e_) for e_ in edges],
            "cards": cards, "cpds": gen_cpds(rng, n, edges, cards), "nstyle": rng.choice(["str", "int", "tuple"]),
            "sstyle": rng.choice(["int", "str", "tuple", "mixed"]), "nameseed": rng.randint(0, 10**9),
            "Q": q, "E": [[v, rng.randrange(cards[v])] for v in e], "x": x, "vals": [fr(v) for v in vals],
            "oseed": rng.randint(0, 10**9), "hashseed": hashseed}


def pick_query(rng, n, cards, allow_vev):
    nodes = list(range(n))
    q = rng.sample(nodes, rng.randint(1, min(3, n)))
    rest = [v for v in nodes if v not in q]
    e = rng.sample(rest, rng.randint(0, min(3, len(rest))))
    ev = [[v, rng.randrange(cards[v])] for v in e]
    vev = []
    if allow_vev and rng.random() < 0.5:
        for v in rng.sample(nodes, rng.randint(1, min(2, n))):
            vals = [Fraction(rng.choice([0, 1, 2, 3, 4, 4, 5, 8]), 8) for _ in range(cards[v])]
            t = [v, [fr(x) for x in vals]]
            if cards[v] >= 2 and rng.random() < 0.25:
                t.append(rng.choice(all_perms(cards[v])))  # state list in an order of its own
            vev.append(t)
    return q, ev, vev


def cases(tier, seed):
    rng = random.Random(seed)
    out = []
    hs = HASHSEEDS[tier]
    # exhaustive small DAGs, all (Q, E)
    nmax = 3 if tier == "quick" else 4
    k = 0
    for n in range(1, nmax + 1):
        for edges in common.all_dags(n):
            cards = [rng.choice([1, 2, 2, 3]) for _ in range(n)]
            out.append({"kind": "exh", "n": n, "nodes": list(range(n)), "edges": [list(e) for e in edges], "cards": cards,
                        "cpds": gen_cpds(rng, n, edges, cards), "nstyle": "str", "sstyle": rng.choice(["int", "str"]),
                        "nameseed": rng.randint(0, 10**9), "qseed": rng.randint(0, 10**9), "hashseed": hs[k % len(hs)]})
            k += 1
    # random structured networks
    nrand = 260 if tier == "quick" else 4000
    for i in range(nrand):
        n = rng.choice([1, 2, 3, 3, 4, 4, 5, 5, 6])
        shape, edges = shape_dag(rng, n)
        cards = [rng.choice([1, 2, 2, 2, 3, 3, 4]) for _ in range(n)]
        if n >= 6:
            cards = [min(c, 3) for c in cards]
        coarse = shape == "twins" or rng.random() < 0.15
        nodes = list(range(n))
        rng.shuffle(nodes)
        nstyle = rng.choice(["str", "str", "int", "tuple", "mixed"])
        q, ev, vev = pick_query(rng, n, cards, True)
        order_seed = rng.randint(0, 10**9)
        base = {"kind": "rand", "shape": shape, "n": n, "nodes": nodes, "edges": [list(e) for e in edges], "cards": cards,
                "cpds": gen_cpds(rng, n, edges, cards, coarse), "nstyle": nstyle,
                "sstyle": rng.choice(["int", "str", "tuple", "mixed"]), "nameseed": rng.randint(0, 10**9),
                "Q": q, "E": ev, "vev": vev, "oseed": order_seed}
        # the same query under 2 (quick) / 4 (thorough) different hash seeds
        for h in rng.sample(hs, 2 if tier == "quick" else 4):
            c = dict(base)
            c["hashseed"] = h
            out.append(c)
    # networks built so that two evidence-reduced factors coincide (same scope, table and origin)
    for i in range(10 if tier == "quick" else 80):
        out.append(collapse_case(rng, hs[i % len(hs)]))
    # sessions: ONE engine, several queries; consecutive queries often use the same node set with the
    # query / evidence roles re-split, the same evidence variables in other states, or repeat earlier queries
    for i in range(140 if tier == "quick" else 2000):
        out.append(session_case(rng, hs[i % len(hs)]))
    # tiny probabilities: P(evidence) in 1e-6 .. 1e-30, near-zero marginals (pure relative comparison)
    for i in range(60 if tier == "quick" else 800):
        out.append(tiny_case(rng, hs[i % len(hs)]))
    # virtual evidence with the state list in every order
    for i in range(24 if tier == "quick" else 300):
        out.append(vevperm_case(rng, hs[i % len(hs)]))
    # malformed elimination orders (rejection paths)
    for i in range(12 if tier == "quick" else 60):
        n = rng.choice([3, 4])
        _, edges = common.rand_dag(rng, n)
        cards = [2] * n
        out.append({"kind": "badorder", "n": n, "nodes": list(range(n)), "edges": [list(e) for e in edges], "cards": cards,
                    "cpds": gen_cpds(rng, n, edges, cards), "nstyle": "str", "sstyle": "int",
                    "nameseed": rng.randint(0, 10**9), "which": rng.choice(["hasq", "hase", "missing"]),
                    "hashseed": hs[i % len(hs)]})
    # the BayesianNetwork front ends that route through the same joint
    for i in range(30 if tier == "quick" else 300):
        n = rng.choice([2, 3, 4, 5])
        shape, edges = shape_dag(rng, n)
        cards = [rng.choice([1, 2, 2, 3]) for _ in range(n)]
        q, ev, _ = pick_query(rng, n, cards, False)
        out.append({"kind": "front", "n": n, "nodes": list(range(n)), "edges": [list(e) for e in edges], "cards": cards,
                    "cpds": gen_cpds(rng, n, edges, cards), "nstyle": "str", "sstyle": rng.choice(["int", "str"]),
                    "nameseed": rng.randint(0, 10**9), "E": ev, "hashseed": hs[i % len(hs)]})
    return out


def shrink(case):
    if case.get("kind") == "session":
        st = case["steps"]
        for i in range(len(st)):
            if len(st) > 1:
                c = dict(case)
                c["steps"] = st[:i] + st[i + 1:]
                yield c
        return
    if case.get("kind") != "rand":
        return
    n = case["n"]
    # drop a virtual evidence / an evidence / a query variable
    for key in ("vev", "E", "Q"):
        for i in range(len(case[key])):
            if key == "Q" and len(case["Q"]) == 1:
                continue
            c = dict(case)
            c[key] = case[key][:i] + case[key][i + 1:]
            yield c
    # drop a node that is not used by the query
    used = set(case["Q"]) | {e[0] for e in case["E"]} | {t[0] for t in case["vev"]}
    for v in range(n):
        if v in used:
            continue
        if any(u == v for (u, w) in case["edges"]):
            continue  # only leaves: the CPDs of the others stay valid
        if v != n - 1:
            continue  # keep labels dense
        c = dict(case)
        c["n"] = n - 1
        c["nodes"] = [x for x in case["nodes"] if x != v]
        c["edges"] = [e for e in case["edges"] if v not in e]
        c["cards"] = case["cards"][:-1]
        c["cpds"] = {k: x for k, x in case["cpds"].items() if int(k) != v}
        yield c


# ------------------------------------------------------------------ building both sides
def tup(x):
    return tuple(tup(y) for y in x) if isinstance(x, list) else x


def names_of(case):
    rng = random.Random(case["nameseed"])
    n = case["n"]
    nn = common.node_names(rng, n, case["nstyle"])
    sn = [[tup(s) for s in state_names(rng, case["cards"][v], case["sstyle"])] for v in range(n)]
    return nn, sn


def build(case):
    from pgmpy.models import BayesianNetwork
    from pgmpy.factors.discrete import TabularCPD
    nn, sn = names_of(case)
    n, cards = case["n"], case["cards"]
    m = BayesianNetwork()
    m.add_nodes_from([nn[v] for v in case["nodes"]])
    m.add_edges_from([(nn[u], nn[v]) for u, v in case["edges"]])
    for v in range(n):
        c = case["cpds"][str(v)]
        pa = c["pa"]
        cols = [[Fraction(a, b) for a, b in col] for col in c["cols"]]
        values = [[float(cols[j][i]) for j in range(len(cols))] for i in range(cards[v])]
        st = {nn[v]: list(sn[v])}
        for p in pa:
            st[nn[p]] = list(sn[p])
        if pa:
            cpd = TabularCPD(nn[v], cards[v], values, evidence=[nn[p] for p in pa],
                             evidence_card=[cards[p] for p in pa], state_names=st)
        else:
            cpd = TabularCPD(nn[v], cards[v], values, state_names=st)
        m.add_cpds(cpd)
    m.check_model()
    return m, nn, sn


def model_bn(case, m, nn, extra_cards=()):
    """wire form of the network: [cards nodes edges cpds]; node order as pgmpy stores it"""
    idx = {repr(x): i for i, x in enumerate(nn)}
    n, cards = case["n"], case["cards"]
    nodes = [idx[repr(x)] for x in m.nodes()]
    cl = [[v, cards[v]] for v in range(n)] + [list(x) for x in extra_cards]
    cp = []
    for v in range(n):
        c = case["cpds"][str(v)]
        cols = [[Fraction(a, b) for a, b in col] for col in c["cols"]]
        flat = [cols[j][i] for i in range(cards[v]) for j in range(len(cols))]
        cp.append([v, [[v] + list(c["pa"]), flat]])
    return [cl, nodes, [list(e) for e in case["edges"]], cp]


def idx_tuples(cs):
    return list(itertools.product(*[range(c) for c in cs]))


def table_of_model(fac, cards, sn):
    """model factor [vars, vals] -> {frozenset((var, state-name)) : Fraction}"""
    vs, vals = fac
    out = {}
    for k, idx in enumerate(idx_tuples([cards[v] for v in vs])):
        out[frozenset((v, repr(sn[v][i])) for v, i in zip(vs, idx))] = common.frac(vals[k])
    return out


def table_of_impl(phi, nn, idxn):
    import numpy as np
    vs = [idxn[repr(x)] for x in phi.variables]
    out = {}
    vals = np.asarray(phi.values, dtype=float)
    for idx in idx_tuples(list(vals.shape)):
        out[frozenset((v, repr(phi.state_names[x][i])) for v, x, i in zip(vs, phi.variables, idx))] = float(vals[idx])
    return out


def close(a, b, rel):
    """rel=False: |a-b| <= 1e-9*max(1,|b|);  rel=True (tiny-probability stream): |a-b| <= 1e-9*|b|"""
    if not rel:
        return common.approx(a, b)
    a, b = float(a), float(b)
    if a != a:
        return False
    return abs(a - b) <= 1e-9 * abs(b)


def cmp_tables(ti, tm, rel=False):
    if set(ti) != set(tm):
        return "keys differ"
    for k in tm:
        if not close(ti[k], tm[k], rel):
            return "value at %s: impl %r model %s" % (sorted(k), ti[k], tm[k])
    return None


def spec_tables(drv, wire, Q, E, vev, cards, sn):
    """(P(e), joint posterior table, per-variable tables) by brute force from coq/C01/Spec.v"""
    r = drv.call("c01_spec", wire + [Q, E, vev])
    pe = common.frac(r[0])
    if pe == 0:
        return pe, None, None
    joint = {}
    per = {q: {} for q in Q}
    for k, idx in enumerate(idx_tuples([cards[q] for q in Q])):
        p = common.frac(r[1][k]) / pe
        joint[frozenset((q, repr(sn[q][i])) for q, i in zip(Q, idx))] = p
        for q, i in zip(Q, idx):
            kk = frozenset([(q, repr(sn[q][i]))])
            per[q][kk] = per[q].get(kk, 0) + p
    return pe, joint, per


def eo_args(eo, case, Q, E, rng, nn):
    """(pgmpy argument, model argument) for one elimination_order option"""
    if eo == "greedy":
        return "greedy", [0]
    if eo is None:
        return None, [2]
    if eo == "perm":
        rest = [v for v in range(case["n"]) if v not in Q and v not in [e[0] for e in E]]
        rng.shuffle(rest)
        return [nn[v] for v in rest], [3, rest]
    return eo, [1, HEUR[eo]]


def one_query(case, drv, m, nn, sn, Q, E, vev, eo, joint, rng, tags, engine=None):
    """run one configuration on pgmpy, the model and the spec; returns None or a bad(...) outcome"""
    from pgmpy.inference import VariableElimination
    from pgmpy.factors.discrete import TabularCPD
    n, cards = case["n"], list(case["cards"])
    rel = bool(case.get("rel"))
    idxn = {repr(x): i for i, x in enumerate(nn)}
    # a virtual evidence may list the states in an order of its own: [v, vals, perm]; vals stay in MODEL order
    # (the likelihood is a function of the state NAME), the CPD handed to pgmpy is permuted consistently
    vperm = [(list(t[2]) if len(t) > 2 else list(range(cards[t[0]]))) for t in vev]
    vev = [[t[0], t[1]] for t in vev]
    # virtual nodes get ids n + v
    vcards = [[n + v, 2] for v, _ in vev]
    allcards = cards + [0] * n
    allsn = list(sn) + [[0, 1]] * n
    for v, _ in vev:
        allcards[n + v] = 2
        idxn[repr("__" + str(nn[v]))] = n + v  # pgmpy names the virtual child "__" + str(var)
    wire = model_bn(case, m, nn, vcards)
    vev_model = [[v, n + v, [Fraction(a, b) for a, b in vals]] for v, vals in vev]
    vev_spec = [[v, [Fraction(a, b) for a, b in vals]] for v, vals in vev]
    pe, sjoint, sper = spec_tables(drv, wire, Q, E, vev_spec, cards, sn)
    detail = {"Q": Q, "E": E, "vev": vev, "eo": str(eo), "joint": joint}
    parg, marg = eo_args(eo, case, Q, E, rng, nn)
    detail["order"] = marg
    evidence = {nn[v]: sn[v][i] for v, i in E} or None
    virt = [TabularCPD(nn[v], cards[v], [[float(Fraction(*vals[p]))] for p in perm],
                       state_names={nn[v]: [sn[v][p] for p in perm]})
            for (v, vals), perm in zip(vev, vperm)] or None
    # the model's rule (= the code's): a virtual evidence whose state list is not the model's own is rejected
    reordered = [perm for (v, _), perm in zip(vev, vperm)
                 if not drv.call("c01_vevok", [list(range(cards[v])), perm])]
    ve = engine or VariableElimination(m)
    if pe == 0:
        tags.append("excluded P(e)=0")
        try:
            ve.query([nn[q] for q in Q], evidence=evidence, virtual_evidence=virt, elimination_order=parg,
                     joint=joint, show_progress=False)
            tags.append("P(e)=0: pgmpy returns (nan) without raising")
        except Exception as ex:
            tags.append("P(e)=0: pgmpy raises %s" % type(ex).__name__)
        return "excluded"
    try:
        res = ve.query([nn[q] for q in Q], evidence=evidence, virtual_evidence=virt, elimination_order=parg,
                       joint=joint, show_progress=False)
        if reordered:
            tags.append("vev reordered: accepted (must be exact)")
    except ValueError:
        if not reordered:
            raise
        tags.append("vev reordered: rejected (ValueError)")
        return "rejected"
    oflag = rng.random() < 0.5
    mr = drv.call("c01_query", wire + [Q, E, vev_model, marg, joint, oflag])
    cfree = bool(mr[0])
    if joint:
        impl = {0: res}
        spec = {0: sjoint}
    else:
        if set(idxn[repr(k)] for k in res) != set(Q):
            return bad("impl!=spec:result-keys", detail)
        impl = {idxn[repr(k)]: f for k, f in res.items()}
        spec = sper
    mod = {q: f for q, f in mr[1]}
    if set(mod) != set(impl):
        return bad("impl!=model:result-keys", detail)
    for q in sorted(impl):
        phi = impl[q]
        # result carries the model's own state names for its variables
        for x in phi.variables:
            v = idxn[repr(x)]
            if list(phi.state_names[x]) != list(allsn[v]):
                detail.update({"var": v, "impl_names": repr(phi.state_names[x]), "model_names": repr(allsn[v])})
                return bad("impl!=spec:state-names", detail)
        want = set(Q) if joint else {q}
        if set(idxn[repr(x)] for x in phi.variables) != want:
            detail.update({"scope": [idxn[repr(x)] for x in phi.variables]})
            return bad("impl!=spec:result-scope", detail)
        ti = table_of_impl(phi, nn, idxn)
        tm = table_of_model(mod[q], allcards, allsn)
        ts = spec[q]
        d_im = cmp_tables(ti, tm, rel)
        d_ms = None if tm == ts else "model != brute-force posterior"
        d_is = cmp_tables(ti, ts, rel)
        if d_is:
            detail.update({"impl": sorted((sorted(k), v) for k, v in ti.items()),
                           "spec": sorted((sorted(k), str(v)) for k, v in ts.items()),
                           "impl_vs_model": d_im, "collision_free": cfree})
            # (a recurrence of the repaired equal-factors-merged defect, fix 2ce9c42, lands here, unlisted)
            return bad("impl!=spec:posterior", detail)
        if d_im:
            detail.update({"diff": d_im})
            return bad("impl!=model", detail)
        if d_ms:
            detail.update({"diff": d_ms, "collision_free": cfree})
            return bad("model!=spec", detail)
    if not cfree:
        # working factors are tagged by identity: two different tuples can never compare equal
        return bad("model:collision-despite-identity-tags", detail)
    return None


def run_queries(case, drv, m, nn, sn, Q, E, vev, configs, rng, tags):
    nt = False
    for eo, joint in configs:
        r = one_query(case, drv, m, nn, sn, Q, E, vev, eo, joint, rng, tags)
        if r == "excluded":
            return None, False
        if r == "rejected":
            nt = True
            continue
        if r is not None:
            return r, True
        nt = True
        tags.append("eo=%s" % eo)
        tags.append("joint=%s" % joint)
    return None, nt


def run_case(case, drv):
    kind = case["kind"]
    m, nn, sn = build(case)
    tags = ["kind=" + kind, "n=%d" % case["n"], "nodes=%s states=%s" % (case["nstyle"], case["sstyle"]),
            "maxcard=%d" % max(case["cards"])]
    n, cards = case["n"], case["cards"]
    if kind == "exh":
        rng = random.Random(case["qseed"])
        allcfg = [(eo, j) for eo in EOS for j in (True, False)]
        k = 0
        nt = False
        for assign in itertools.product((0, 1, 2), repeat=n):  # 0 rest, 1 query, 2 evidence
            Q = [v for v in range(n) if assign[v] == 1]
            if not Q:
                continue
            rng.shuffle(Q)
            E = [[v, rng.randrange(cards[v])] for v in range(n) if assign[v] == 2]
            cfgs = [allcfg[(k + 5 * i) % len(allcfg)] for i in range(3)]
            k += 1
            b, t = run_queries(case, drv, m, nn, sn, Q, E, [], cfgs, rng, tags)
            if b:
                return dict(b, key=common.canon_key(case), tags=tags)
            nt = nt or t
        return ok(nontrivial=nt and (len(case["edges"]) > 0 or n > 1), key=common.canon_key(
            ["exh", n, case["edges"], case["cards"], case["cpds"]]), tags=tags + ["exh n=%d" % n])
    if kind == "rand":
        rng = random.Random(case["oseed"])
        Q, E, vev = case["Q"], case["E"], case["vev"]
        tags += ["shape=" + case["shape"], "|Q|=%d" % len(Q), "|E|=%d" % len(E), "|vev|=%d" % len(vev)]
        cfgs = [(eo, j) for eo in EOS for j in (True, False)]
        b, nt = run_queries(case, drv, m, nn, sn, Q, E, vev, cfgs, rng, tags)
        if b:
            return dict(b, key=common.canon_key(case), tags=tags)
        if nt:
            # engine reuse: the same query twice on one engine, with another query (with the virtual evidence,
            # which temporarily augments the engine's model) in between (purity is C16; only recorded)
            from pgmpy.inference import VariableElimination
            from pgmpy.factors.discrete import TabularCPD
            ve = VariableElimination(m)
            ev = {nn[v]: sn[v][i] for v, i in E} or None
            virt = [TabularCPD(nn[t[0]], cards[t[0]], [[float(Fraction(a, b))] for a, b in t[1]],
                               state_names={nn[t[0]]: list(sn[t[0]])}) for t in vev] or None
            r1 = ve.query([nn[q] for q in Q], evidence=ev, elimination_order="MinFill", show_progress=False)
            try:
                ve.query([nn[Q[0]]], virtual_evidence=virt, elimination_order="greedy", show_progress=False)
            except Exception:
                tags.append("ANOMALY engine-reuse: intermediate query raised")
            r2 = ve.query([nn[q] for q in Q], evidence=ev, elimination_order="MinFill", show_progress=False)
            idxn = {repr(x): i for i, x in enumerate(nn)}
            if cmp_tables(table_of_impl(r1, nn, idxn), {k: Fraction(v) for k, v in table_of_impl(r2, nn, idxn).items()}):
                tags.append("ANOMALY engine-reuse changes answer")
        key = common.canon_key(["rand", case["nodes"], case["edges"], cards, case["cpds"], Q, E, vev, case["nstyle"],
                                case["sstyle"]])
        return ok(nontrivial=nt and (len(case["edges"]) > 0 or len(E) > 0), key=key, tags=tags)
    if kind == "vevperm":
        rng = random.Random(case["oseed"])
        x = case["x"]
        tags += ["shape=" + case["shape"], "vev card=%d" % cards[x]]
        nt = 0
        for perm in all_perms(cards[x]):
            for eo, joint in [(rng.choice(EOS), True), (rng.choice(EOS), False)]:
                r = one_query(case, drv, m, nn, sn, case["Q"], case["E"], [[x, case["vals"], perm]], eo, joint, rng, tags)
                if r == "excluded":
                    return ok(nontrivial=False, tags=tags)
                if r == "rejected":
                    nt += 1
                    continue
                if r is not None:
                    r["detail"]["state_order"] = perm
                    return dict(r, kind="vevperm:" + r["kind"], key=common.canon_key(case), tags=tags)
                nt += 1
        # probe (recorded only; purity is C16): after a rejected virtual evidence, a valid one on the SAME engine
        from pgmpy.inference import VariableElimination
        from pgmpy.factors.discrete import TabularCPD
        ve = VariableElimination(m)
        vals = case["vals"]
        perm = all_perms(cards[x])[1]
        bad_cpd = TabularCPD(nn[x], cards[x], [[float(Fraction(*vals[p]))] for p in perm],
                             state_names={nn[x]: [sn[x][p] for p in perm]})
        good_cpd = TabularCPD(nn[x], cards[x], [[float(Fraction(*v))] for v in vals], state_names={nn[x]: list(sn[x])})
        try:
            ve.query([nn[case["Q"][0]]], virtual_evidence=[bad_cpd], show_progress=False)
        except ValueError:
            if set(repr(y) for y in ve.model.nodes()) != set(repr(y) for y in m.nodes()):
                tags.append("ANOMALY engine keeps augmented model after a rejected virtual evidence")
            try:
                ve.query([nn[case["Q"][0]]], virtual_evidence=[good_cpd], show_progress=False)
            except Exception as ex:
                tags.append("ANOMALY valid virtual evidence raises %s after a rejected one on the same engine"
                            % type(ex).__name__)
        return ok(nontrivial=nt > 0, key=common.canon_key(["vevperm", case["edges"], cards, case["cpds"], case["Q"],
                                                           case["E"], x, case["vals"]]), tags=tags)
    if kind == "session":
        from pgmpy.inference import VariableElimination
        rng = random.Random(case["oseed"])
        ve = VariableElimination(m)
        tags += ["shape=" + case["shape"], "steps=%d" % len(case["steps"])]
        nt = 0
        for k, st in enumerate(case["steps"]):
            r = one_query(case, drv, m, nn, sn, st["Q"], st["E"], st["vev"], st["eo"], st["joint"], rng, tags, engine=ve)
            if r == "excluded":
                continue
            if r == "rejected":
                nt += 1
                continue
            if r is not None:
                r["detail"]["step"] = k
                r["detail"]["earlier_steps"] = case["steps"][:k]
                return dict(r, kind="session:" + r["kind"], key=common.canon_key(case), tags=tags)
            nt += 1
        if set(repr(x) for x in ve.model.nodes()) != set(repr(x) for x in m.nodes()):
            if any("rejected" in t for t in tags):
                # after a REJECTED virtual evidence the engine keeps the augmented copy (Inference.__init__ assigns
                # self.model before check_model raises); later answers were still checked above.  Purity is C16.
                tags.append("ANOMALY engine keeps augmented model after a rejected virtual evidence")
            else:
                return bad("session:engine-model-not-restored", {"engine_nodes": repr(list(ve.model.nodes()))})
        return ok(nontrivial=nt >= 2, key=common.canon_key(["session", case["nodes"], case["edges"], cards, case["cpds"],
                                                            case["steps"], case["nstyle"], case["sstyle"]]),
                  tags=tags + ["session answered=%d" % nt])
    if kind == "badorder":
        return run_badorder(case, drv, m, nn, sn, tags)
    if kind == "front":
        return run_front(case, drv, m, nn, sn, tags)
    raise ValueError(kind)


def run_badorder(case, drv, m, nn, sn, tags):
    """explicit orders that pgmpy must reject with ValueError <-> model error codes 1 / 2"""
    from pgmpy.inference import VariableElimination
    n = case["n"]
    Q, E = [0], [[1, 0]]
    rest = list(range(2, n))
    which = case["which"]
    if which == "hasq":
        order, code = rest + [0], 1
    elif which == "hase":
        order, code = [1] + rest, 1
    else:
        order, code = rest[:-1], 2
    wire = model_bn(case, m, nn)
    pe = common.frac(drv.call("c01_spec", wire + [Q, E, []])[0])
    if pe == 0:
        return ok(nontrivial=False, tags=tags + ["excluded P(e)=0"])
    st, r = drv.call_e("c01_query", wire + [Q, E, [], [3, order], True, False])
    try:
        VariableElimination(m).query([nn[0]], evidence={nn[1]: sn[1][0]}, elimination_order=[nn[v] for v in order],
                                     show_progress=False)
        impl = "ok"
    except ValueError:
        impl = "ValueError"
    # pruning may have removed the missing node, in which case both sides accept
    if (impl == "ValueError") != (st == "err"):
        return bad("impl!=model:order-rejection", {"order": order, "impl": impl, "model": [st, r if st == "err" else "ok"]})
    return ok(nontrivial=True, key=common.canon_key(["bad", case["edges"], which]), tags=tags + ["badorder=%s/%s" % (which, impl)])


def run_front(case, drv, m, nn, sn, tags):
    """BayesianNetwork.get_state_probability (= P(e)) and predict_probability (= per-variable posterior)"""
    import pandas as pd
    n, cards, E = case["n"], case["cards"], case["E"]
    wire = model_bn(case, m, nn)
    rest = [v for v in range(n) if v not in [e[0] for e in E]]
    if not rest:
        return ok(nontrivial=False, tags=tags)
    pe, sjoint, sper = spec_tables(drv, wire, rest, E, [], cards, sn)
    got = m.get_state_probability({nn[v]: sn[v][i] for v, i in E})
    if not common.approx(got, pe):
        return bad("impl!=spec:get_state_probability", {"E": E, "impl": float(got), "spec": str(pe)})
    if pe == 0 or not E:
        return ok(nontrivial=False, tags=tags + ["front: P(e) only"])
    cols = {nn[v]: pd.Series([sn[v][i]], dtype=object) for v, i in E}
    df = pd.DataFrame(cols)
    pp = m.predict_probability(df)
    for v in rest:
        for i in range(cards[v]):
            col = str(nn[v]) + "_" + str(sn[v][i])
            want = sper[v][frozenset([(v, repr(sn[v][i]))])]
            if col not in pp.columns or not common.approx(pp[col].iloc[0], want):
                return bad("impl!=spec:predict_probability", {"E": E, "col": col, "spec": str(want),
                                                                "impl": repr(pp.to_dict())[:400]})
    return ok(nontrivial=True, key=common.canon_key(["front", case["edges"], cards, case["cpds"], E]),
              tags=tags + ["front: predict_probability"])
