"""C16 correspondence / metamorphic harness: queries are pure, repeatable and representation-independent.

Three streams, all on pgmpy from /repo's working tree:
  purity : a CATALOGUE of calls, each wrapped by deep snapshots of every argument and receiver;
  history: one engine asked a random sequence of questions, then a final one; compared with a fresh
           engine, with the extracted Coq engine model (coq/C16/Model.v `ask`) and with the reference
           posterior;
  repr   : the same network/question under a random renaming of variables (str/int/tuple names),
           renamed + re-listed states, another insertion order of nodes/edges/CPDs/parents, under every
           PYTHONHASHSEED worker and under the numpy and torch backends; every configuration's answer
           must equal the exact reference posterior of the extracted model (coq/C16/Run.v c16_post).
"""
import io
import itertools
import random
from fractions import Fraction

from harness import common
from harness.common import ok, bad

PROP = "C16"
LEVEL = "proof"
HASHSEEDS = {"quick": [0, 1, 2, 3], "thorough": [0, 1, 2, 3, 4, 5, 6, 7]}
BUDGET_S = {"quick": 150, "thorough": 1200}
EXHAUSTIVE = {"quick": False, "thorough": False}
RULE = ("purity: every call of the catalogue (VE/BP/CausalInference queries incl. virtual evidence, samplers, "
        "simulate, fit/fit_update, K2/BDeu/BIC scores, HillClimb/Exhaustive/Tree search, PC, BIF/XMLBIF/UAI/NET "
        "writers, conversions, do/copy, factor out-of-place operations) on random networks of 2-6 nodes, "
        "cardinalities 2-3, random dyadic CPDs, str/int/tuple node names, str/int state names; snapshots of every "
        "argument and receiver before/after.  history: random sequences of 1-5 questions (VE or BP; query / "
        "map_query / map_query(all) / max_marginal; evidence; virtual evidence) then a final question, vs a fresh "
        "engine, vs the Coq engine model, vs the reference posterior.  repr: each (network, question) is asked under "
        "a random variable renaming, state renaming + re-listing, insertion order, EVERY hash seed of the tier and "
        "numpy/torch; all must equal the exact reference posterior.  history chains: half of the sequences are built "
        "from RELATED questions (same query set + hard evidence with other soft-evidence probabilities, same node set "
        "with query/evidence roles re-split, same evidence variables in other states, exact repeats, query<->map) and "
        "EVERY answer of a sequence is compared with a fresh engine and the extracted model.  datarepr: scores, "
        "HillClimbSearch (cache on/off), ExhaustiveSearch, TreeSearch, fit on sampled data with string column names vs "
        "mixed-type / other-string / int / tuple names (results compared up to the renaming; pandas' own label "
        "limitation for all-int and tuple labels is diagnosed and skipped).  statenames: hand-built models in which a "
        "child CPD labels its parent's axis with the same state names in the same order (accepted, = reference), in "
        "ANOTHER order (same set; must be rejected by check_model and by VE/BP construction) or with another set "
        "(rejected), each under three CPD insertion orders and both engines; outcomes must not depend on the "
        "insertion order or the engine.  Non-trivial: network has >=1 edge and the "
        "question has an eliminated or observed variable; distinct = distinct (stream, call, network, question, "
        "representation)")
RULE += (
    "  GENERALISATION CLASSES (notes/GENERALISATION_CHECKLIST.md): "
    "A sessions: history stream (VE/BP: related questions, calibrate/max_calibrate/induced_graph and rejected calls in "
    "between, every answer vs fresh engine and vs the extracted model), session stream (one BayesianModelSampling / "
    "CausalInference / estimator / score / ScoreCache object; fit again on other data; the caller edits the model with "
    "add_cpds between questions for VE, CausalInference, sampler - BeliefPropagation is a snapshot after its first "
    "query by design and is left out of the edit sessions; graph mutators belong to C15).  "
    "B argument purity: deep snapshots of every argument; evidence dicts, State lists, do dicts and virtual-evidence "
    "lists are the SAME objects across the calls of a session.  "
    "C result independence: resindep stream (values arrays, state-name lists, variables/cardinality of every returned "
    "object edited in place, then the call repeated; constructors from a reused ndarray buffer, other.values, "
    "other.get_values(), and a state_names dict the caller keeps using).  "
    "D frames: datarepr frame axis (shifted/permuted/gapped/duplicate/string index, row order, categorical, bool, "
    "column order) and purity data (unused categories, index variants); a constant column is a cardinality-1 variable.  "
    "E names: str/int/tuple/mixed, substring families (x1/x10/__x1), format keywords; writers keep string names "
    "(round trips are C09).  F states: str, same across variables, 0-based, 1-based, permuted ints, booleans, big ints; "
    "statenames stream for CPDs disagreeing on order/set.  G sizes: 1-node and edgeless networks, cardinality 1, "
    ">=9-variable factors and a 10-node network with int names, seed=0, empty evidence; "
    "0-vs-None numeric options of the searches are C11's.  H magnitudes: potentials scaled by 2^+-900 (2^+-40 for "
    "float32), probabilities 2^-20..2^-40 and 40-bit probabilities, exact zeros; tolerances are RELATIVE to the exact "
    "rational.  I backends: numpy, torch float64, torch float32 for factor operations, exact inference (repr), "
    "histories and result independence; samplers/estimators are numpy-only in the property.  J variants: "
    "greedy/MinFill/MinNeighbors/MinWeight/WeightedMinFill/explicit elimination orders, joint=False (VE and BP), "
    "map_query with and without variables, max_marginal, CausalInference with ve/bp and do/evidence, samplers "
    "(forward/rejection/likelihood weighted, Gibbs chain), use_cache on/off, K2/BDeu/BDs/BIC/AIC.  "
    "BeliefPropagationWithMessagePassing: bpmp stream (tree-shaped factor graphs from polytrees with factors over up to "
    "4 variables, equal and unequal cardinalities, every marginal with/without evidence and virtual evidence, under "
    "renamings, parent orders, axis orders and scales of every factor, insertion orders, state listing orders, hash "
    "seeds); the engine does not support loopy factor graphs, takes evidence and returns answers by state POSITION "
    "(no state names), and multiplies with np.matmul (numpy backend only) - none of these is generated.  "
    "K rejected calls: a variable both asked and observed, a LATER evidence item with an unknown state, virtual "
    "evidence of the wrong cardinality, an unknown variable - the extracted model decides (q_valid), pgmpy must "
    "raise and leave no trace.  L orders: node/edge/CPD/parent insertion orders, elimination orders, hash seeds, "
    "evidence-dict order, query-list order, row and column order.  M budget: handled by tools/check.py.  "
    "N equal-not-identical: every name and state handed to a query / evidence / virtual evidence is rebuilt at run "
    "time (new str objects, int(str(x)) incl. names above 256, rebuilt tuples).  O containers: `variables` is "
    "documented as a list - list and tuple are generated (sets, dict views, generators, ndarrays and pandas Index are "
    "outside that contract and fail in len()/indexing/truth tests on the unchanged tree); HillClimbSearch "
    "fixed_edges (`iterable`) as list/set/tuple/one-shot iterator.  P sizes: tree networks of 9-12 and 17 nodes, a "
    "260-state variable, 10-node network with a 9-variable CPD; >2^24 integer codes do not occur in this property's "
    "calls.  Q not exactly normalised tables: repr cases with column sums 1-1/128 (representation independence "
    "against the plain representation on the same engine; which number is right depends on pruning and is C01/C05's).  "
    "R combinations: virtual evidence x {joint=False, every elimination heuristic, explicit order, BP, map_query, "
    "evidence on a root, tuple container}, map_query(variables=None) x virtual evidence x induced_graph.  "
    "binop stream: sum/+/product/*/divide// /factor_product/factor_divide/FactorDict addition on partially "
    "overlapping scopes whose second operand brings 2-3 new variables of pairwise different cardinalities, under int "
    "(ascending, descending, >256), str, tuple and mixed names and every hash seed; every result is checked for "
    "cardinality[i] == values.shape[i] == len(state_names[variables[i]]) == get_cardinality and for assignment().")
TRUSTED_BASE = ["deep snapshots compare graph nodes/edges/latents, CPD scopes/cardinalities/values/state names, "
                "factor tables, data-frame values+dtypes+index+columns, dict/list arguments; the ORDER of the list "
                "model.cpds is recorded as an observation only (writers sort it in place; content is equal)",
                "CPython hashing, torch kernels and the process-global pgmpy config are exercised, not modelled"]
ASSUMPTIONS = ["node and state names are interned to nat identifiers by the harness",
               "estimators get int / categorical columns (pandas-3 str columns are rejected by preprocess_data)"]

TOL = 1e-9
TOL32 = 2e-5


# =================================================================== generation (pure python, JSON)
def _fr(q):
    return [q.numerator, q.denominator]


def gen_net(rng, n, maxcard=3, p=None, card1=0.0, tiny=0.1):
    nodes, edges = common.rand_dag(rng, n, p)
    cards = [(1 if rng.random() < card1 else rng.choice([2, 2, 3])) if maxcard >= 3 else 2 for _ in range(n)]
    parents = {i: [] for i in range(n)}
    for u, v in edges:
        parents[v].append(u)
    cpt = []
    for i in range(n):
        ps = parents[i]
        rng.shuffle(ps)
        ncol = 1
        for q in ps:
            ncol *= cards[q]
        cols = []
        for _ in range(ncol):
            col = common.rand_column(rng, cards[i], zeros=(rng.random() < 0.15))
            if cards[i] >= 2 and rng.random() < tiny:
                # a column with a tiny entry (floats stay exact): magnitudes far from 1
                e = Fraction(1, 2 ** rng.choice([20, 30, 40]))
                col = [e, 1 - e] + [Fraction(0)] * (cards[i] - 2)
                rng.shuffle(col)
            elif rng.random() < tiny:
                # probabilities that need more than 24 significant bits (not representable in float32)
                den = 2 ** 40
                cuts = sorted(rng.randint(1, den - 1) for _ in range(cards[i] - 1))
                col = [Fraction(y - x, den) for x, y in zip([0] + cuts, cuts + [den])]
            cols.append(col)
        # flat row-major over [child] + parents
        flat = [_fr(cols[c][s]) for s in range(cards[i]) for c in range(ncol)]
        cpt.append({"parents": ps, "flat": flat})
    return {"n": n, "cards": cards, "edges": [list(e) for e in edges], "cpt": cpt}


def wide_net(rng):
    """10 binary nodes: 0..7 roots, 8 has the eight roots as parents (a 9-variable CPD), 9 has parents 8 and 0"""
    n = 10
    parents = {i: [] for i in range(8)}
    parents[8] = list(range(8))
    rng.shuffle(parents[8])
    parents[9] = [8, 0]
    cpt = []
    for i in range(n):
        ncol = 2 ** len(parents[i])
        cols = [common.rand_column(rng, 2, zeros=False) for _ in range(ncol)]
        cpt.append({"parents": parents[i], "flat": [_fr(cols[c][s]) for s in range(2) for c in range(ncol)]})
    edges = [[q, i] for i in range(n) for q in parents[i]]
    rng.shuffle(edges)
    return {"n": n, "cards": [2] * n, "edges": edges, "cpt": cpt}


def mid_net(rng, n):
    """a tree-shaped network on n nodes (the parent of i is one of the three nodes before it): n-1 cliques"""
    parents = {i: ([rng.randint(max(0, i - 3), i - 1)] if i else []) for i in range(n)}
    cards = [rng.choice([2, 2, 2, 3]) for _ in range(n)]
    cpt = []
    for i in range(n):
        ncol = 1
        for q in parents[i]:
            ncol *= cards[q]
        cols = [common.rand_column(rng, cards[i], zeros=False) for _ in range(ncol)]
        cpt.append({"parents": parents[i], "flat": [_fr(cols[c][s]) for s in range(cards[i]) for c in range(ncol)]})
    edges = [[q, i] for i in range(n) for q in parents[i]]
    rng.shuffle(edges)
    return {"n": n, "cards": cards, "edges": edges, "cpt": cpt}


def bigcard_net(rng):
    """root with 260 states (more than a byte), binary child"""
    k = 260
    root = [Fraction(1, 512)] * 256 + [Fraction(1, 8)] * 4
    rng.shuffle(root)
    cols = [common.rand_column(rng, 2, zeros=False) for _ in range(k)]
    return {"n": 2, "cards": [k, 2], "edges": [[0, 1]],
            "cpt": [{"parents": [], "flat": [_fr(x) for x in root]},
                    {"parents": [0], "flat": [_fr(cols[c][s]) for s in range(2) for c in range(k)]}]}


def sloppy_net(rng, n):
    """every column sums to 1 - 1/128 (inside check_model's 0.01 tolerance, not exactly normalised)"""
    net = gen_connected_net(rng, n, p=0.7)
    for i in range(n):
        c = net["cpt"][i]
        ncol = len(c["flat"]) // net["cards"][i]
        for col in range(ncol):
            ent = [Fraction(*c["flat"][s * ncol + col]) for s in range(net["cards"][i])]
            j = max(range(len(ent)), key=lambda t: ent[t])
            ent[j] -= Fraction(1, 128)
            for s in range(net["cards"][i]):
                c["flat"][s * ncol + col] = _fr(ent[s])
    return net


def connected(net):
    n = net["n"]
    adj = {i: set() for i in range(n)}
    for u, v in net["edges"]:
        adj[u].add(v)
        adj[v].add(u)
    seen, st = {0}, [0]
    while st:
        for y in adj[st.pop()]:
            if y not in seen:
                seen.add(y)
                st.append(y)
    return len(seen) == n


def gen_connected_net(rng, n, maxcard=3, p=None):
    for _ in range(200):
        net = gen_net(rng, n, maxcard, p if p is not None else 0.7)
        if connected(net):
            return net
    return gen_net(rng, 2, maxcard, 1.0)


NONSTR_KEY = None   # repaired in /repo (6072f33, 577ec66)
CI_NONSTR_KEY = "causal-query-nonstring-names"
NONSTR_SIGNS = ["list.remove(x): x not in list", "can only concatenate str", "unsupported operand type(s) for +",
                "keywords must be strings"]


def nonstring_diag(exc, rep, rerun_plain):
    """a call that raises only because node names are not strings: the message is one of the three known
    sites (remove_cpds isinstance(str,int) test; "__" + var; k + "_" + state) AND the same call succeeds when
    the very same network is built with string names"""
    if rep["nstyle"] == "str" or not any(sg in repr(exc) for sg in NONSTR_SIGNS):
        return False
    try:
        rerun_plain()
        return True
    except Exception:
        return False


NAME_POOLS = {
    # one name a substring of another, "__" prefixes as used for virtual-evidence children
    "substr": ["x1", "x10", "x", "x11", "G", "G2", "__x1", "__G", "_x", "x1_"],
    # names that are keywords of the export formats / of python string formatting
    "kw": ["variable", "probability", "network", "node", "states", "table", "default", "property", "potential", "{}"],
}


def gen_rep(rng, net, names=None, states=None, shuffle=True):
    n = net["n"]
    style = names or rng.choice(["str", "str", "int", "tuple", "mixed", "substr", "kw", "bigname"])
    if n > 10 and style not in ("bigname",):
        # larger networks: generated names (with substring families x1 / x10 / x11 ...)
        style = rng.choice(["str", "int", "tuple"]) if style not in ("str", "int", "tuple") else style
        if style == "str":
            nm = ["x%d" % i for i in rng.sample(range(1, 3 * n), n)]
        elif style == "int":
            nm = rng.sample(range(0, n + 5), n)
        else:
            nm = [("v", i) for i in rng.sample(range(n + 5), n)]
    elif style == "bigname":
        nm = rng.sample(range(257, 5000), n)
    elif style in NAME_POOLS:
        nm = list(NAME_POOLS[style])
        rng.shuffle(nm)
        nm = nm[:n]
    else:
        nm = common.node_names(rng, n, style)
    nm = [list(x) if isinstance(x, tuple) else x for x in nm]
    sstyle = states or rng.choice(["str", "str", "int", "bigint", "default", "permint", "onebased", "bool", "same"])
    labels = []
    for i in range(n):
        k = net["cards"][i]
        if sstyle == "str":
            pool = ["lo", "mid", "hi", "x", "y", "z", "yes", "no"]
            rng.shuffle(pool)
            labels.append(pool[:k])
        elif sstyle == "same":          # the same state names for every variable
            labels.append(["lo", "hi", "mid"][:k])
        elif sstyle == "int":
            labels.append(list(range(k)))
        elif sstyle == "bigint":
            labels.append(rng.sample(range(10, 40), k))
        elif sstyle == "permint":       # integers that are not their positions
            lab = list(range(k))
            rng.shuffle(lab)
            labels.append(lab)
        elif sstyle == "onebased" or (sstyle == "bool" and k != 2):
            labels.append(list(range(1, k + 1)))
        elif sstyle == "bool":
            labels.append(rng.choice([[True, False], [False, True]]))
        else:
            labels.append(list(range(k)))
    so = []
    for i in range(n):
        o = list(range(net["cards"][i]))
        if shuffle and sstyle in ("str", "bigint", "permint", "onebased", "bool", "same"):
            rng.shuffle(o)
        so.append(o)
    node_order = list(range(n))
    edge_order = list(range(len(net["edges"])))
    cpd_order = list(range(n))
    par_order = []
    for i in range(n):
        po = list(range(len(net["cpt"][i]["parents"])))
        if shuffle:
            rng.shuffle(po)
        par_order.append(po)
    if shuffle:
        rng.shuffle(node_order)
        rng.shuffle(edge_order)
        rng.shuffle(cpd_order)
    return {"names": nm, "nstyle": style, "sstyle": sstyle, "labels": labels, "state_order": so,
            "node_order": node_order, "edge_order": edge_order, "cpd_order": cpd_order, "par_order": par_order}


def plain_rep(net):
    n = net["n"]
    return {"names": ["V%d" % i for i in range(n)], "nstyle": "str", "sstyle": "str",
            "labels": [["s%d" % k for k in range(net["cards"][i])] for i in range(n)],
            "state_order": [list(range(net["cards"][i])) for i in range(n)],
            "node_order": list(range(n)), "edge_order": list(range(len(net["edges"]))),
            "cpd_order": list(range(n)), "par_order": [list(range(len(net["cpt"][i]["parents"]))) for i in range(n)]}


def gen_question(rng, net, allow_ev=True):
    n = net["n"]
    k = rng.randint(1, min(2, n))
    Q = rng.sample(range(n), k)
    rest = [v for v in range(n) if v not in Q]
    ev = []
    if allow_ev and rest and rng.random() < 0.7:
        for v in rng.sample(rest, rng.randint(1, min(2, len(rest)))):
            ev.append([v, rng.randrange(net["cards"][v])])
        if prob_evidence(net, ev) == 0:   # the posterior is undefined (0/0): not a question
            ev = []
    return Q, ev


def gen_virt(rng, net, exclude):
    cand = [v for v in range(net["n"]) if v not in exclude]
    if not cand:
        return None
    out = []
    for v in rng.sample(cand, rng.randint(1, min(2, len(cand)))):
        out.append([v, [_fr(Fraction(rng.randint(1, 15), 16)) for _ in range(net["cards"][v])]])
    return out


DATA_CALLS = ["score_k2", "score_bdeu", "score_bic", "hc_k2_cache", "hc_k2_nocache", "hc_equiv", "exhaustive",
              "tree", "fit_mle", "fit_bayes"]
PURITY_CALLS = [
    "ve_query", "ve_query_virt", "ve_map", "ve_map_virt", "ve_maxmarg", "ve_query_order",
    "bp_calibrate", "bp_query", "bp_query_virt", "bp_map", "ci_query",
    "sample_forward", "sample_rejection", "sample_lw", "gibbs", "simulate", "simulate_virt", "simulate_do",
    "fit_mle", "fit_bayes", "fit_update", "score_k2", "score_bdeu", "score_bic",
    "hc", "hc_lists", "exhaustive", "tree", "pc_indep", "pc_data",
    "write_bif", "write_xmlbif", "write_uai", "write_net",
    "to_markov", "to_jt", "moralize", "indeps", "do", "copy", "factor_ops", "predict",
]


def cases(tier, seed):
    rng = random.Random(seed)
    seeds = HASHSEEDS[tier]
    out = []
    # fixed witness of coq/C16/Props.v C16_engine_history_refuted, replayed on pgmpy
    wit = {"n": 1, "cards": [2], "edges": [], "cpt": [{"parents": [], "flat": [[3, 8], [5, 8]]}]}
    out.append({"kind": "history", "net": wit, "rep": plain_rep(wit), "bp": False,
                "hist": [{"op": "query", "Q": [0], "ev": [], "virt": [[0, [[7, 8], [1, 2]]]]}],
                "final": {"op": "map_all", "Q": None, "ev": [], "virt": None}, "witness": True})
    # ---- purity
    reps = 2 if tier == "quick" else 8
    for call in PURITY_CALLS:
        for r in range(reps):
            small = call in ("exhaustive", "pc_data", "pc_indep", "hc", "hc_lists", "tree")
            n = rng.randint(2, 4 if small else 6)
            net = gen_net(rng, n, p=rng.choice([0.4, 0.6, 0.8]))
            if call.startswith("bp_") or call == "to_jt":
                net = gen_connected_net(rng, n, p=rng.choice([0.5, 0.8]))
            datacall = call.startswith(("fit", "score", "hc", "exh", "tree", "pc_data", "predict"))
            sampling = call.startswith(("sample", "gibbs", "simulate", "fit", "score", "hc", "exh", "tree", "pc", "predict"))
            rep = gen_rep(rng, net,
                          names=("str" if call in ("write_bif", "write_xmlbif", "write_uai", "write_net", "indeps",
                                                   "pc_indep", "predict", "gibbs")
                                 else ("str" if datacall else None)),
                          states=(rng.choice(["str", "default"]) if sampling or call.startswith("write") else None))
            out.append({"kind": "purity", "call": call, "net": net, "rep": rep, "qseed": rng.randint(0, 10**9)})
    # ---- history: half random sequences, half chains of deliberately RELATED questions
    nh = 80 if tier == "quick" else 500
    for k in range(nh):
        n = rng.randint(2, 5)
        bp = rng.random() < 0.45
        net = gen_connected_net(rng, n, p=rng.choice([0.5, 0.8])) if (bp or k % 2) else \
            gen_net(rng, n, p=rng.choice([0.4, 0.6, 0.8]))
        rep = gen_rep(rng, net)
        hist = []
        if k % 2 == 0:
            for _ in range(rng.randint(1, 5)):
                hist.append(gen_q(rng, net, final=False))
            final = gen_q(rng, net, final=True)
        else:
            first = gen_q(rng, net, final=False, want_ev=True)
            hist.append(first)
            # P(child | parent) prunes the parent's own ancestors away; the re-split P(parent | child) needs them
            grand = [(u, v) for u, v in net["edges"] if net["cpt"][u]["parents"]]
            if grand and rng.random() < 0.6:
                u, v = rng.choice(grand)
                e1 = [[u, rng.randrange(net["cards"][u])]]
                e2 = [[v, rng.randrange(net["cards"][v])]]
                if prob_evidence(net, e1) > 0 and prob_evidence(net, e2) > 0:
                    op = rng.choice(["query", "query", "map"])
                    hist = [{"op": op, "Q": [v], "ev": e1, "virt": None},
                            {"op": op, "Q": [u], "ev": e2, "virt": None}]
            for _ in range(rng.randint(1, 4)):
                hist.append(gen_related(rng, net, rng.choice(hist)) if rng.random() < 0.85
                            else gen_q(rng, net, final=False))
            final = gen_related(rng, net, rng.choice(hist))
        # engine-state operations and rejected calls sprinkled into the sequence (never as the final question)
        for _ in range(rng.choice([0, 1, 1, 2])):
            hist.insert(rng.randint(0, len(hist)), gen_side_op(rng, net, bp))
        if not bp and rng.random() < 0.5:
            # induced_graph / induced_width right after a question of each kind (map_query without variables and
            # with virtual evidence, a question with virtual evidence, a rejected call)
            virt = gen_virt(rng, net, set())
            pre = rng.choice([{"op": "map_all", "Q": None, "ev": [], "virt": virt},
                              {"op": "map_all", "Q": None, "ev": [], "virt": virt},
                              dict(gen_q(rng, net, final=False, want_ev=True), virt=None),
                              gen_side_op(rng, net, bp)])
            if pre["op"] in ("query", "map") and not pre.get("bad"):
                pre["virt"] = gen_virt(rng, net, set(pre["Q"]) | {v for v, _ in pre["ev"]})
            pos = rng.randint(0, len(hist))
            hist[pos:pos] = [pre, {"op": "induced", "Q": [], "ev": [], "virt": None, "oseed": rng.randint(0, 999)}]
        out.append({"kind": "history", "net": net, "rep": rep, "bp": bp, "hist": hist, "final": final,
                    "related": k % 2, "backend": "torch64" if rng.random() < 0.15 else "numpy"})
    # ---- data-based calls under renamings of the columns (string baseline vs renamed)
    nd = 2 if tier == "quick" else 12
    for call in DATA_CALLS:
        for r in range(nd):
            n = rng.randint(3, 4 if call.startswith("exh") else 5)
            net = gen_connected_net(rng, n, p=rng.choice([0.5, 0.8]))
            style = rng.choice(["mixed", "mixed", "mixed", "str2", "int", "tuple"]) if r else "mixed"
            c = {"kind": "datarepr", "call": call, "net": net, "style": style,
                 "dseed": rng.randint(0, 10**9), "nrows": rng.choice([150, 300, 600])}
            out.append(c)
            out.append(dict(c, style=rng.choice(["str2", "mixed"] if not call.startswith(("exh", "fit")) else ["str2"]),
                            frame=FRAMES[(r + len(call)) % len(FRAMES)], dseed=rng.randint(0, 10**9)))
            if call == "hc_equiv":   # ties of a score-equivalent score: also under every hash seed, mixed + str2
                for hs in seeds:
                    out.append(dict(c, style=rng.choice(["mixed", "str2"]), hashseed=hs))
    # ---- representation independence: one (net, question) x every hash seed x random representation x backend
    nr = 40 if tier == "quick" else 300
    for _ in range(nr):
        n = rng.randint(2, 6)
        engine = rng.choice(["ve", "ve", "ve_minfill", "ve_map", "bp", "bp_map", "ve_maxmarg", "ve_nojoint",
                             "ve_minneighbors", "ve_minweight", "ve_wminfill", "ve_explicit", "bp_nojoint",
                             "ci_ve", "ci_bp"])
        n = rng.randint(1, 6) if engine.startswith("ve") else n     # single-node and edgeless networks too
        net = gen_connected_net(rng, n, p=rng.choice([0.5, 0.8])) if engine[:2] in ("bp", "ci") and engine != "ci_ve" else \
            gen_net(rng, n, p=rng.choice([0.0, 0.3, 0.5, 0.8]), card1=0.08)
        Q, ev = gen_question(rng, net)
        # two optional features at once: virtual evidence with every engine variant (joint=False, heuristics,
        # BP, map), also next to evidence on a root
        virt = None
        if engine not in ("ve_maxmarg", "ci_ve", "ci_bp") and rng.random() < 0.3:
            virt = gen_virt(rng, net, set(Q) | {v for v, _ in ev})
        for hs in seeds:
            rep = gen_rep(rng, net)
            out.append({"kind": "repr", "net": net, "rep": rep, "Q": Q, "ev": ev, "engine": engine, "virt": virt,
                        "cont": rng.choice(["list", "tuple"]), "backend": "numpy", "hashseed": hs})
        rep = gen_rep(rng, net)
        out.append({"kind": "repr", "net": net, "rep": rep, "Q": Q, "ev": ev, "engine": engine, "virt": virt,
                    "backend": rng.choice(["torch64", "torch32"]), "hashseed": rng.choice(seeds)})
    # ---- mid-sized networks (9-12 and 17 = 1 mod 8 nodes: more than 8 cliques), a variable with > 256 states,
    #      and tables typed with two decimals (valid for check_model, not exactly normalised)
    for k in range(6 if tier == "quick" else 40):
        n = [9, 12, 17, 10, 11, 9][k % 6]
        net = mid_net(rng, n)
        Q, ev = gen_question(rng, net)
        out.append({"kind": "repr", "net": net, "rep": gen_rep(rng, net), "Q": Q, "ev": ev,
                    "engine": ["ve", "bp", "ve_minfill", "bp_map", "ve_map", "bp_nojoint"][k % 6], "backend": "numpy",
                    "virt": gen_virt(rng, net, set(Q) | {v for v, _ in ev}) if k % 2 else None,
                    "hashseed": seeds[k % len(seeds)]})
    for k in range(2 if tier == "quick" else 8):
        net = bigcard_net(rng)
        out.append({"kind": "repr", "net": net, "rep": gen_rep(rng, net, states=rng.choice(["default", "onebased"])),
                    "Q": [[1], [0]][k % 2], "ev": [[], [[1, 1]]][k % 2], "engine": ["ve", "bp"][(k // 2) % 2],
                    "backend": "numpy", "hashseed": seeds[k % len(seeds)]})
    for k in range(6 if tier == "quick" else 40):
        net = sloppy_net(rng, rng.randint(3, 5))
        Q, ev = gen_question(rng, net)
        out.append({"kind": "repr", "net": net, "rep": gen_rep(rng, net), "Q": Q, "ev": ev, "sloppy": True,
                    "engine": rng.choice(["ve", "ve_minfill", "bp", "ve_map", "ve_nojoint", "bp_map"]),
                    "backend": "numpy", "hashseed": seeds[k % len(seeds)]})
    # ---- CPDs that disagree on the labelling of a shared variable's axis, under several CPD insertion orders
    ns = 8 if tier == "quick" else 50
    for variant in ("same", "reordered", "different_set"):
        for _ in range(ns):
            net = gen_connected_net(rng, rng.randint(2, 4), p=rng.choice([0.5, 0.8]))
            rep = gen_rep(rng, net, names=rng.choice(["str", "int", "tuple"]), states="str")
            child = rng.choice([i for i in range(net["n"]) if net["cpt"][i]["parents"]])
            parent = rng.choice(net["cpt"][child]["parents"])
            orders = [list(range(net["n"])), list(reversed(range(net["n"])))]
            o3 = list(range(net["n"]))
            rng.shuffle(o3)
            orders.append(o3)
            out.append({"kind": "statenames", "variant": variant, "net": net, "rep": rep, "child": child,
                        "parent": parent, "orders": orders, "pseed": rng.randint(0, 10**9)})
    # ---- sessions on one sampler / CausalInference / estimator / score object, and engines whose model is edited
    for sub in SESSION_SUBS:
        for _ in range(3 if tier == "quick" else 25):
            out.append(gen_session(rng, sub))
    # ---- result independence: edit the returned object in place, call again
    for call in RESINDEP_CALLS:
        for r in range(2 if tier == "quick" else 10):
            n = rng.randint(2, 4)
            net = gen_connected_net(rng, n, p=0.8) if call in ("bp_query", "ci_query") else gen_net(rng, n, p=0.7)
            out.append({"kind": "resindep", "call": call, "net": net,
                        "rep": gen_rep(rng, net, states=rng.choice(["str", "default", "permint"])),
                        "qseed": rng.randint(0, 10**9),
                        "backend": "torch64" if (r % 2 and call not in ("sample", "simulate", "ci_query")) else "numpy"})
    # ---- binary factor operations on partially overlapping scopes (2-3 new variables of unequal cardinalities),
    #      every hash seed
    for k in range(24 if tier == "quick" else 240):
        c = gen_binop(rng)
        c["hashseed"] = seeds[k % len(seeds)]
        out.append(c)
    # ---- BeliefPropagationWithMessagePassing on tree-shaped factor graphs (factors over up to 4 variables)
    for k in range(12 if tier == "quick" else 120):
        mode = ["equal", "unequal"][k % 2]
        net = gen_polytree(rng, rng.randint(4, 7), mode)
        out.append({"kind": "bpmp", "net": net, "cards_mode": mode, "nreps": 3, "pseed": rng.randint(0, 10**9),
                    "hashseed": seeds[k % len(seeds)]})
    # ---- factor operations across backends / axis orders
    nf = 30 if tier == "quick" else 300
    for k in range(nf):
        net = gen_net(rng, rng.randint(2, 5), p=0.8, card1=0.1)
        backend = rng.choice(["numpy", "torch64", "torch32"])
        c = {"kind": "factor", "net": net, "rep": gen_rep(rng, net), "fseed": rng.randint(0, 10**9), "backend": backend}
        if k in (0, 3):
            backend = c["backend"] = "torch64"
        if k % 3 == 0:
            big = 40 if backend == "torch32" else 900       # float32 holds 2^-126 .. 2^127 (entries go down to 2^-40)
            ea = rng.choice([-1, 1]) * rng.randint(big // 3, big)
            c["scale"] = [ea, -ea + rng.randint(-10, 10) * (1 if backend == "torch32" else 4)]
        out.append(c)
    # >= 9 variables in one factor / one answer, integer names (iteration order of a set of small ints is only
    # increasing below 8)
    for k in range(4 if tier == "quick" else 24):
        net = wide_net(rng)
        rep = gen_rep(rng, net, names="int", states=rng.choice(["default", "str", "permint"]))
        out.append({"kind": "factor", "net": net, "rep": rep, "fseed": rng.randint(0, 10**9), "pick": [8, 9],
                    "backend": ["numpy", "torch64"][k % 2]})
        out.append({"kind": "repr", "net": net, "rep": rep, "Q": rng.sample([0, 1, 2, 3, 4, 7, 8, 9], 2),
                    "ev": [[rng.choice([5, 6]), 1]][: k % 2],
                    "engine": rng.choice(["ve", "ve_minfill", "bp", "ve_map", "ve_nojoint"]), "backend": "numpy",
                    "hashseed": rng.choice(seeds)})
    return out


def gen_q(rng, net, final, want_ev=False):
    r = rng.random()
    size = 1
    for c in net["cards"]:
        size *= c
    # map_query(variables=None): the model's answer is the full joint table, keep it small
    if not want_ev and (r < (0.12 if size <= 36 else 0.0) or (size <= 12 and r < 0.3)):
        ev = []
        if rng.random() < 0.5:
            _, ev = gen_question(rng, net)
        virt = gen_virt(rng, net, {v for v, _ in ev}) if rng.random() < 0.3 else None
        if len(ev) >= net["n"]:
            ev = ev[:-1]
        return {"op": "map_all", "Q": None, "ev": ev, "virt": virt}
    Q, ev = gen_question(rng, net)
    for _ in range(8):
        if not want_ev or ev or len(Q) == net["n"]:
            break
        Q, ev = gen_question(rng, net)
    op = rng.choice(["query", "query", "map", "maxmarg"] if not (final or want_ev) else ["query", "query", "map"])
    virt = None
    if op != "maxmarg" and rng.random() < (0.2 if final else 0.4):
        virt = gen_virt(rng, net, set(Q) | {v for v, _ in ev})
    return {"op": op, "Q": Q, "ev": ev, "virt": virt, "evshuffle": rng.randint(1, 999) if len(ev) > 1 else 0,
            "cont": rng.choice(["list", "tuple"])}


def gen_side_op(rng, net, bp):
    """between two questions: calls that rebuild/cache engine structures, and calls that must be rejected"""
    r = rng.random()
    n = net["n"]
    if r < 0.35:
        return {"op": ("calibrate" if rng.random() < 0.5 else "max_calibrate") if bp else "induced",
                "Q": [], "ev": [], "virt": None, "oseed": rng.randint(0, 999)}
    Q, ev = gen_question(rng, net)
    kind = rng.choice(["common", "ev_state", "virt_card", "unknown_var"])
    q = {"op": rng.choice(["query", "map"]), "Q": Q, "ev": ev, "virt": None, "bad": kind}
    if kind == "common":          # a variable both asked and observed
        q["ev"] = ev + [[Q[0], 0]]
    elif kind == "ev_state":      # a LATER evidence item names a state that does not exist
        if n >= 3 and rng.random() < 0.7:
            # ask about early nodes only, so that the engine has PRUNED most of the network when it fails
            order = topo(net)
            Q, ev = [order[0]], []
            q["Q"], q["ev"] = Q, ev
        v = rng.choice([x for x in (topo(net)[:2] if not ev and n >= 3 else range(n))
                        if x not in Q and x not in [a for a, _ in ev]] or [None])
        if v is None:
            q["ev"] = [[Q[0], 0]]
            q["bad"] = "common"
        else:
            q["ev"] = ev + [[v, net["cards"][v]]]
    elif kind == "virt_card":     # virtual evidence of the wrong cardinality
        v = rng.randrange(n)
        q["virt"] = [[v, [_fr(Fraction(1, 2))] * (net["cards"][v] + 1)]]
    else:                         # a variable that is not in the model
        q["Q"] = Q + [n + 50]
    return q


def gen_related(rng, net, prev):
    """a question deliberately related to an earlier one of the same engine"""
    if prev["Q"] is None or prev["op"] not in ("query", "map") or prev.get("bad"):
        return gen_q(rng, net, final=True)
    Q, ev, virt = list(prev["Q"]), [list(x) for x in prev["ev"]], prev["virt"]
    op = prev["op"] if rng.random() < 0.7 else rng.choice(["query", "map"])
    mode = rng.choice(["repeat", "virt_probs", "virt_probs", "resplit", "resplit", "resplit", "ev_states", "ev_states"])
    if mode == "virt_probs":
        # same query set and hard evidence, the same soft-evidence VARIABLES, other probabilities
        if virt:
            virt = [[v, [_fr(Fraction(rng.randint(1, 15), 16)) for _ in e]] for v, e in virt]
        else:
            virt = gen_virt(rng, net, set(Q) | {v for v, _ in ev})
    elif mode == "resplit":
        # the same node set with the query / evidence roles split differently
        nodes = Q + [v for v, _ in ev]
        rng.shuffle(nodes)
        k = rng.randint(1, min(2, len(nodes)))
        Q2, ev2 = nodes[:k], [[v, rng.randrange(net["cards"][v])] for v in nodes[k:]]
        if sorted(Q2) != sorted(Q) and prob_evidence(net, ev2) > 0:
            Q, ev = Q2, ev2
            virt = virt if virt and rng.random() < 0.5 else None
    elif mode == "ev_states":
        ev2 = [[v, rng.randrange(net["cards"][v])] for v, _ in ev]
        if prob_evidence(net, ev2) > 0:
            ev = ev2
    return {"op": op, "Q": Q, "ev": ev, "virt": virt}


def shrink(case):
    if case["kind"] == "history":
        for i in range(len(case["hist"])):
            c = dict(case)
            c["hist"] = case["hist"][:i] + case["hist"][i + 1:]
            yield c


# =================================================================== building pgmpy objects
def _nm(x):
    return tuple(_nm(y) for y in x) if isinstance(x, list) else x


class Built(object):
    pass


def canon_cpt(net, i):
    """dict: (child state, parent states in net parent order) -> Fraction"""
    ps = net["cpt"][i]["parents"]
    shape = [net["cards"][i]] + [net["cards"][q] for q in ps]
    flat = net["cpt"][i]["flat"]
    out = {}
    for k, idx in enumerate(itertools.product(*[range(c) for c in shape])):
        out[idx] = Fraction(flat[k][0], flat[k][1])
    return out


def build(net, rep, with_state_names=True, sn_override=None, cpd_order=None, check=True):
    from pgmpy.models import BayesianNetwork
    from pgmpy.factors.discrete import TabularCPD

    b = Built()
    n = net["n"]
    b.names = [_nm(x) for x in rep["names"]]
    b.idx = {b.names[i]: i for i in range(n)}
    b.labels = [[_nm(x) for x in rep["labels"][i]] for i in range(n)]
    b.order = rep["state_order"]
    # pgmpy position p of variable i holds canonical state order[i][p]
    b.snames = [[b.labels[i][c] for c in b.order[i]] for i in range(n)]
    b.lab2canon = [{b.labels[i][c]: c for c in range(net["cards"][i])} for i in range(n)]
    m = BayesianNetwork()
    for i in rep["node_order"]:
        m.add_node(b.names[i])
    for e in rep["edge_order"]:
        u, v = net["edges"][e]
        m.add_edge(b.names[u], b.names[v])
    cpds = {}
    for i in range(n):
        ps0 = net["cpt"][i]["parents"]
        ps = [ps0[k] for k in rep["par_order"][i]]
        ct = canon_cpt(net, i)
        vals = []
        for p in range(net["cards"][i]):
            row = []
            for cfg in itertools.product(*[range(net["cards"][q]) for q in ps]):
                canon_cfg = {q: b.order[q][cfg[k]] for k, q in enumerate(ps)}
                key = (b.order[i][p],) + tuple(canon_cfg[q] for q in ps0)
                row.append(float(ct[key]))
            vals.append(row)
        sn = {b.names[q]: b.snames[q] for q in [i] + ps}
        if sn_override is not None and sn_override[0] == i:
            # the child CPD labels the axis of its parent sn_override[1] differently; the TABLE is not transported
            sn[b.names[sn_override[1]]] = list(sn_override[2])
        cpds[i] = TabularCPD(b.names[i], net["cards"][i], vals, evidence=[b.names[q] for q in ps] or None,
                             evidence_card=[net["cards"][q] for q in ps] or None, state_names=sn)
    for i in (cpd_order if cpd_order is not None else rep["cpd_order"]):
        m.add_cpds(cpds[i])
    if check:
        m.check_model()
    b.model = m
    return b


def fresh_obj(x):
    """an object EQUAL to x but not the object stored in the model (names / states rebuilt at run time)"""
    if isinstance(x, bool) or x is None:
        return x
    if isinstance(x, str):
        return (x + "#")[:-1]
    if isinstance(x, int):
        return int(str(x))              # a new object for ints above 256
    if isinstance(x, float):
        return float(repr(x))
    if isinstance(x, tuple):
        return tuple(fresh_obj(y) for y in x)
    return x


def as_container(names, how):
    """the documented `list` of variables, or another container that pgmpy accepts for it"""
    if names is None or how in (None, "list"):
        return names
    if how == "tuple":
        return tuple(names)
    if how == "set":
        return set(names)
    if how == "keys":
        return {k: None for k in names}.keys()
    return names


def ev_dict(b, ev):
    return {fresh_obj(b.names[v]): fresh_obj(b.labels[v][s]) for v, s in ev}


def virt_cpds(b, net, virt):
    from pgmpy.factors.discrete import TabularCPD

    out = []
    for v, e in virt:
        vals = [0.0] * net["cards"][v]
        for c in range(net["cards"][v]):
            vals[b.order[v].index(c)] = float(Fraction(e[c][0], e[c][1]))
        out.append(TabularCPD(fresh_obj(b.names[v]), net["cards"][v], [[x] for x in vals],
                              state_names={fresh_obj(b.names[v]): [fresh_obj(x) for x in b.snames[v]]}))
    return out


def model_factors(net):
    return [[[i] + net["cpt"][i]["parents"], [Fraction(a, c) for a, c in net["cpt"][i]["flat"]]] for i in range(net["n"])]


def ref_posterior(drv, net, Q, ev, order_rng=None):
    rest = [v for v in range(net["n"]) if v not in Q and v not in [x for x, _ in ev]]
    if order_rng is not None:
        order_rng.shuffle(rest)
    tab = drv.call("c16_post", [net["cards"], model_factors(net), [list(x) for x in ev], rest, Q])
    vals = [common.frac(x) for x in tab]
    out = {}
    for k, idx in enumerate(itertools.product(*[range(net["cards"][q]) for q in Q])):
        out[idx] = vals[k]
    return out


def np_values(x):
    import numpy as np

    if hasattr(x, "detach"):
        x = x.detach().cpu().numpy()
    return np.asarray(x, dtype=float)


def canon_factor(b, phi, Q, extra=None):
    """pgmpy factor over the named variables -> {canonical state tuple in the order of Q: float}"""
    vals = np_values(phi.values)
    pos = {}
    for ax, var in enumerate(phi.variables):
        pos[var] = ax
    out = {}
    names = [b.names[q] if not isinstance(q, str) or q not in pos else q for q in Q]
    for idx in itertools.product(*[range(s) for s in vals.shape]):
        key = []
        for q in Q:
            var = b.names[q]
            lab = phi.state_names[var][idx[pos[var]]]
            key.append(b.lab2canon[q][lab])
        out[tuple(key)] = float(vals[idx])
    return out


TORCH32_KEY = "torch-backend-float32-construction"
F32_SIZE = 2e-6     # 32 ulp of float32, relative


def F32(x):
    """the float32 rounding of an exact value, as an exact Fraction; None when it overflows to inf"""
    import numpy as np

    r = float(np.float32(float(x)))
    if r != r or r in (float("inf"), float("-inf")):
        return None
    return Fraction(r)


def net_f32(net):
    """the network whose CPD entries went through float32 (what the torch constructors store, open finding
    torch-backend-float32-construction); None if nothing changes"""
    import copy

    n2 = copy.deepcopy(net)
    changed = False
    for c in n2["cpt"]:
        for k, (a, d) in enumerate(c["flat"]):
            r = F32(Fraction(a, d))
            if r != Fraction(a, d):
                changed = True
            c["flat"][k] = _fr(r)
    return n2 if changed else None


def rel_close(a, b, tol):
    """a: implementation float, b: exact value.  RELATIVE to the exact value (an exact zero must be ~0)."""
    a, b = float(a), float(b)
    if a != a or b != b:
        return False
    if b == 0:
        return abs(a) <= 1e-300 or abs(a) <= tol * 1e-6
    return abs(a - b) <= tol * abs(b)


def cmp_tables(got, want, tol):
    if set(got) != set(want):
        return "keys differ: %r vs %r" % (sorted(got), sorted(want))
    for k in want:
        if not rel_close(got[k], want[k], tol):
            return "at %r: got %r want %r" % (k, got[k], float(want[k]))
    return None


# =================================================================== snapshots
def snap(o, depth=0):
    import numpy as np
    import pandas as pd
    import networkx as nx

    if depth > 6:
        return "<deep>"
    if o is None or isinstance(o, (bool, int, float, str)):
        return ("v", repr(o))
    if hasattr(o, "detach") and hasattr(o, "cpu"):
        a = o.detach().cpu().numpy()
        return ("tensor", str(a.dtype), a.shape, a.tolist())
    if isinstance(o, np.ndarray):
        return ("nd", str(o.dtype), o.shape, o.tolist())
    if isinstance(o, pd.DataFrame):
        return ("df", [repr(c) for c in o.columns], [str(t) for t in o.dtypes], [repr(i) for i in o.index],
                [[repr(x) for x in row] for row in o.values.tolist()])
    try:
        from pgmpy.factors.discrete import DiscreteFactor, TabularCPD
        from pgmpy.factors.discrete import State
    except Exception:
        DiscreteFactor = TabularCPD = State = ()
    if isinstance(o, DiscreteFactor):
        base = ("factor", type(o).__name__, [repr(v) for v in o.variables], [int(c) for c in o.cardinality],
                snap(o.values, depth + 1), sorted((repr(k), [repr(s) for s in v]) for k, v in o.state_names.items()))
        if isinstance(o, TabularCPD):
            base = base + (repr(o.variable),)
        return base
    if isinstance(o, nx.Graph):
        d = {"type": type(o).__name__, "nodes": sorted(repr(x) for x in o.nodes()),
             "edges": sorted(repr((u, v)) if o.is_directed() else repr(tuple(sorted((repr(u), repr(v)))))
                             for u, v in o.edges()),
             "latents": sorted(repr(x) for x in getattr(o, "latents", set()))}
        if hasattr(o, "cpds"):
            d["cpds"] = sorted(repr(snap(c, depth + 1)) for c in o.cpds)
        if hasattr(o, "factors") and not callable(getattr(o, "factors")):
            d["factors"] = sorted(repr(snap(c, depth + 1)) for c in o.factors)
        return ("graph", sorted(d.items()))
    if isinstance(o, dict):
        return ("dict", sorted((repr(k), snap(v, depth + 1)) for k, v in o.items()))
    if isinstance(o, (set, frozenset)):
        return ("set", sorted(repr(snap(x, depth + 1)) for x in o))
    if isinstance(o, (list, tuple)):
        return (type(o).__name__, [snap(x, depth + 1) for x in o])
    return ("obj", repr(o))


def cpd_order(m):
    return [repr(c.variable) for c in getattr(m, "cpds", [])]


class Watch(object):
    """deep snapshots of named objects before a call; diff() afterwards"""

    def __init__(self, **objs):
        self.objs = objs
        self.before = {k: snap(v) for k, v in objs.items()}
        self.orders = {k: cpd_order(v) for k, v in objs.items() if hasattr(v, "cpds")}

    def diff(self):
        changed = []
        for k, v in self.objs.items():
            if snap(v) != self.before[k]:
                changed.append(k)
        return changed

    def reordered(self):
        return [k for k, v in self.objs.items() if k in self.orders and cpd_order(v) != self.orders[k]]


# =================================================================== data for estimators
def sample_rows(rng, net, nrows):
    order = topo(net)
    rows = []
    cts = [canon_cpt(net, i) for i in range(net["n"])]
    for _ in range(nrows):
        a = {}
        for i in order:
            ps = net["cpt"][i]["parents"]
            probs = [float(cts[i][(s,) + tuple(a[q] for q in ps)]) for s in range(net["cards"][i])]
            r = rng.random()
            acc = 0.0
            s = 0
            for s, pr in enumerate(probs):
                acc += pr
                if r < acc:
                    break
            a[i] = s
        rows.append([a[i] for i in range(net["n"])])
    # make sure every state occurs
    for i in range(net["n"]):
        for s in range(net["cards"][i]):
            row = list(rows[rng.randrange(len(rows))])
            row[i] = s
            rows.append(row)
    return rows


def topo(net):
    n = net["n"]
    done, out = set(), []
    while len(out) < n:
        for i in range(n):
            if i not in done and all(q in done for q in net["cpt"][i]["parents"]):
                done.add(i)
                out.append(i)
    return out


def make_df(b, net, rows, categorical):
    import pandas as pd

    cols = {}
    for i in range(net["n"]):
        cols[b.names[i]] = [r[i] for r in rows]
    df = pd.DataFrame(cols)
    df.columns = pd.Index(list(cols.keys()), tupleize_cols=False) if any(isinstance(x, tuple) for x in cols) else df.columns
    if categorical:
        for c in df.columns:
            df[c] = pd.Categorical(df[c], categories=list(range(net["cards"][b.idx[c]])))
    return df


# =================================================================== backend switch
class Backend(object):
    def __init__(self, name):
        self.name = name

    def __enter__(self):
        from pgmpy import config

        self.prev = (config.get_backend(), config.get_dtype(), config.get_device())
        if self.name == "torch64":
            import torch
            config.set_backend("torch", device="cpu", dtype=torch.float64)
        elif self.name == "torch32":
            import torch
            config.set_backend("torch", device="cpu", dtype=torch.float32)
        return self

    def __exit__(self, *a):
        from pgmpy import config

        config.set_backend("numpy")
        return False


def backend_clean():
    from pgmpy import config

    return config.get_backend() == "numpy" and str(config.get_dtype()) == "float64"


# =================================================================== run_case
def run_case(case, drv):
    k = case["kind"]
    try:
        if k == "purity":
            return run_purity(case, drv)
        if k == "history":
            return run_history(case, drv)
        if k == "repr":
            return run_repr(case, drv)
        if k == "factor":
            return run_factor(case, drv)
        if k == "datarepr":
            return run_datarepr(case, drv)
        if k == "statenames":
            return run_statenames(case, drv)
        if k == "session":
            return run_session(case, drv)
        if k == "resindep":
            return run_resindep(case, drv)
        if k == "bpmp":
            return run_bpmp(case, drv)
        if k == "binop":
            return run_binop(case, drv)
    finally:
        if not backend_clean():
            from pgmpy import config
            config.set_backend("numpy")
    return bad("bad-case", {"kind": k})


# ------------------------------------------------------------------- representation independence
def ask_pgmpy(b, net, engine, Q, ev, virt=None, cont=None):
    """-> ('table', {canon tuple: p}) | ('map', {var index: canon state}) | ('scalar', x) | ('tables', [...])"""
    from pgmpy.inference import VariableElimination, BeliefPropagation

    names = as_container([fresh_obj(b.names[q]) for q in Q], cont)
    evd = ev_dict(b, ev)
    kw = {"show_progress": False}
    if virt:
        kw["virtual_evidence"] = virt_cpds(b, net, virt)
    HEUR = {"ve_minfill": "MinFill", "ve_minneighbors": "MinNeighbors", "ve_minweight": "MinWeight",
            "ve_wminfill": "WeightedMinFill"}
    if engine in ("ve", "ve_nojoint", "ve_explicit") or engine in HEUR:
        ve = VariableElimination(b.model)
        if engine in HEUR:
            kw["elimination_order"] = HEUR[engine]
        if engine == "ve_explicit":
            rest = [b.names[v] for v in range(net["n"]) if v not in Q and v not in [x for x, _ in ev]]
            random.Random(len(rest) * 7 + len(Q)).shuffle(rest)
            kw["elimination_order"] = rest
        if engine == "ve_nojoint":
            r = ve.query(names, evidence=evd, joint=False, **kw)
            return ("marginals", {q: canon_factor(b, r[b.names[q]], [q]) for q in Q})
        return ("table", canon_factor(b, ve.query(names, evidence=evd, **kw), Q))
    if engine == "bp_nojoint":
        r = BeliefPropagation(b.model).query(names, evidence=evd, joint=False, **kw)
        return ("marginals", {q: canon_factor(b, r[b.names[q]], [q]) for q in Q})
    if engine in ("ci_ve", "ci_bp"):
        from pgmpy.inference import CausalInference

        r = CausalInference(b.model).query(names, evidence=evd, inference_algo=engine[3:], show_progress=False)
        return ("table", canon_factor(b, r, Q))
    if engine == "ve_map":
        r = VariableElimination(b.model).map_query(names, evidence=evd, **kw)
        return ("map", {b.idx[v]: b.lab2canon[b.idx[v]][s] for v, s in r.items()})
    if engine == "ve_maxmarg":
        r = VariableElimination(b.model).max_marginal(names, evidence=evd, show_progress=False)
        return ("scalar", float(np_values(r)))
    if engine == "bp":
        return ("table", canon_factor(b, BeliefPropagation(b.model).query(names, evidence=evd, **kw), Q))
    if engine == "bp_map":
        r = BeliefPropagation(b.model).map_query(names, evidence=evd, **kw)
        return ("map", {b.idx[v]: b.lab2canon[b.idx[v]][s] for v, s in r.items()})
    raise ValueError(engine)


def check_answer(ans, ref, Q, net, drv, ev, tol):
    """ref: reference joint posterior over Q (canon tuple -> Fraction).  -> None | error string"""
    kind, val = ans
    if kind == "table":
        return cmp_tables(val, ref, tol)
    if kind == "marginals":
        for j, q in enumerate(Q):
            want = {}
            for key, p in ref.items():
                want[(key[j],)] = want.get((key[j],), 0) + p
            e = cmp_tables(val[q], want, tol)
            if e:
                return "marginal of %d: %s" % (q, e)
        return None
    if kind == "map":
        if set(val) != set(Q):
            return "map keys %r != %r" % (sorted(val), sorted(Q))
        key = tuple(val[q] for q in Q)
        best = max(ref.values())
        if not common.approx(float(ref[key]), best, max(tol, 1e-9)):
            return "map assignment %r has posterior %r < max %r" % (key, float(ref[key]), float(best))
        return None
    return None


def run_repr(case, drv):
    net, rep, Q, ev, engine = case["net"], case["rep"], case["Q"], case["ev"], case["engine"]
    tol = TOL32 if case["backend"] == "torch32" else TOL
    tags = ["repr", "engine=" + engine, "backend=" + case["backend"], "names=" + rep["nstyle"],
            "states=" + rep["sstyle"], "n=%d" % net["n"]]
    key = common.canon_key(["repr", net, Q, ev, engine, rep, case["backend"]])
    nontriv = bool(net["edges"]) and (len(Q) + len(ev) < net["n"] or bool(ev))
    virt, cont, sloppy = case.get("virt"), case.get("cont"), case.get("sloppy")
    tags += (["virt"] if virt else []) + (["cont=" + cont] if cont else []) + (["sloppy"] if sloppy else [])
    key = common.canon_key(["repr", net, Q, ev, engine, rep, case["backend"], virt, cont, sloppy])
    if virt:
        rest = [v for v in range(net["n"]) if v not in Q and v not in [x for x, _ in ev]]
        vf = [[[v], [Fraction(a, c) for a, c in e]] for v, e in virt]
        tab = drv.call("c16_post", [net["cards"], model_factors(net) + vf, [list(x) for x in ev], rest, Q])
        ref = {idx: common.frac(tab[k]) for k, idx in enumerate(itertools.product(*[range(net["cards"][q]) for q in Q]))}
    else:
        ref = ref_posterior(drv, net, Q, ev, random.Random(case.get("hashseed", 0)))
    if any(d == 0 for d in [sum(ref.values())]) or any(v != v for v in map(float, ref.values())):
        return ok(False, key, tags + ["zero-evidence"])
    with Backend(case["backend"]):
        b = build(net, rep)
        w = Watch(model=b.model)
        def plain():
            return ask_pgmpy(build(net, plain_rep(net)), net, engine, Q, ev, virt)

        try:
            ans = ask_pgmpy(b, net, engine, Q, ev, virt, cont)
        except Exception as e:  # zero-probability evidence etc. are excluded above
            if nonstring_diag(e, rep, plain):
                return bad("nonstring-names", {"engine": engine, "exc": repr(e)[:200], "names": rep["nstyle"]},
                           finding=NONSTR_KEY, key=key, tags=tags + ["diag:nonstring-" + engine])
            return bad("impl-exception", {"engine": engine, "exc": repr(e)[:300]}, key=key, tags=tags)
        if sloppy:
            # CPDs typed with two decimals (column sums within check_model's 0.01 but not 1): which number is
            # "the" posterior depends on what an engine prunes, so only representation independence is required:
            # the plain string representation of the same tables gives the same answer on the same engine
            pa = plain()
            same = (pa[0] == ans[0]) and (
                (pa[0] == "table" and cmp_tables(ans[1], pa[1], 1e-9) is None)
                or (pa[0] == "marginals" and all(cmp_tables(ans[1][q], pa[1][q], 1e-9) is None for q in Q))
                or (pa[0] in ("map", "scalar") and (ans[1] == pa[1] or pa[0] == "scalar" and rel_close(ans[1], pa[1], 1e-9))))
            if not same:
                return bad("representation-dependent", {"engine": engine, "what": "not exactly normalised tables",
                                                        "got": str(ans)[:300], "plain": str(pa)[:300]}, key=key, tags=tags)
        elif engine == "ve_maxmarg":
            # metamorphic: the plain string representation of the same network must give the same number
            want = plain()[1]
            if not common.approx(ans[1], want, tol):
                return bad("representation-dependent", {"what": "max_marginal", "got": ans[1], "plain": want},
                           key=key, tags=tags)
        else:
            err = check_answer(ans, ref, Q, net, drv, ev, tol)
            if err:
                fk = None
                n32 = net_f32(net) if case["backend"] == "torch64" else None
                if n32 is not None:
                    # diagnosed class: torch backend AND an input entry that is not a float32 AND pgmpy's answer is
                    # the model's answer on the float32-rounded inputs
                    # (pruning drops barren / d-separated CPDs, which no longer sum to one after the rounding, so the
                    # rounded model is matched only up to float32 rounding size: 32 ulp = 2e-6 relative)
                    ref32 = ref_posterior(drv, n32, Q, ev)
                    if sum(ref32.values()) != 0 and (check_answer(ans, ref32, Q, net, drv, ev, tol) is None
                                                     or check_answer(ans, ref, Q, net, drv, ev, F32_SIZE) is None):
                        fk = TORCH32_KEY
                return bad("impl!=model", {"engine": engine, "err": err, "rep": rep["nstyle"] + "/" + rep["sstyle"],
                                           "backend": case["backend"]},
                           finding=fk, key=key, tags=tags + (["diag:torch-f32"] if fk else []))
        ch = w.diff()
        if ch:
            return bad("mutated-argument", {"call": engine, "changed": ch}, key=key, tags=tags)
    if not backend_clean():
        return bad("backend-not-restored", {}, key=key, tags=tags)
    return ok(nontriv, key, tags)


def max_marginal_ref(net, Q, ev):
    cts = [canon_cpt(net, i) for i in range(net["n"])]
    evd = dict((v, s) for v, s in ev)
    best = {}
    for full in itertools.product(*[range(c) for c in net["cards"]]):
        if any(full[v] != s for v, s in evd.items()):
            continue
        p = Fraction(1)
        for i in range(net["n"]):
            p *= cts[i][(full[i],) + tuple(full[q] for q in net["cpt"][i]["parents"])]
        k = tuple(full[q] for q in Q)
        best[k] = max(best.get(k, Fraction(0)), p)
    return max(best.values())


# ------------------------------------------------------------------- factor operations
def run_factor(case, drv):
    out = _run_factor(case, drv, False)
    if not out["ok"] and out.get("kind") == "impl!=spec" and case["backend"] == "torch64":
        # diagnosed class (open finding): an input entry that float32 cannot hold, and pgmpy equals the spec on
        # the float32-rounded inputs (when an input overflows to inf only the first two conditions can be checked)
        why = out["detail"].get("f32")
        if why == "overflow":
            out["finding"] = TORCH32_KEY
            out["tags"] = out["tags"] + ["diag:torch-f32-range"]
        elif why == "inexact":
            out2 = _run_factor(case, drv, True)
            if out2["ok"]:
                out["finding"] = TORCH32_KEY
                out["tags"] = out["tags"] + ["diag:torch-f32"]
    return out


def _run_factor(case, drv, r32):
    import numpy as np

    net, rep = case["net"], case["rep"]
    rng = random.Random(case["fseed"])
    tol = TOL32 if case["backend"] == "torch32" else TOL
    tags = ["factor", "backend=" + case["backend"], "scope>=9" if case.get("pick") else "scope<9"]
    key = common.canon_key(["factor", net, rep, case["fseed"], case["backend"], case.get("pick"), case.get("scale")])
    with Backend(case["backend"]):
        b = build(net, rep)
        fs = [c.to_factor() for c in b.model.cpds]
        i, j = rng.randrange(len(fs)), rng.randrange(len(fs))
        if case.get("pick"):
            i, j = [[k for k, c in enumerate(b.model.cpds) if b.idx[c.variable] == v][0] for v in case["pick"]]
        f, g = fs[i], fs[j]
        sa, sb = case.get("scale", [0, 0])
        if sa or sb:
            # unnormalised potentials far from 1 (powers of two: the floats stay exact)
            from pgmpy.factors.discrete import DiscreteFactor
            f = DiscreteFactor(f.variables, f.cardinality, np_values(f.values) * (2.0 ** sa), state_names=f.state_names)
            g = DiscreteFactor(g.variables, g.cardinality, np_values(g.values) * (2.0 ** sb), state_names=g.state_names)
            tags = tags + ["scaled"]
        w = Watch(f=f, g=g, model=b.model)
        prod = f.product(g, inplace=False)
        vi, vj = b.idx[f.variables[0]], b.idx[g.variables[0]]
        # reference: product, then marginal over one variable, then reduce
        scope = sorted(set(b.idx[v] for v in prod.variables))
        fa = [[vi] + net["cpt"][vi]["parents"], {k_: v_ * Fraction(2) ** sa for k_, v_ in canon_cpt(net, vi).items()}]
        ga = [[vj] + net["cpt"][vj]["parents"], {k_: v_ * Fraction(2) ** sb for k_, v_ in canon_cpt(net, vj).items()}]
        # does float32 hold every input entry?  (the torch constructors store float32-rounded values)
        f32why = None
        for tab, sc in ((fa[1], sa), (ga[1], sb)):
            for k_, v_ in tab.items():
                inner = F32(v_ / Fraction(2) ** sc)                 # the CPD entry as stored
                r_ = None if inner is None else F32(inner * Fraction(2) ** sc)
                if r_ is None:
                    f32why = "overflow"
                elif r_ != v_ and f32why is None:
                    f32why = "inexact"
                if r32 and r_ is not None:
                    tab[k_] = r_
        want = {}
        for full in itertools.product(*[range(net["cards"][q]) for q in scope]):
            a = dict(zip(scope, full))
            want[full] = fa[1][tuple(a[q] for q in fa[0])] * ga[1][tuple(a[q] for q in ga[0])]
        got = canon_factor(b, prod, scope)
        e = cmp_tables(got, want, tol)
        if e:
            return bad("impl!=spec", {"op": "product", "err": e, "f32": f32why}, key=key, tags=tags)
        x = rng.choice(scope)
        if len(scope) > 1:
            marg = prod.marginalize([b.names[x]], inplace=False)
            mx = prod.maximize([b.names[x]], inplace=False)
            rest = [q for q in scope if q != x]
            wm, wx = {}, {}
            for full, p in want.items():
                kk = tuple(s for q, s in zip(scope, full) if q != x)
                wm[kk] = wm.get(kk, 0) + p
                wx[kk] = max(wx.get(kk, 0), p)
            e = cmp_tables(canon_factor(b, marg, rest), wm, tol) or cmp_tables(canon_factor(b, mx, rest), wx, tol)
            if e:
                return bad("impl!=spec", {"op": "marginalize/maximize", "err": e, "f32": f32why}, key=key, tags=tags)
            s = rng.randrange(net["cards"][x])
            red = prod.reduce([(b.names[x], b.labels[x][s])], inplace=False)
            wr = {tuple(t for q, t in zip(scope, full) if q != x): p for full, p in want.items()
                  if full[scope.index(x)] == s}
            e = cmp_tables(canon_factor(b, red, rest), wr, tol)
            if e:
                return bad("impl!=spec", {"op": "reduce", "err": e, "f32": f32why}, key=key, tags=tags)
        nz = prod.normalize(inplace=False)
        tot = sum(want.values())
        if tot:
            e = cmp_tables(canon_factor(b, nz, scope), {kk: p / tot for kk, p in want.items()}, tol)
            if e:
                return bad("impl!=spec", {"op": "normalize", "err": e, "f32": f32why}, key=key, tags=tags)
        _ = f + g if set(f.variables) == set(g.variables) else None
        _ = prod.divide(g, inplace=False) if all(float(t) != 0 for t in np_values(g.values).ravel()) else None
        ch = w.diff()
        if ch:
            return bad("mutated-argument", {"call": "factor out-of-place ops", "changed": ch}, key=key, tags=tags)
    if not backend_clean():
        return bad("backend-not-restored", {}, key=key, tags=tags)
    return ok(True, key, tags)


# ------------------------------------------------------------------- history
SIDE_OPS = ("induced", "calibrate", "max_calibrate")
VIRT_KEY = None   # repaired in /repo (e568f1b, d456552): a recurrence is an unlisted violation


def q_wire(q):
    return [1 if q.get("bp") else 0,
            [] if q["Q"] is None else [q["Q"]],
            [list(x) for x in q["ev"]],
            [] if not q["virt"] else [[[v, [Fraction(a, c) for a, c in e]] for v, e in q["virt"]]]]


def do_question(eng, b, net, q, cache=None):
    """cache: {key: argument object}; the SAME dict / CPD-list objects are passed again when a question
    repeats arguments (argument purity is checked on them at the end of the session)"""
    nb = net["n"]

    def nm(v):
        return b.names[v] if v < nb else "no_such_node"

    names = None if q["Q"] is None else as_container([fresh_obj(nm(v)) for v in q["Q"]], q.get("cont"))
    evd = {fresh_obj(b.names[v]): (fresh_obj(b.labels[v][s]) if s < net["cards"][v] else "no_such_state")
           for v, s in q["ev"]}
    if q.get("evshuffle"):
        items = list(evd.items())
        random.Random(q["evshuffle"]).shuffle(items)
        evd = dict(items)
    virt = None
    if q["virt"]:
        if q.get("bad") == "virt_card":
            from pgmpy.factors.discrete import TabularCPD
            v, e = q["virt"][0]
            virt = [TabularCPD(b.names[v], len(e), [[1.0 / len(e)]] * len(e))]
        else:
            virt = virt_cpds(b, net, q["virt"])
    if cache is not None:
        k1 = ("ev", json_key(q["ev"]), q.get("evshuffle"))
        evd = cache.setdefault(k1, evd)
        if virt is not None:
            virt = cache.setdefault(("virt", json_key(q["virt"]), q.get("bad")), virt)
    kw = {"show_progress": False}
    if virt is not None:
        kw["virtual_evidence"] = virt
    if q["op"] == "query":
        return ("factor", eng.query(names, evidence=evd, **kw))
    if q["op"] in ("map", "map_all"):
        return ("map", eng.map_query(names, evidence=evd, **kw))
    if q["op"] == "maxmarg":
        if hasattr(eng, "max_marginal"):
            return ("scalar", float(np_values(eng.max_marginal(names, evidence=evd, show_progress=False))))
        return ("factor", eng.query(names, evidence=evd, show_progress=False))
    if q["op"] == "induced":
        order = [b.names[v] for v in range(nb)]
        random.Random(q["oseed"]).shuffle(order)
        g = eng.induced_graph(order)
        try:
            width = int(eng.induced_width(order))
        except ValueError as e:          # an edgeless induced graph: max() of an empty sequence (not a C16 matter)
            width = "ValueError"
        return ("induced", sorted(repr(x) for x in g.nodes()),
                sorted(repr(tuple(sorted((repr(u), repr(v))))) for u, v in g.edges()), width)
    if q["op"] in ("calibrate", "max_calibrate"):
        getattr(eng, q["op"])()
        return ("scalar", float(len(eng.get_clique_beliefs())))
    raise ValueError(q["op"])


def json_key(x):
    import json

    return json.dumps(x, sort_keys=True, default=str)


def canon_answer(b, net, ans):
    kind, val = ans
    if kind == "factor":
        scope = [v for v in val.variables]
        ok_scope = all(v in b.idx for v in scope)
        if not ok_scope:
            return ("factor-foreign-scope", sorted(repr(v) for v in scope))
        Q = sorted(b.idx[v] for v in scope)
        return ("table", Q, canon_factor(b, val, Q))
    if kind == "map":
        out = {}
        for v, s in val.items():
            if v in b.idx:
                out[b.idx[v]] = b.lab2canon[b.idx[v]][s]
            else:
                out[repr(v)] = repr(s)
        return ("map", out)
    return ans


def same_answer(x, y):
    if x[0] != y[0]:
        return False
    if x[0] == "table":
        return x[1] == y[1] and cmp_tables(x[2], y[2], 1e-12) is None
    if x[0] == "scalar":
        return common.approx(x[1], y[1], 1e-12)
    return x[1:] == y[1:]


def model_table(mod, net, nb):
    m_scope, m_tab = mod[0], [common.frac(x) for x in mod[1]]
    mcards = [net["cards"][v] if v < nb else 2 for v in m_scope]
    return {idx: m_tab[kx] for kx, idx in enumerate(itertools.product(*[range(c) for c in mcards]))}


def answer_vs_model(a_h, mod, net, nb, b, tol=TOL):
    """pgmpy's canonical answer against the extracted model's (scope, table): None or an error string"""
    m_scope = mod[0]
    mtable = model_table(mod, net, nb)
    if a_h[0] == "table":
        Qs = a_h[1]
        want = {}
        for idx, p in mtable.items():
            kk = tuple(idx[m_scope.index(v)] for v in Qs)
            want[kk] = want.get(kk, 0) + p
        return cmp_tables(a_h[2], want, tol)
    if a_h[0] == "map":
        got = {}
        for v, st in a_h[1].items():
            if isinstance(v, int):
                got[v] = st
            else:  # an auxiliary "__X" node: state 0/1 printed as repr
                x = [j for j in range(nb) if repr("__" + str(b.names[j])) == v]
                got[nb + x[0] if x else v] = int(st)
        if set(got) != set(m_scope):
            return "map scope %r, model scope %r" % (sorted(map(str, got)), sorted(m_scope))
        kk = tuple(got[v] for v in m_scope)
        if not rel_close(float(mtable[kk]), float(max(mtable.values())), 1e-9):
            return "map assignment %r is not a mode of the model's table" % (kk,)
    return None


class ArgCache(dict):
    """argument objects reused across the calls of a session, with a deep snapshot taken before first use"""

    def __init__(self):
        dict.__init__(self)
        self.snaps = {}

    def setdefault(self, k, v):
        if k not in self:
            self[k] = v
            self.snaps[k] = snap(v)
        return self[k]

    def changed(self):
        return [str(k)[:100] for k, v in self.items() if snap(v) != self.snaps[k]]


def run_history(case, drv):
    with Backend(case.get("backend", "numpy")):
        out = _run_history(case, drv)
    if out["ok"] and not backend_clean():
        return bad("backend-not-restored", {}, key=out.get("key"), tags=out.get("tags", []))
    return out


def _run_history(case, drv):
    """EVERY question of the sequence is answered by the shared engine, by a fresh engine and by the
    extracted engine model (with the history so far); all three must agree, and the engine must stay bound
    to the model it was created on.  Calls the model rejects must be rejected by pgmpy and leave no trace;
    calibrate / max_calibrate / induced_width in between must not change later answers."""
    from pgmpy.inference import VariableElimination, BeliefPropagation

    net, rep, bp = case["net"], case["rep"], case["bp"]
    seq = list(case["hist"]) + [case["final"]]
    final = case["final"]
    tags = ["history", "engine=" + ("bp" if bp else "ve"), "len=%d" % len(seq), "final=" + final["op"],
            "related=%d" % int(case.get("related", 0)), "backend=" + case.get("backend", "numpy"),
            "virt-questions=%d" % sum(1 for q in seq if q["virt"])] + \
           sorted(set("sideop=" + (q.get("bad") or q["op"]) for q in seq if q.get("bad") or q["op"] in SIDE_OPS))
    key = common.canon_key(["history", net, rep, bp, seq, case.get("backend")])
    nontriv = bool(net["edges"]) or case.get("witness", False)
    Eng = BeliefPropagation if bp else VariableElimination
    b = build(net, rep)
    w = Watch(model=b.model)
    eng = Eng(b.model)
    nodes0 = sorted(repr(x) for x in eng.model.nodes())
    nb = net["n"]
    hw = []          # wire form of the QUESTIONS so far (side operations are not questions)
    cache = ArgCache()

    def mname(v):
        return repr(b.names[v]) if v < nb else repr("__" + str(b.names[v - nb]))

    for i, q in enumerate(seq):
        where = {"step": i, "of": len(seq), "q": q}
        if q["op"] in SIDE_OPS:
            try:
                r_h = do_question(eng, b, net, q)
                if q["op"] == "induced":
                    # the induced graph (nodes, fill-in edges, width) of an explicit elimination order, after
                    # whatever was asked before, is the fresh engine's
                    b2 = build(net, rep)
                    r_f = do_question(Eng(b2.model), b2, net, q)
                    if r_h != r_f:
                        return bad("history-dependent-answer",
                                   dict(where, what="induced_graph / induced_width", with_history=str(r_h)[:400],
                                        fresh=str(r_f)[:400], asked_before=[x["op"] + ("+virt" if x["virt"] else "") +
                                                                            ("(rejected)" if x.get("bad") else "")
                                                                            for x in seq[:i]]), key=key, tags=tags)
            except Exception as e:
                return bad("impl-exception", dict(where, exc=repr(e)[:300]), key=key, tags=tags)
            if sorted(repr(x) for x in eng.model.nodes()) != nodes0:
                return bad("engine-model-residue", dict(where, before=nodes0), key=key, tags=tags)
            continue
        qw = q_wire(dict(q, bp=bp))
        verdict = drv.call_e("c16_history", [nb, net["cards"], model_factors(net), list(hw), qw])
        hw.append(qw)
        exc_h = exc_f = None
        a_h = a_f = a_2 = None
        try:
            a_h = canon_answer(b, net, do_question(eng, b, net, q, cache))
        except Exception as e:
            exc_h = e
        b2 = build(net, rep)
        try:
            a_f = canon_answer(b2, net, do_question(Eng(b2.model), b2, net, q))
        except Exception as e:
            exc_f = e
        if verdict[0] == "err":
            # the model rejects the call: pgmpy must reject it too (shared and fresh engine), without a trace
            if exc_h is None or exc_f is None:
                return bad("rejected-call-answered", dict(where, model_error=verdict[1], shared=str(a_h)[:200],
                                                           fresh=str(a_f)[:200]), key=key, tags=tags)
            if sorted(repr(x) for x in eng.model.nodes()) != nodes0:
                return bad("engine-model-residue", dict(where, before=nodes0, what="after a rejected call",
                                                         after=sorted(repr(x) for x in eng.model.nodes())),
                           key=key, tags=tags)
            continue
        if exc_h is not None or exc_f is not None:
            return bad("impl-exception", dict(where, shared=repr(exc_h)[:300], fresh=repr(exc_f)[:300]),
                       key=key, tags=tags)
        if i == len(seq) - 1:
            try:
                a_2 = canon_answer(b, net, do_question(eng, b, net, q, cache))
            except Exception as e:
                return bad("impl-exception", dict(where, exc=repr(e)[:300], what="asked again"), key=key, tags=tags)
        mod = verdict[1]
        nodes1 = sorted(repr(x) for x in eng.model.nodes())
        # ---- correspondence with the Coq engine model, given the history so far
        m_scope, m_tab, m_after = mod[0], [common.frac(x) for x in mod[1]], mod[2]
        if sorted(mname(v) for v in m_after) != nodes1:
            return bad("engine-model-residue" if nodes1 != nodes0 else "impl!=model",
                       dict(where, what="nodes of engine.model after the question", impl=nodes1,
                            model=sorted(mname(v) for v in m_after)), key=key, tags=tags)
        mtable = model_table(mod, net, nb)
        err = answer_vs_model(a_h, mod, net, nb, b)
        if err:
            fk = None
            n32 = net_f32(net) if case.get("backend") == "torch64" else None
            if n32 is not None:
                v32 = drv.call_e("c16_history", [nb, net["cards"], model_factors(n32), list(hw[:-1]), qw])
                if v32[0] == "ok" and (answer_vs_model(a_h, v32[1], net, nb, b) is None
                                       or answer_vs_model(a_h, mod, net, nb, b, F32_SIZE) is None):
                    fk = TORCH32_KEY
            return bad("impl!=model", dict(where, what="answer of the shared engine", err=err,
                                           backend=case.get("backend")),
                       finding=fk, key=key, tags=tags + (["diag:torch-f32"] if fk else []))
        # ---- the property: the same as a fresh engine; the same when asked again
        if not same_answer(a_h, a_f):
            if not (a_h[0] == "map" and a_f[0] == "map" and set(a_h[1]) == set(a_f[1])
                    and map_tie(a_h, a_f, mtable, m_scope)):
                return bad("history-dependent-answer", dict(where, with_history=str(a_h)[:300], fresh=str(a_f)[:300]),
                           key=key, tags=tags)
        if a_2 is not None and not same_answer(a_h, a_2):
            if not (a_h[0] == "map" and map_tie(a_h, a_2, mtable, m_scope)):
                return bad("not-repeatable", dict(where, first=str(a_h)[:300], second=str(a_2)[:300]), key=key, tags=tags)
        if nodes1 != nodes0:
            return bad("engine-model-residue", dict(where, before=nodes0, after=nodes1), key=key, tags=tags)
    if w.diff():
        return bad("mutated-argument", {"call": "engine history", "changed": ["caller's model"]}, key=key, tags=tags)
    if cache.changed():
        return bad("mutated-argument", {"call": "engine history", "changed": cache.changed(),
                                        "what": "evidence dict / virtual evidence list reused across calls"},
                   key=key, tags=tags)
    return ok(nontriv, key, tags)


def map_tie(a, c, mtable, m_scope):
    """two MAP answers that differ but are both modes (exact ties)"""
    try:
        best = max(mtable.values())
        for x in (a, c):
            kk = tuple(x[1][v] for v in m_scope)
            if mtable[kk] != best:
                return False
        return True
    except Exception:
        return False


# ------------------------------------------------------------------- purity catalogue
def run_purity(case, drv):
    import numpy as np
    import pandas as pd

    call, net, rep = case["call"], case["net"], case["rep"]
    rng = random.Random(case["qseed"])
    tags = ["purity", "call=" + call, "names=" + rep["nstyle"], "states=" + rep["sstyle"]]
    key = common.canon_key(["purity", call, net, rep, case["qseed"]])
    nontriv = bool(net["edges"])
    b = build(net, rep)
    m = b.model
    Q, ev = gen_question(rng, net)
    names = [b.names[q] for q in Q]
    evd = ev_dict(b, ev)
    finding = None
    extra = {}
    obs = []

    def df_for(categorical=None, unused_ok=True):
        import pandas as pd

        rows = sample_rows(rng, net, rng.randint(40, 120))
        cat = (rng.random() < 0.5) if categorical is None else categorical
        df = make_df(b, net, rows, cat)
        if cat and categorical is None and unused_ok and rng.random() < 0.4:
            # a categorical column with an UNUSED category (explicit) - still must not be modified
            c = df.columns[rng.randrange(len(df.columns))]
            df[c] = pd.Categorical(df[c], categories=list(range(net["cards"][b.idx[c]] + 1)))
        how = rng.choice(["range", "shift", "perm", "gap", "dup"])
        if how == "shift":
            df.index = range(500, 500 + len(df))
        elif how == "perm":
            ix = list(range(len(df)))
            rng.shuffle(ix)
            df.index = ix
        elif how == "gap":
            df.index = [2 * k + 1 for k in range(len(df))]
        elif how == "dup":
            df.index = [k // 3 for k in range(len(df))]
        return df

    try:
        if call in ("ve_query", "ve_query_virt", "ve_map", "ve_map_virt", "ve_maxmarg", "ve_query_order"):
            from pgmpy.inference import VariableElimination

            eng = VariableElimination(m)
            virt = gen_virt(rng, net, set(Q) | {v for v, _ in ev}) if call.endswith("_virt") else None
            vc = virt_cpds(b, net, virt) if virt else None
            order = [b.names[v] for v in range(net["n"]) if v not in Q and v not in [x for x, _ in ev]]
            rng.shuffle(order)
            w = Watch(model=m, variables=names, evidence=evd, virtual_evidence=vc, order=order)
            if call == "ve_maxmarg":
                eng.max_marginal(names, evidence=evd, show_progress=False)
            elif call.startswith("ve_map"):
                eng.map_query(names, evidence=evd, virtual_evidence=vc, show_progress=False)
            elif call == "ve_query_order":
                eng.query(names, evidence=evd, elimination_order=order, show_progress=False)
            else:
                eng.query(names, evidence=evd, virtual_evidence=vc, show_progress=False)
            if eng.model is not m:
                extra["engine_rebound"] = sorted(repr(x) for x in eng.model.nodes())
                extra["engine_rebound_unexpected"] = True
        elif call in ("bp_calibrate", "bp_query", "bp_query_virt", "bp_map"):
            from pgmpy.inference import BeliefPropagation

            eng = BeliefPropagation(m)
            virt = gen_virt(rng, net, set(Q) | {v for v, _ in ev}) if call.endswith("_virt") else None
            vc = virt_cpds(b, net, virt) if virt else None
            w = Watch(model=m, variables=names, evidence=evd, virtual_evidence=vc)
            n0 = sorted(repr(x) for x in eng.model.nodes())
            if call == "bp_calibrate":
                eng.calibrate()
                eng.query(names, evidence=evd, show_progress=False)
            elif call == "bp_map":
                eng.map_query(names, evidence=evd, show_progress=False)
            else:
                eng.query(names, evidence=evd, virtual_evidence=vc, show_progress=False)
            n1 = sorted(repr(x) for x in eng.model.nodes())
            if n1 != n0:
                extra["engine_nodes"] = [n0, n1]
                extra["engine_rebound_unexpected"] = True
            if snap(eng.model) != snap(m):
                extra["engine_rebound_unexpected"] = True
        elif call == "ci_query":
            from pgmpy.inference import CausalInference

            eng = CausalInference(m)
            x = rng.choice([v for v in range(net["n"])])
            ys = [v for v in range(net["n"]) if v != x]
            y = rng.choice(ys)
            do = {b.names[x]: b.labels[x][rng.randrange(net["cards"][x])]}
            vars_ = [b.names[y]]
            w = Watch(model=m, variables=vars_, do=do)
            try:
                r1 = eng.query(vars_, do=do, show_progress=False)
            except ValueError as e:
                if "Can't have the same variables in both" in str(e):
                    # the default adjustment set contains the query variable: C13's subject, not a purity matter
                    if w.diff():
                        return bad("mutated-argument", {"call": call, "changed": w.diff()}, key=key, tags=tags)
                    return ok(False, key, tags + ["skip-c13-adjustment-set"])
                raise
            r2 = eng.query(vars_, do=do, show_progress=False)
            if cmp_tables(canon_factor(b, r1, [y]), canon_factor(b, r2, [y]), 1e-12):
                return bad("not-repeatable", {"call": call}, key=key, tags=tags)
            if snap(eng.model) != w.before["model"]:
                extra["engine_rebound_unexpected"] = True
        elif call in ("sample_forward", "sample_rejection", "sample_lw"):
            from pgmpy.sampling import BayesianModelSampling
            from pgmpy.factors.discrete import State

            smp = BayesianModelSampling(m)
            evl = [State(b.names[v], b.labels[v][s]) for v, s in ev]
            w = Watch(model=m, evidence=evl)
            sd = rng.choice([0, rng.randint(0, 10**6)])
            if call == "sample_forward":
                f = lambda s_: s_.forward_sample(size=30, seed=sd, show_progress=False)
            elif call == "sample_rejection":
                f = lambda s_: s_.rejection_sample(evidence=evl, size=10, seed=sd, show_progress=False)
            else:
                f = lambda s_: s_.likelihood_weighted_sample(evidence=evl, size=30, seed=sd, show_progress=False)
            if call == "sample_rejection" and ev and float(sum(ref_posterior(drv, net, [ev[0][0]], ev[1:]).values()) or 0) == 0:
                return ok(False, key, tags + ["skip"])
            if call == "sample_rejection" and ev:
                pe = prob_evidence(net, ev)
                if pe < 0.02:
                    return ok(False, key, tags + ["skip-rare-evidence"])
            d1 = f(smp)
            d2 = f(smp)
            d3 = f(BayesianModelSampling(build(net, rep).model))
            if snap(d1) != snap(d2) or snap(d1) != snap(d3):
                return bad("not-repeatable", {"call": call, "note": "same seed, different samples"}, key=key, tags=tags)
        elif call == "gibbs":
            from pgmpy.sampling import GibbsSampling

            from pgmpy.factors.discrete import State

            # A Gibbs sampler is a Markov CHAIN object: it keeps its current state between calls by design, and
            # draws a random start state before seeding.  What must hold: the model is untouched, and two FRESH
            # samplers with the same explicit start state and seed give the same chain.
            w = Watch(model=m)
            sd = rng.choice([0, rng.randint(0, 10**6)])

            def chain():
                g = GibbsSampling(m)
                start = [State(v, 0) for v in g.variables]
                return g.sample(start_state=start, size=12, seed=sd)

            d1, d2 = chain(), chain()
            if snap(d1) != snap(d2):
                return bad("not-repeatable", {"call": call, "note": "same start state and seed, different Gibbs chains",
                                              "seed": sd}, key=key, tags=tags)
        elif call in ("simulate", "simulate_virt", "simulate_do"):
            virt = gen_virt(rng, net, set(Q) | {v for v, _ in ev}) if call == "simulate_virt" else None
            vc = virt_cpds(b, net, virt) if virt else None
            if ev and prob_evidence(net, ev) < 0.05:
                ev = []
                evd = {}
            do = None
            if call == "simulate_do":
                cand = [v for v in range(net["n"]) if v not in [x for x, _ in ev]]
                if cand:
                    x = rng.choice(cand)
                    do = {b.names[x]: b.labels[x][rng.randrange(net["cards"][x])]}
                    if ev and prob_evidence(net_do(net, x), ev) < 0.05:
                        ev, evd = [], {}
            w = Watch(model=m, evidence=evd, virtual_evidence=vc, do=do)
            sd = rng.choice([0, rng.randint(0, 10**6)])
            d1 = m.simulate(n_samples=12, evidence=evd, virtual_evidence=vc, do=do, seed=sd, show_progress=False)
            if "evidence" in w.diff() and vc and set(evd) - set(ev_dict(b, ev)) == {"__" + str(c.variables[0]) for c in vc} \
                    and all(evd[k] == ev_dict(b, ev)[k] for k in ev_dict(b, ev)):
                extra["evidence_after"] = repr(evd)
        elif call in ("fit_mle", "fit_bayes", "fit_update"):
            from pgmpy.estimators import MaximumLikelihoodEstimator, BayesianEstimator
            from pgmpy.models import BayesianNetwork

            df = df_for()
            if call == "fit_update":
                m0 = b.model  # int default state names required: rebuilt with default states
                b0 = build(net, dict(rep, labels=[list(range(c)) for c in net["cards"]],
                                     state_order=[list(range(c)) for c in net["cards"]], sstyle="default"))
                m0 = b0.model
                df = make_df(b0, net, sample_rows(rng, net, 50), False)
                w = Watch(data=df)
                m0.fit_update(df, n_prev_samples=rng.choice([10, 100]))
            else:
                mm = BayesianNetwork()
                mm.add_nodes_from(m.nodes())
                mm.add_edges_from(m.edges())
                w = Watch(data=df, structure_nodes=sorted(repr(x) for x in mm.nodes()),
                          structure_edges=sorted(repr(x) for x in mm.edges()))
                if call == "fit_mle":
                    mm.fit(df, estimator=MaximumLikelihoodEstimator)
                else:
                    mm.fit(df, estimator=BayesianEstimator, prior_type=rng.choice(["BDeu", "K2"]))
                if snap(sorted(repr(x) for x in mm.edges())) != w.before["structure_edges"]:
                    return bad("mutated-argument", {"call": call, "changed": ["model structure"]}, key=key, tags=tags)
                w.objs.pop("structure_edges"); w.objs.pop("structure_nodes")
        elif call in ("score_k2", "score_bdeu", "score_bic"):
            from pgmpy.estimators import K2Score, BDeuScore, BicScore

            df = df_for()
            S = {"score_k2": K2Score, "score_bdeu": BDeuScore, "score_bic": BicScore}[call]
            w = Watch(data=df, model=m)
            sc = S(df)
            w.objs["scorer_data"] = sc.data
            w.before["scorer_data"] = snap(sc.data)
            s1 = sc.score(m)
            v = rng.randrange(net["n"])
            pa = [b.names[q] for q in net["cpt"][v]["parents"]]
            l1 = sc.local_score(b.names[v], pa)
            s2 = sc.score(m)
            l2 = sc.local_score(b.names[v], list(pa))
            s3 = S(df.copy()).score(m)
            if not (s1 == s2 == s3 and l1 == l2):
                return bad("not-repeatable", {"call": call, "scores": [s1, s2, s3, l1, l2]}, key=key, tags=tags)
        elif call in ("hc", "hc_lists", "exhaustive", "tree"):
            from pgmpy.estimators import HillClimbSearch, ExhaustiveSearch, TreeSearch
            from pgmpy.base import DAG

            df = df_for()
            nodes = list(df.columns)
            if call in ("hc", "hc_lists"):
                start = DAG()
                start.add_nodes_from(nodes)
                es = [(b.names[u], b.names[v]) for u, v in net["edges"]]
                rng.shuffle(es)
                keep = es[: rng.randint(0, len(es))]
                start.add_edges_from(keep)
                rest = [e for e in es if e not in keep]
                fixed = rest[: rng.randint(0, len(rest))] if call == "hc_lists" else []
                fixed = fixed + (keep[:1] if call == "hc_lists" else [])
                black = [(v, u) for (u, v) in es][: rng.randint(0, 2)] if call == "hc_lists" else None
                white = None
                w = Watch(data=df, start_dag=start, fixed_edges=fixed, black_list=black)
                hc = HillClimbSearch(df)
                r1 = hc.estimate(scoring_method="k2", start_dag=start, fixed_edges=fixed, black_list=black,
                                 max_indegree=2, max_iter=20, show_progress=False)
                # `fixed_edges: iterable` - the same edges as a set, a tuple or a one-shot iterator
                fx2 = rng.choice([set, tuple, iter, list])(list(fixed))
                r2 = hc.estimate(scoring_method="k2", start_dag=start, fixed_edges=fx2, black_list=black,
                                 max_indegree=2, max_iter=20, show_progress=False)
                if sorted(map(repr, r1.edges())) != sorted(map(repr, r2.edges())):
                    return bad("not-repeatable", {"call": call, "first": sorted(map(repr, r1.edges())),
                                                  "second": sorted(map(repr, r2.edges()))}, key=key, tags=tags)
                if not set(fixed) <= set(r1.edges()):
                    return bad("impl!=spec", {"call": call, "what": "fixed edges missing"}, key=key, tags=tags)
            elif call == "exhaustive":
                w = Watch(data=df)
                r1 = ExhaustiveSearch(df).estimate()
                r2 = ExhaustiveSearch(df).estimate()
                if sorted(map(repr, r1.edges())) != sorted(map(repr, r2.edges())):
                    obs.append("exhaustive-tie")
            else:
                w = Watch(data=df)
                ts = TreeSearch(df, root_node=nodes[0])
                r1 = ts.estimate(estimator_type="chow-liu", show_progress=False)
        elif call == "pc_indep":
            from pgmpy.estimators import PC

            ind = m.get_independencies()
            w = Watch(independencies=sorted(repr(a) for a in ind.get_assertions()), model=m)
            est = PC(independencies=ind)
            r1 = est.estimate(variant="stable", ci_test="independence_match", return_type="dag", show_progress=False)
            after = sorted(repr(a) for a in ind.get_assertions())
            if snap(after) != w.before["independencies"]:
                return bad("mutated-argument", {"call": call, "changed": ["independencies"]}, key=key, tags=tags)
            w.objs.pop("independencies")
        elif call == "pc_data":
            from pgmpy.estimators import PC
            from pgmpy.estimators.CITests import chi_square

            df = df_for(unused_ok=False)   # (chi-square on a table with an empty category is C19's subject)
            calls = []

            def citest(X, Y, Z, data, **kw):
                calls.append(1)
                return chi_square(X, Y, Z, data, boolean=True, significance_level=kw.get("significance_level", 0.05))

            w = Watch(data=df)
            est = PC(df)
            r1 = est.estimate(variant=rng.choice(["orig", "stable"]), ci_test=citest, max_cond_vars=2,
                              return_type="pdag", show_progress=False)
        elif call.startswith("write_"):
            from pgmpy.readwrite import BIFWriter, XMLBIFWriter, UAIWriter, NETWriter

            W = {"write_bif": BIFWriter, "write_xmlbif": XMLBIFWriter, "write_uai": UAIWriter, "write_net": NETWriter}[call]
            w = Watch(model=m)
            wr = W(m)
            s1 = str(wr)
            s2 = str(wr)
            if w.reordered():
                obs.append("cpds-list-reordered")
            if s1 != s2:
                if call == "write_uai" and s2.startswith(s1) and len(s2) > len(s1):
                    ch = w.diff()
                    if ch:
                        return bad("mutated-argument", {"call": call, "changed": ch}, key=key, tags=tags)
                    return bad("str-not-idempotent", {"call": call, "len1": len(s1), "len2": len(s2)},
                               finding=None, key=key, tags=tags + ["diag:uai-str"])
                return bad("str-not-idempotent", {"call": call, "len1": len(s1), "len2": len(s2)}, key=key, tags=tags)
        elif call in ("to_markov", "to_jt", "moralize", "indeps", "do", "copy", "predict"):
            w = Watch(model=m)
            if call == "to_markov":
                r = m.to_markov_model()
                r.get_partition_function()
                for f in r.get_factors():
                    f.values[...] = 0.5 * f.values  # editing the result's ARRAYS must not reach the source
                    f.normalize(inplace=True)
            elif call == "to_jt":
                r = m.to_junction_tree()
                for f in r.get_factors():
                    f.values[...] = 0.5 * f.values
                    f.normalize(inplace=True)
            elif call == "moralize":
                r = m.moralize()
                r.add_node("zz_extra")
            elif call == "indeps":
                m.get_independencies()
                m.local_independencies(list(m.nodes()))
                m.get_markov_blanket(b.names[0])
                m.get_immoralities()
            elif call == "do":
                r = m.do([b.names[rng.randrange(net["n"])]])
                for c in r.get_cpds():
                    c.values[...] = 0.5 * c.values
                    c.normalize(inplace=True)
                r.add_node("zz_extra")
            elif call == "copy":
                r = m.copy()
                r.add_node("zz_extra")
                for c in r.get_cpds():
                    c.values[...] = 0.5
            else:
                df = df_for(categorical=False)
                sub = df.drop(columns=[b.names[rng.randrange(net["n"])]])
                b0 = build(net, dict(rep, labels=[list(range(c)) for c in net["cards"]],
                                     state_order=[list(range(c)) for c in net["cards"]], sstyle="default"))
                w = Watch(model=b0.model, data=sub)
                b0.model.predict(sub.iloc[:10], n_jobs=1, stochastic=False)
                b0.model.predict_probability(sub.iloc[:5])
        elif call == "factor_ops":
            fs = [c.to_factor() for c in m.cpds]
            f, g = rng.choice(fs), rng.choice(fs)
            w = Watch(model=m, f=f, g=g)
            p = f.product(g, inplace=False)
            p.marginalize([p.variables[0]], inplace=False)
            p.maximize([p.variables[-1]], inplace=False)
            p.normalize(inplace=False)
            x = p.variables[0]
            p.reduce([(x, b.labels[b.idx[x]][0])], inplace=False)
            f * g
            f.copy().values[...] = 0
            for c in m.cpds:
                c.to_factor().values[...] = 0
                c.reorder_parents(list(reversed(c.variables[1:])), inplace=False) if len(c.variables) > 2 else None
                c.marginalize(c.variables[1:2], inplace=False) if len(c.variables) > 1 else None
        else:
            return bad("bad-case", {"call": call}, key=key, tags=tags)
    except Exception as e:
        import traceback

        def plain():
            r = run_purity(dict(case, rep=dict(plain_rep(net), sstyle=rep["sstyle"])), drv)
            if not r["ok"] and r.get("kind") in ("impl-exception", "harness-exception"):
                raise RuntimeError("fails with string names too")

        if nonstring_diag(e, rep, plain):
            # still open: CausalInference.query with a non-empty adjustment set calls
            # p_z.get_value(**{node: state}) and Python keywords must be strings
            fk = CI_NONSTR_KEY if (call == "ci_query" and isinstance(e, TypeError)
                                   and "keywords must be strings" in repr(e)) else NONSTR_KEY
            return bad("nonstring-names", {"call": call, "exc": repr(e)[:200], "names": rep["nstyle"]},
                       finding=fk, key=key, tags=tags + ["diag:nonstring-" + call])
        return bad("impl-exception", {"call": call, "exc": repr(e)[:300], "tb": traceback.format_exc()[-1200:]},
                   key=key, tags=tags)
    changed = w.diff()
    tags = tags + ["obs:" + o for o in obs]
    if extra.get("engine_rebound_unexpected"):
        return bad("engine-model-residue", {"call": call, "extra": extra}, key=key, tags=tags)
    unexpected = list(changed)
    if unexpected:
        return bad("mutated-argument", {"call": call, "changed": unexpected, "extra": extra}, key=key, tags=tags)
    if not backend_clean():
        return bad("backend-not-restored", {"call": call}, key=key, tags=tags)
    if finding:
        kind = "mutated-argument" if call.startswith("simulate") else "engine-model-residue"
        return bad(kind, {"call": call, "extra": extra}, finding=finding, key=key, tags=tags + ["finding:" + call])
    return ok(nontriv, key, tags)


def prob_evidence(net, ev):
    cts = [canon_cpt(net, i) for i in range(net["n"])]
    tot = Fraction(0)
    for full in itertools.product(*[range(c) for c in net["cards"]]):
        if any(full[v] != s for v, s in ev):
            continue
        p = Fraction(1)
        for i in range(net["n"]):
            p *= cts[i][(full[i],) + tuple(full[q] for q in net["cpt"][i]["parents"])]
        tot += p
    return float(tot)


def net_do(net, x):
    import copy

    n2 = copy.deepcopy(net)
    k = net["cards"][x]
    n2["cpt"][x] = {"parents": [], "flat": [[1, k] for _ in range(k)]}
    n2["edges"] = [e for e in net["edges"] if e[1] != x]
    return n2


# ------------------------------------------------------------------- data-based calls under column renamings
SORTED_KEY = "mixed-type-names-sorted"
FRAMES = ["index_shift", "index_perm", "index_gap", "index_dup", "index_str", "row_perm", "row_perm_reset",
          "categorical", "bool", "col_perm"]


def renamed_columns(style, n):
    if style == "mixed":   # mixed, mutually non-comparable types (as accepted by pandas for every score)
        pool = [0, "b", 2, "d", 4.5, "f", 6]
    elif style == "str2":
        pool = ["zeta", "Y", "x_1", "w w", "v", "u", "T"]
    elif style == "int":
        pool = [13, 11, 10, 12, 15, 14, 16]
    else:
        pool = [("v", i) for i in range(7)]
    return pool[:n]


def pandas_limitation(exc, style):
    """the documented pandas limitation: all-numeric column labels are taken for level NUMBERS by
    Series.unstack (ValueError 'truth value of an array ...' from pandas.core.reshape), and tuple labels are
    taken for multi-keys by DataFrame.loc (KeyError 'None of [Index([...' )"""
    r = repr(exc)
    if style == "int" and isinstance(exc, ValueError) and "truth value of an array" in r:
        return True
    if style == "tuple" and isinstance(exc, KeyError) and "None of [Index(" in r:
        return True
    return False


def run_datarepr(case, drv):
    import numpy as np
    import pandas as pd
    from pgmpy.models import BayesianNetwork
    from pgmpy.estimators import (K2Score, BDeuScore, BicScore, HillClimbSearch, ExhaustiveSearch, TreeSearch,
                                  MaximumLikelihoodEstimator, BayesianEstimator)

    call, net, style = case["call"], case["net"], case["style"]
    n = net["n"]
    rng = random.Random(case["dseed"])
    rows = sample_rows(rng, net, case["nrows"])
    frame = case.get("frame", "plain")
    tags = ["datarepr", "call=" + call, "style=" + style, "frame=" + frame]
    key = common.canon_key(["datarepr", call, net, style, frame, case["dseed"], case["nrows"]])
    frng = random.Random(case["dseed"] + 1)
    row_perm = list(range(len(rows)))
    frng.shuffle(row_perm)
    col_perm = list(range(n))
    frng.shuffle(col_perm)
    base_names = ["V%d" % i for i in range(n)]
    new_names = renamed_columns(style, n)
    pshuffle = [list(net["cpt"][i]["parents"]) for i in range(n)]
    for ps in pshuffle:
        rng.shuffle(ps)
    equiv = rng.choice(["bic", "bdeu"])

    def run(names, frame="plain"):
        df = pd.DataFrame({i: [r[i] for r in rows] for i in range(n)})
        df.columns = pd.Index(names, tupleize_cols=False)
        # the same data in another FRAME representation: the index is never data, row order is not data,
        # a categorical / bool column with exactly the used values is the same column
        if frame == "index_shift":
            df.index = range(1000, 1000 + len(df))
        elif frame == "index_perm":
            df.index = row_perm
        elif frame == "index_gap":
            df.index = [3 * k + 7 for k in range(len(df))]
        elif frame == "index_dup":
            df.index = [k // 2 for k in range(len(df))]
        elif frame == "index_str":
            df.index = ["r%d" % k for k in range(len(df))]
        elif frame == "row_perm":
            df = df.iloc[row_perm]
        elif frame == "row_perm_reset":
            df = df.iloc[row_perm].reset_index(drop=True)
        elif frame == "categorical":
            for c in list(df.columns):
                df[c] = pd.Categorical(df[c], categories=sorted(set(df[c])))
        elif frame == "bool":
            for i, c in enumerate(list(df.columns)):
                if net["cards"][i] == 2:
                    df[c] = df[c].astype(bool)
        elif frame == "col_perm":
            df = df[[names[j] for j in col_perm]]
        inv = {nm: i for i, nm in enumerate(names)}
        w = Watch(data=df)

        def edges(dag):
            return sorted((inv[u], inv[v]) for u, v in dag.edges())

        def structure():
            m = BayesianNetwork()
            m.add_nodes_from(names)
            m.add_edges_from([(names[u], names[v]) for u, v in net["edges"]])
            return m

        if call.startswith("score_"):
            S = {"score_k2": K2Score, "score_bdeu": BDeuScore, "score_bic": BicScore}[call]
            sc = S(df)
            res = [float(sc.score(structure()))] + \
                  [float(sc.local_score(names[i], [names[q] for q in pshuffle[i]])) for i in range(n)]
        elif call in ("hc_k2_cache", "hc_k2_nocache"):
            est = HillClimbSearch(df, use_cache=(call == "hc_k2_cache"))
            res = edges(est.estimate(scoring_method=K2Score(df), max_indegree=3, show_progress=False))
        elif call == "hc_equiv":
            est = HillClimbSearch(df, use_cache=True)
            dag = est.estimate(scoring_method=equiv, max_indegree=3, show_progress=False)
            S = BicScore if equiv == "bic" else BDeuScore
            res = (edges(dag), float(S(df).score(dag)))
        elif call == "exhaustive":
            best = ExhaustiveSearch(df, scoring_method=K2Score(df)).estimate()
            res = float(K2Score(df).score(best))
        elif call == "tree":
            res = edges(TreeSearch(df, root_node=names[0]).estimate(estimator_type="chow-liu", show_progress=False))
        else:
            m = structure()
            if call == "fit_mle":
                m.fit(df, estimator=MaximumLikelihoodEstimator)
            else:
                m.fit(df, estimator=BayesianEstimator, prior_type="BDeu", equivalent_sample_size=4)
            res = {}
            for cpd in m.get_cpds():
                f = cpd.to_factor()
                vals = np_values(f.values)
                for idx in itertools.product(*[range(x) for x in vals.shape]):
                    kk = tuple(sorted((inv[v], int(float(f.state_names[v][idx[ax]]))) for ax, v in enumerate(f.variables)))
                    res[(inv[cpd.variable],) + kk] = float(vals[idx])
        ch = w.diff()
        if ch:
            raise AssertionError("mutated-argument:" + ",".join(ch))
        return res

    try:
        want = run(base_names)
    except AssertionError as e:
        return bad("mutated-argument", {"call": call, "what": str(e)}, key=key, tags=tags)
    except Exception as e:
        return bad("impl-exception", {"call": call, "names": "str", "exc": repr(e)[:300]}, key=key, tags=tags)
    try:
        got = run(new_names, frame)
    except AssertionError as e:
        return bad("mutated-argument", {"call": call, "what": str(e)}, key=key, tags=tags)
    except Exception as e:
        if pandas_limitation(e, style):
            return ok(False, key, tags + ["skip:pandas-label-limitation"])
        fk = None
        if style == "mixed" and isinstance(e, TypeError) and "'<' not supported between instances" in repr(e) \
                and call in ("exhaustive", "fit_mle", "fit_bayes"):
            # diagnosed class: ExhaustiveSearch.all_dags / estimator state counts sort the node names
            fk = SORTED_KEY
        return bad("renaming-raises", {"call": call, "style": style, "names": [repr(x) for x in new_names],
                                       "exc": repr(e)[:300]}, finding=fk, key=key, tags=tags + ["diag:renaming-raises"])

    def close(x, y):
        if isinstance(x, float):
            return common.approx(x, y, 1e-9)
        if isinstance(x, dict):
            return set(x) == set(y) and all(common.approx(x[k], y[k], 1e-9) for k in x)
        if isinstance(x, (list, tuple)) and x and isinstance(x[0], float):
            return len(x) == len(y) and all(common.approx(a, c, 1e-9) for a, c in zip(x, y))
        return x == y

    if frame == "col_perm" and call in ("hc_k2_cache", "hc_k2_nocache", "hc_equiv", "tree"):
        # another column ORDER may legitimately change the search path / orientation: require the same skeleton
        # for the tree and do not compare the hill-climbing DAGs (their scores are compared by score_* cases)
        if call == "tree" and sorted(tuple(sorted(e)) for e in got) != sorted(tuple(sorted(e)) for e in want):
            return bad("renaming-changes-answer", {"call": call, "frame": frame, "string_names": str(want)[:300],
                                                   "renamed": str(got)[:300]}, key=key, tags=tags)
        return ok(True, key, tags)
    if call == "hc_equiv":
        # repaired in /repo (d77f396): candidate operations are enumerated in column order, and a renaming keeps
        # the column ORDER, so the learned DAG and its total score must be equal up to the renaming
        if got[0] != want[0] or not common.approx(got[1], want[1], 1e-9):
            return bad("renaming-changes-answer", {"call": call, "score": equiv, "string_names": str(want)[:300],
                                                   "renamed": str(got)[:300], "style": style},
                       key=key, tags=tags + ["diag:hc-tie-order"])
    elif not close(got, want):
        return bad("renaming-changes-answer", {"call": call, "style": style, "string_names": str(want)[:400],
                                               "renamed": str(got)[:400]}, key=key, tags=tags)
    return ok(True, key, tags)


# ------------------------------------------------------------------- CPDs disagreeing on a shared variable's labels
def run_statenames(case, drv):
    """A child CPD whose labelling of a parent's axis differs from the parent's own CPD (tables are combined
    positionally, so such a model has no meaning): the verdict is rejection (ValueError from check_model and
    from every engine constructor) for every CPD insertion order.  Whatever happens, the outcome must be the
    same for all insertion orders and engines."""
    from pgmpy.inference import VariableElimination, BeliefPropagation

    net, rep, variant = case["net"], case["rep"], case["variant"]
    child, parent = case["child"], case["parent"]
    rng = random.Random(case["pseed"])
    tags = ["statenames", "variant=" + variant, "names=" + rep["nstyle"], "n=%d" % net["n"]]
    key = common.canon_key(["statenames", variant, net, rep, child, parent, case["orders"]])
    b0 = build(net, rep, check=False)
    own = list(b0.snames[parent])
    override = None
    if variant == "reordered":
        perm = list(own)
        while perm == own:
            rng.shuffle(perm)
        override = (child, parent, perm)
    elif variant == "different_set":
        other = list(own)
        other[rng.randrange(len(other))] = "other_state"
        override = (child, parent, other)
    ref = {v: ref_posterior(drv, net, [v], []) for v in (parent, child)}
    outcomes = {}
    for oi, order in enumerate(case["orders"]):
        for eng_name in ("check_model", "ve", "bp"):
            b = build(net, rep, sn_override=override, cpd_order=order, check=False)
            try:
                if eng_name == "check_model":
                    b.model.check_model()
                    res = ("accepted", None)
                else:
                    eng = (VariableElimination if eng_name == "ve" else BeliefPropagation)(b.model)
                    ans = {}
                    for v in (parent, child):
                        phi = eng.query([b.names[v]], show_progress=False)
                        vals = np_values(phi.values)
                        ans[v] = tuple(sorted((repr(phi.state_names[b.names[v]][k]), round(float(vals[k]), 9))
                                              for k in range(len(vals))))
                    res = ("accepted", tuple(sorted(ans.items())))
            except ValueError as e:
                res = ("rejected", None)
            outcomes[(oi, eng_name)] = res
    verdicts = {k: v[0] for k, v in outcomes.items()}
    answers = {k: v[1] for k, v in outcomes.items() if v[0] == "accepted" and v[1] is not None}
    detail = {"variant": variant, "child": child, "parent": parent, "own_order": [repr(x) for x in own],
              "child_labels": None if override is None else [repr(x) for x in override[2]],
              "orders": case["orders"], "verdicts": {"%d/%s" % k: v for k, v in verdicts.items()}}
    if len(set(answers.values())) > 1:
        detail["answers"] = {"%d/%s" % k: str(v)[:200] for k, v in answers.items()}
        return bad("insertion-order-dependent-answer", detail, key=key, tags=tags)
    if len(set(verdicts.values())) > 1:
        return bad("insertion-order-dependent-verdict", detail, key=key, tags=tags)
    verdict = next(iter(verdicts.values()))
    if variant == "same":
        if verdict != "accepted":
            return bad("consistent-model-rejected", detail, key=key, tags=tags)
        # and the accepted answer is the reference posterior
        got = dict(next(iter(answers.values())))
        for v in (parent, child):
            want = {repr(b0.labels[v][c[0]]): float(p) for c, p in ref[v].items()}
            for lab, val in got[v]:
                if not common.approx(val, want[lab], 1e-8):
                    return bad("impl!=model", dict(detail, var=v, got=got[v], want=want), key=key, tags=tags)
    elif verdict != "rejected":
        # a model whose CPDs label a shared axis differently has no positional meaning: the verdict is rejection
        return bad("inconsistent-state-names-accepted", detail, key=key, tags=tags)
    return ok(True, key, tags + ["verdict=" + verdict])


# ------------------------------------------------------------------- sessions on ONE object (other than VE/BP)
SESSION_SUBS = ["sampler", "ci", "fit_again", "score", "edit_ve", "edit_ci", "edit_sampler"]


def gen_session(rng, sub):
    n = rng.randint(2, 5)
    net = gen_connected_net(rng, n, p=rng.choice([0.5, 0.8]), ) if sub in ("ci", "edit_ci") else \
        gen_net(rng, n, p=rng.choice([0.4, 0.8]), tiny=0.0)
    datasub = sub in ("fit_again", "score")
    rep = gen_rep(rng, net, names=("str" if datasub else None),
                  states=("default" if datasub else None))
    steps = []
    for _ in range(rng.randint(3, 6)):
        Q, ev = gen_question(rng, net)
        if ev and prob_evidence(net, ev) < 0.05:
            ev = []
        steps.append({"Q": Q, "ev": ev, "seed": rng.choice([0, 0, 1, 7, rng.randint(0, 10**6)]),
                      "how": rng.choice(["forward", "rejection", "lw", "lw"]), "size": rng.choice([1, 8, 25]),
                      "x": rng.randrange(n), "xs": rng.randrange(2), "edit": rng.random() < 0.5,
                      "eseed": rng.randint(0, 10**9), "pseed": rng.randint(0, 10**9)})
    # deliberately related neighbours: same evidence with another seed, same seed with other evidence
    for i in range(1, len(steps)):
        if rng.random() < 0.5:
            ev = [e for e in steps[i - 1]["ev"] if e[0] not in steps[i]["Q"]]
            if not ev or prob_evidence(net, ev) >= 0.05:
                steps[i]["ev"] = ev
        elif rng.random() < 0.5:
            steps[i]["seed"] = steps[i - 1]["seed"]
    return {"kind": "session", "sub": sub, "net": net, "rep": rep, "steps": steps, "dseed": rng.randint(0, 10**9)}


def new_cpd_numbers(rng, net, i):
    """other numbers for the CPD of node i (same shape): the net after add_cpds(<replacement>)"""
    import copy

    net2 = copy.deepcopy(net)
    ncol = 1
    for q in net["cpt"][i]["parents"]:
        ncol *= net["cards"][q]
    cols = [common.rand_column(rng, net["cards"][i], zeros=False) for _ in range(ncol)]
    net2["cpt"][i]["flat"] = [_fr(cols[c][s]) for s in range(net["cards"][i]) for c in range(ncol)]
    return net2


def run_session(case, drv):
    import numpy as np
    import pandas as pd

    sub, net, rep, steps = case["sub"], case["net"], case["rep"], case["steps"]
    tags = ["session", "sub=" + sub, "len=%d" % len(steps), "names=" + rep["nstyle"], "states=" + rep["sstyle"]]
    key = common.canon_key(["session", sub, net, rep, steps, case["dseed"]])
    b = build(net, rep)
    cache = ArgCache()

    def fail(kind, i, **kw):
        return bad(kind, dict(kw, sub=sub, step=i, of=len(steps), q=steps[i]), key=key, tags=tags)

    if sub == "sampler":
        from pgmpy.sampling import BayesianModelSampling
        from pgmpy.factors.discrete import State

        w = Watch(model=b.model)
        smp = BayesianModelSampling(b.model)

        def draw(s_, bb, st, c=None):
            evl = [State(bb.names[v], bb.labels[v][x]) for v, x in st["ev"]]
            if c is not None:
                evl = c.setdefault(("evl", json_key(st["ev"])), evl)
            if st["how"] == "forward" or not st["ev"]:
                return s_.forward_sample(size=st["size"], seed=st["seed"], show_progress=False)
            if st["how"] == "rejection":
                return s_.rejection_sample(evidence=evl, size=min(st["size"], 8), seed=st["seed"], show_progress=False)
            return s_.likelihood_weighted_sample(evidence=evl, size=st["size"], seed=st["seed"], show_progress=False)

        for i, st in enumerate(steps):
            try:
                d_h = draw(smp, b, st, cache)
                b2 = build(net, rep)
                d_f = draw(BayesianModelSampling(b2.model), b2, st)
            except Exception as e:
                return fail("impl-exception", i, exc=repr(e)[:300])
            if snap(d_h) != snap(d_f):
                return fail("history-dependent-answer", i, what="same seed, shared vs fresh sampler differ")
            d_h.iloc[:, :] = d_h.iloc[::-1].values   # scribbling on a returned frame must not reach the sampler
        if w.diff() or cache.changed():
            return bad("mutated-argument", {"sub": sub, "changed": w.diff() + cache.changed()}, key=key, tags=tags)
    elif sub == "ci":
        from pgmpy.inference import CausalInference

        w = Watch(model=b.model)
        eng = CausalInference(b.model)

        def ask(e_, bb, st, c=None):
            y = [v for v in st["Q"] if v != st["x"]][:1] or [(st["x"] + 1) % net["n"]]
            do = {bb.names[st["x"]]: bb.labels[st["x"]][st["xs"] % net["cards"][st["x"]]]}
            evl = [[v, s_] for v, s_ in st["ev"] if v not in y and v != st["x"]]
            if evl and prob_evidence(net_do(net, st["x"]), evl + [[st["x"], st["xs"] % net["cards"][st["x"]]]]) <= 0:
                evl = []
            evd = {bb.names[v]: bb.labels[v][s_] for v, s_ in evl}
            if c is not None:
                do = c.setdefault(("do", st["x"], st["xs"]), do)
                evd = c.setdefault(("ev", json_key(sorted(evd.items(), key=repr))), evd)
            try:
                r = e_.query([bb.names[v] for v in y], do=do, evidence=evd,
                             inference_algo=("bp" if st["seed"] % 2 else "ve"), show_progress=False)
            except ValueError as e:
                return ("rejected", str(e)[:60])
            return ("table", y, canon_factor(bb, r, y))

        for i, st in enumerate(steps):
            try:
                a_h = ask(eng, b, st, cache)
                b2 = build(net, rep)
                a_f = ask(CausalInference(b2.model), b2, st)
            except Exception as e:
                return fail("impl-exception", i, exc=repr(e)[:300])
            if a_h[0] == a_f[0] == "table" and any(v != v for v in a_h[2].values()) \
                    and [k for k, v in a_h[2].items() if v != v] == [k for k, v in a_f[2].items() if v != v]:
                continue   # 0/0 inside the adjustment formula (an impossible do-state): C13's subject; same on both
            if a_h[0] != a_f[0] or (a_h[0] == "table" and cmp_tables(a_h[2], a_f[2], 1e-12)):
                return fail("history-dependent-answer", i, with_history=str(a_h)[:300], fresh=str(a_f)[:300])
        if w.diff() or cache.changed():
            return bad("mutated-argument", {"sub": sub, "changed": w.diff() + cache.changed()}, key=key, tags=tags)
    elif sub in ("fit_again", "score"):
        from pgmpy.models import BayesianNetwork
        from pgmpy.estimators import (MaximumLikelihoodEstimator, BayesianEstimator, K2Score, BDeuScore, BicScore,
                                      BDsScore, AICScore, ScoreCache)

        rng = random.Random(case["dseed"])
        frames = [make_df(b, net, sample_rows(rng, net, rng.choice([40, 90])), rng.random() < 0.5) for _ in range(2)]

        def struct():
            m = BayesianNetwork()
            m.add_nodes_from(b.model.nodes())
            m.add_edges_from(b.model.edges())
            return m

        def cpd_table(m):
            return sorted((repr(c.variable), [repr(v) for v in c.variables], np.round(np_values(c.values), 12).tolist())
                          for c in m.get_cpds())

        if sub == "fit_again":
            w = Watch(d0=frames[0], d1=frames[1])
            for est, kw in ((MaximumLikelihoodEstimator, {}), (BayesianEstimator, {"prior_type": "BDeu"}),
                            (BayesianEstimator, {"prior_type": "K2"})):
                m = struct()
                m.fit(frames[0], estimator=est, **kw)
                m.fit(frames[1], estimator=est, **kw)      # fit AGAIN on other data: a fresh fit on that data
                f = struct()
                f.fit(frames[1], estimator=est, **kw)
                if cpd_table(m) != cpd_table(f):
                    return bad("history-dependent-answer", {"sub": sub, "estimator": est.__name__, "kw": kw,
                                                            "what": "second fit differs from a fresh fit on the same data"},
                               key=key, tags=tags)
                # one estimator object asked twice, in another node order
                e1 = est(struct(), frames[1])
                nodes = list(b.model.nodes())
                first = {repr(v): np_values(e1.estimate_cpd(v).values).tolist() for v in nodes}
                again = {repr(v): np_values(e1.estimate_cpd(v).values).tolist() for v in reversed(nodes)}
                if first != again:
                    return bad("not-repeatable", {"sub": sub, "estimator": est.__name__}, key=key, tags=tags)
            if w.diff():
                return bad("mutated-argument", {"sub": sub, "changed": w.diff()}, key=key, tags=tags)
        else:
            df = frames[0]
            w = Watch(data=df)
            for S in (K2Score, BDeuScore, BicScore, BDsScore, AICScore):
                sc = S(df)
                cached = ScoreCache(S(df), df)
                asked = []
                for st in steps * 2:
                    v = st["x"]
                    others = [u for u in range(net["n"]) if u != v]
                    random.Random(st["pseed"]).shuffle(others)
                    pa = others[: st["size"] % 3]
                    for plist in (pa, list(reversed(pa))):     # the same parent SET in both orders
                        pn = [b.names[u] for u in plist]
                        got = sc.local_score(b.names[v], pn)
                        gotc = cached.local_score(b.names[v], pn)
                        want = S(df).local_score(b.names[v], list(pn))
                        if not (rel_close(got, want, 1e-12) and rel_close(gotc, want, 1e-12)):
                            return bad("history-dependent-answer",
                                       {"sub": sub, "score": S.__name__, "var": v, "parents": plist, "asked_before": asked[-6:],
                                        "shared": got, "cached": gotc, "fresh": want}, key=key, tags=tags)
                        asked.append([v, plist])
            if w.diff():
                return bad("mutated-argument", {"sub": sub, "changed": w.diff()}, key=key, tags=tags)
    else:
        # ---- the caller EDITS the model the engine was created on (add_cpds replacing a CPD in place).
        #      VariableElimination, CausalInference and BayesianModelSampling hold the caller's model object:
        #      the oracle is an engine freshly built on the current state.
        from pgmpy.inference import VariableElimination, CausalInference
        from pgmpy.sampling import BayesianModelSampling

        Eng = {"edit_ve": VariableElimination, "edit_ci": CausalInference, "edit_sampler": BayesianModelSampling}[sub]
        eng = Eng(b.model)
        cur = net
        for i, st in enumerate(steps):
            if st["edit"]:
                node = st["x"]
                cur = new_cpd_numbers(random.Random(st["eseed"]), cur, node)
                nb_ = build(cur, rep, check=False)
                b.model.add_cpds(nb_.model.get_cpds(b.names[node]))
            try:
                bf = build(cur, rep)
                if sub == "edit_sampler":
                    a_h = snap(eng.forward_sample(size=st["size"], seed=st["seed"], show_progress=False))
                    a_f = snap(Eng(bf.model).forward_sample(size=st["size"], seed=st["seed"], show_progress=False))
                    same = a_h == a_f
                else:
                    names = [b.names[v] for v in st["Q"]]
                    evd = ev_dict(b, st["ev"]) if prob_evidence(cur, st["ev"]) > 0 else {}
                    t_h = canon_factor(b, eng.query(names, evidence=evd, show_progress=False), st["Q"])
                    t_f = canon_factor(bf, Eng(bf.model).query(names, evidence=evd, show_progress=False), st["Q"])
                    same = cmp_tables(t_h, t_f, 1e-12) is None
                    ref = ref_posterior(drv, cur, st["Q"], st["ev"] if evd else [])
                    if cmp_tables(t_f, ref, TOL):
                        return fail("impl!=model", i, err=cmp_tables(t_f, ref, TOL))
                    a_h, a_f = t_h, t_f
            except Exception as e:
                return fail("impl-exception", i, exc=repr(e)[:300])
            if not same:
                return fail("history-dependent-answer", i, what="engine on the edited model vs fresh engine on the current model",
                            with_history=str(a_h)[:300], fresh=str(a_f)[:300])
    return ok(True, key, tags)


# ------------------------------------------------------------------- result independence
RESINDEP_CALLS = ["ve_query", "ve_query_minfill", "ve_nojoint", "bp_query", "ve_map", "ci_query", "sample", "simulate",
                  "to_markov", "do", "model_copy", "cpd_copy", "factor_copy", "factor_ops", "to_factor", "ctor_buffer",
                  "ctor_state_names"]


def scribble(o, depth=0, part="all"):
    """overwrite, in place, what is reachable inside a RETURNED object.  part: 'values' (arrays, frames),
    'state_names' (the lists inside state_names dicts), 'structure' (variables / cardinality / dicts / nodes)"""
    import numpy as np
    import pandas as pd
    import networkx as nx

    V, S, T = part in ("all", "values"), part in ("all", "state_names"), part in ("all", "structure")
    if depth > 4 or o is None:
        return
    if hasattr(o, "fill_") and hasattr(o, "detach"):
        if V:
            o.fill_(7.0)
    elif isinstance(o, np.ndarray):
        if V:
            if o.ndim == 0:
                o[()] = 7
            else:
                o[...] = 7
    elif isinstance(o, pd.DataFrame):
        if V and len(o):
            o.iloc[:, :] = o.iloc[::-1].values
    elif isinstance(o, dict):
        for v in list(o.values()):
            scribble(v, depth + 1, part)
        if T:
            o["zz_extra"] = 1
    elif isinstance(o, list):
        for v in o:
            scribble(v, depth + 1, part)
        if T:
            o.reverse()
    elif isinstance(o, nx.Graph):
        fs = getattr(o, "factors", [])
        for c in list(getattr(o, "cpds", [])) + list(fs if not callable(fs) else []):
            scribble(c, depth + 1, part)
        if T:
            o.add_node("zz_extra")
    elif hasattr(o, "state_names") and hasattr(o, "values"):
        scribble(o.values, depth + 1, part)
        if S:
            for v in o.state_names.values():
                if isinstance(v, list):
                    v.reverse()
                    v.append("zz_extra")
        if T:
            if isinstance(o.variables, list):
                o.variables.reverse()
            try:
                o.cardinality[...] = 9
            except Exception:
                pass


def canon_result(o, depth=0):
    """content of a returned object, independent of axis order (the axis order of a factor is representation)"""
    if hasattr(o, "state_names") and hasattr(o, "values") and hasattr(o, "variables"):
        vals = np_values(o.values)
        out = []
        for idx in itertools.product(*[range(x) for x in vals.shape]):
            out.append((tuple(sorted((repr(v), repr(o.state_names[v][idx[ax]])) for ax, v in enumerate(o.variables))),
                        float(vals[idx])))
        return ("factor", type(o).__name__, repr(getattr(o, "variable", None)), sorted(out))
    if isinstance(o, dict) and depth < 3:
        return ("dict", sorted((repr(k), canon_result(v, depth + 1)) for k, v in o.items()))
    if isinstance(o, list) and depth < 3:
        return ("list", [canon_result(v, depth + 1) for v in o])
    return snap(o)


def run_resindep(case, drv):
    import numpy as np
    from pgmpy.factors.discrete import TabularCPD, DiscreteFactor

    call, net, rep = case["call"], case["net"], case["rep"]
    rng = random.Random(case["qseed"])
    tags = ["resindep", "call=" + call, "backend=" + case.get("backend", "numpy")]
    key = common.canon_key(["resindep", call, net, rep, case["qseed"], case.get("backend")])
    with Backend(case.get("backend", "numpy")):
        b = build(net, rep)
        m = b.model
        Q, ev = gen_question(rng, net)
        names, evd = [b.names[q] for q in Q], ev_dict(b, ev)
        src = {"model": m}
        if call in ("ve_query", "ve_query_minfill", "ve_nojoint", "ve_map"):
            from pgmpy.inference import VariableElimination

            eng = VariableElimination(m)
            if call == "ve_map":
                f = lambda: eng.map_query(names, evidence=evd, show_progress=False)
            else:
                kw = {"elimination_order": "MinFill"} if call == "ve_query_minfill" else {}
                f = lambda: eng.query(names, evidence=evd, joint=(call != "ve_nojoint"), show_progress=False, **kw)
        elif call == "bp_query":
            from pgmpy.inference import BeliefPropagation

            eng = BeliefPropagation(m)
            f = lambda: eng.query(names, evidence=evd, show_progress=False)
        elif call == "ci_query":
            from pgmpy.inference import CausalInference

            eng = CausalInference(m)
            f = lambda: eng.query(names, evidence=evd, show_progress=False)
        elif call == "sample":
            from pgmpy.sampling import BayesianModelSampling

            eng = BayesianModelSampling(m)
            f = lambda: eng.forward_sample(size=6, seed=3, show_progress=False)
        elif call == "simulate":
            f = lambda: m.simulate(n_samples=5, seed=3, show_progress=False)
        elif call == "to_markov":
            f = lambda: m.to_markov_model()
        elif call == "do":
            x = b.names[rng.randrange(net["n"])]
            f = lambda: m.do([x])
        elif call == "model_copy":
            f = lambda: m.copy()
        elif call in ("cpd_copy", "factor_copy", "factor_ops", "to_factor"):
            cpd = m.get_cpds(b.names[rng.randrange(net["n"])])
            fac = cpd.to_factor()
            src["factor"] = fac
            other = rng.choice(m.cpds).to_factor()
            src["other"] = other
            if call == "cpd_copy":
                f = lambda: cpd.copy()
            elif call == "to_factor":
                f = lambda: cpd.to_factor()
            elif call == "factor_copy":
                f = lambda: fac.copy()
            else:
                x = fac.variables[-1]
                f = lambda: [fac.product(other, inplace=False), fac.marginalize([x], inplace=False),
                             fac.maximize([x], inplace=False), fac.reduce([(x, fac.state_names[x][0])], inplace=False),
                             fac.normalize(inplace=False), fac.copy()] + \
                            ([fac + other, fac.divide(other, inplace=False)]
                             if set(other.variables) <= set(fac.variables) else [])
        elif call == "ctor_buffer":
            # constructed from the caller's C-contiguous float64 buffer; the buffer is then reused
            i = rng.randrange(net["n"])
            cpd = m.get_cpds(b.names[i])
            buf = np.array(np_values(cpd.get_values()), dtype=np.float64, order="C", copy=True)
            kw = dict(evidence=list(cpd.variables[1:]) or None, evidence_card=[int(c) for c in cpd.cardinality[1:]] or None,
                      state_names={k: list(v) for k, v in cpd.state_names.items()})
            c1 = TabularCPD(cpd.variable, int(cpd.variable_card), buf, **kw)
            f1 = DiscreteFactor(list(cpd.variables), [int(c) for c in cpd.cardinality], cpd.values)
            c2 = TabularCPD(cpd.variable, int(cpd.variable_card), cpd.get_values(), **kw)
            before = (snap(c1), snap(f1), snap(c2), snap(cpd))
            buf[...] = 1.0 / buf.shape[0]              # the caller reuses its buffer
            c3 = TabularCPD(cpd.variable, int(cpd.variable_card), buf, **kw)
            scribble(f1.values)
            scribble(c2.values)
            after = (snap(c1), before[1], before[2], snap(cpd))
            if before != after:
                return bad("result-aliases-source", {"call": call, "what": "values array shared between an object and "
                                                     "the array / object it was constructed from"}, key=key, tags=tags)
            return ok(True, key, tags)
        elif call == "ctor_state_names":
            i = rng.randrange(net["n"])
            cpd = m.get_cpds(b.names[i])
            sn = {k: list(v) for k, v in cpd.state_names.items()}
            c1 = TabularCPD(cpd.variable, int(cpd.variable_card), np_values(cpd.get_values()),
                            evidence=list(cpd.variables[1:]) or None,
                            evidence_card=[int(c) for c in cpd.cardinality[1:]] or None, state_names=sn)
            before = snap(c1)
            for v in sn.values():                      # the caller goes on using its own lists
                v.reverse()
            if snap(c1) != before:
                return bad("result-aliases-source", {"call": call, "part": "state_names",
                                                     "what": "a CPD keeps the caller's state-name LISTS: editing the "
                                                             "argument afterwards relabels the CPD"}, key=key, tags=tags)
            return ok(True, key, tags)
        else:
            return bad("bad-case", {"call": call}, key=key, tags=tags)
        w = Watch(**src)
        leaks = []
        try:
            r1 = f()
            pristine = canon_result(r1)
            for part in ("values", "state_names", "structure"):
                scribble(r1, part=part)
                if w.diff():
                    leaks.append(part)
                    break          # the source is damaged: a later call is meaningless
            r2 = None if leaks else f()
        except Exception as e:
            import traceback
            return bad("impl-exception", {"call": call, "exc": repr(e)[:300], "tb": traceback.format_exc()[-800:]},
                       key=key, tags=tags)
        if leaks:
            return bad("result-aliases-source",
                       {"call": call, "part": leaks[0], "changed": w.diff(),
                        "what": "editing the RETURNED object in place (%s) changed the source object(s)" % leaks[0]},
                       key=key, tags=tags + ["diag:aliases-" + leaks[0]])
        if r2 is r1:
            return bad("result-aliases-source", {"call": call, "what": "the same object is returned twice"}, key=key, tags=tags)
        if canon_result(r2) != pristine and call not in ("sample", "simulate"):
            return bad("not-repeatable", {"call": call, "what": "second result differs after the first was edited",
                                          "first": str(pristine)[:300], "second": str(canon_result(r2))[:300]},
                       key=key, tags=tags)
    if not backend_clean():
        return bad("backend-not-restored", {}, key=key, tags=tags)
    return ok(True, key, tags)


# ------------------------------------------------------------------- BeliefPropagationWithMessagePassing (factor graphs)
def gen_polytree(rng, n, cards_mode):
    """a DAG whose skeleton is a tree (so that the factor graph of its CPDs has no loop), with nodes of up to
    three parents: factors over up to four variables"""
    parents = {0: []}
    for i in range(1, n):
        j = rng.randrange(i)
        parents[i] = []
        if len(parents[j]) < 3 and rng.random() < 0.65:
            parents[j].append(i)          # the new node becomes a parent of an existing one
        else:
            parents[i].append(j)
    if cards_mode == "equal":
        c = rng.choice([2, 2, 3])
        cards = [c] * n
    else:
        cards = [rng.choice([2, 3]) for _ in range(n)]
        if len(set(cards)) == 1:
            cards[rng.randrange(n)] = 5 - cards[0]
    cpt = []
    for i in range(n):
        ps = parents[i]
        rng.shuffle(ps)
        ncol = 1
        for q in ps:
            ncol *= cards[q]
        cols = [common.rand_column(rng, cards[i], zeros=False) for _ in range(ncol)]
        cpt.append({"parents": ps, "flat": [_fr(cols[c_][s]) for s in range(cards[i]) for c_ in range(ncol)]})
    edges = [[q, i] for i in range(n) for q in parents[i]]
    rng.shuffle(edges)
    return {"n": n, "cards": cards, "edges": edges, "cpt": cpt}


def run_bpmp(case, drv):
    """the same distribution as a factor graph in several representations (variable names, parent orders, axis
    order of every factor, scale of every potential, insertion orders of nodes / factors / edges, state listing
    order): every marginal posterior, with and without evidence / virtual evidence, must equal the extracted
    model's posterior; the factor graph and the arguments are untouched; a second identical question and a
    question after other questions get the same answer."""
    import numpy as np
    from pgmpy.models import FactorGraph
    from pgmpy.factors.discrete import DiscreteFactor, TabularCPD
    from pgmpy.inference import BeliefPropagationWithMessagePassing

    net = case["net"]
    n = net["n"]
    rng = random.Random(case["pseed"])
    maxscope = max(len(c["parents"]) + 1 for c in net["cpt"])
    tags = ["bpmp", "cards=" + case["cards_mode"], "maxscope=%d" % maxscope, "n=%d" % n]
    key = common.canon_key(["bpmp", net, case["pseed"]])
    # questions: every variable, without evidence, with evidence, with virtual evidence
    questions = [([], None)]
    for _ in range(2):
        _, ev = gen_question(rng, net)
        virt = gen_virt(rng, net, {v for v, _ in ev}) if rng.random() < 0.6 else None
        if ev or virt:
            questions.append((ev, virt))
    refs = {}
    for qi, (ev, virt) in enumerate(questions):
        vf = [[[v], [Fraction(a, c) for a, c in e]] for v, e in (virt or [])]
        for v in range(n):
            if v in [x for x, _ in ev]:
                continue
            rest = [u for u in range(n) if u != v and u not in [x for x, _ in ev]]
            tab = drv.call("c16_post", [net["cards"], model_factors(net) + vf, [list(x) for x in ev], rest, [v]])
            refs[(qi, v)] = [common.frac(x) for x in tab]
    for r in range(case["nreps"]):
        rep = gen_rep(rng, net, states="default")
        rep["state_order"] = [rng.sample(range(c), c) for c in net["cards"]]   # states are POSITIONS for this engine
        rep["labels"] = [list(range(c)) for c in net["cards"]]
        b = build(net, rep, check=False)
        fg = FactorGraph()
        fg.add_nodes_from([b.names[i] for i in rep["node_order"]])
        edges = []
        for cpd in b.model.cpds:
            phi = cpd.to_factor()
            axes = list(range(len(phi.variables)))
            rng.shuffle(axes)                                   # another axis order of the same factor
            vals = np.transpose(np_values(phi.values), axes) * (2.0 ** rng.randint(-6, 6))
            phi2 = DiscreteFactor([phi.variables[a] for a in axes], [int(phi.cardinality[a]) for a in axes], vals)
            fg.add_factors(phi2)
            edges += [(v, phi2) for v in phi2.variables]
        rng.shuffle(edges)
        fg.add_edges_from(edges)
        fg.check_model()
        w = Watch(graph=fg)
        eng = BeliefPropagationWithMessagePassing(fg)
        order = list(range(len(questions)))
        rng.shuffle(order)
        for qi in order + order[:1]:                            # the first question is asked again at the end
            ev, virt = questions[qi]
            evd = {b.names[v]: b.order[v].index(s) for v, s in ev}
            vc = None
            if virt:
                vc = []
                for v, e in virt:
                    col = [0.0] * net["cards"][v]
                    for c_ in range(net["cards"][v]):
                        col[b.order[v].index(c_)] = float(Fraction(e[c_][0], e[c_][1]))
                    vc.append(TabularCPD(b.names[v], net["cards"][v], [[x] for x in col]))
            qvars = [v for v in range(n) if v not in [x for x, _ in ev]]
            rng.shuffle(qvars)
            aw = Watch(evidence=evd, virtual_evidence=vc)
            try:
                res = eng.query([b.names[v] for v in qvars], evidence=(evd or None), virtual_evidence=vc)
            except Exception as e:
                import traceback
                return bad("impl-exception", {"engine": "BeliefPropagationWithMessagePassing", "rep": r, "ev": ev, "virt": virt,
                                              "exc": repr(e)[:300], "tb": traceback.format_exc()[-600:]}, key=key, tags=tags)
            for v in qvars:
                vals = np_values(res[b.names[v]].values)
                for p_ in range(net["cards"][v]):
                    want = refs[(qi, v)][b.order[v][p_]]
                    if not rel_close(vals[p_], want, TOL):
                        par = {i: [net["cpt"][i]["parents"][k] for k in rep["par_order"][i]] for i in range(n)
                               if len(net["cpt"][i]["parents"]) > 1}
                        return bad("impl!=model", {"engine": "BeliefPropagationWithMessagePassing", "rep": r, "var": v,
                                                   "state": b.order[v][p_], "got": float(vals[p_]), "want": float(want),
                                                   "ev": ev, "virt": virt, "parent_orders": par,
                                                   "factor_scopes": [[b.idx[x] for x in f.variables] for f in fg.factors]},
                                   key=key, tags=tags)
            if aw.diff():
                return bad("mutated-argument", {"engine": "BeliefPropagationWithMessagePassing", "changed": aw.diff()},
                           key=key, tags=tags)
        if w.diff():
            return bad("mutated-argument", {"engine": "BeliefPropagationWithMessagePassing", "changed": ["factor graph"]},
                       key=key, tags=tags)
    return ok(maxscope >= 3, key, tags)


# ------------------------------------------------------------------- binary factor operations, overlapping scopes
BINOP_STYLES = ["int", "int_desc", "str", "tuple", "mixed", "bigint"]


def gen_binop(rng):
    """two factors with partially overlapping scopes; the second brings 2-3 NEW variables of unequal
    cardinalities, listed in an arbitrary order"""
    nnew = rng.choice([2, 2, 3])
    nf = rng.randint(1, 3)
    nshared = rng.randint(0, min(2, nf))
    nv = nf + nnew
    cards = [rng.choice([2, 3, 4]) for _ in range(nf)]
    new_cards = rng.sample([2, 3, 4, 5], nnew)          # pairwise different
    cards = cards + new_cards
    fscope = list(range(nf))
    rng.shuffle(fscope)
    gscope = rng.sample(range(nf), nshared) + list(range(nf, nv))
    rng.shuffle(gscope)

    def table(scope):
        size = 1
        for v in scope:
            size *= cards[v]
        return [rng.randint(1, 9) for _ in range(size)]

    style = rng.choice(BINOP_STYLES)
    if style == "int":
        names = rng.sample(range(0, 12), nv)
    elif style == "int_desc":                            # listing order opposite to the value order of a set of ints
        names = sorted(rng.sample(range(0, 30), nv), reverse=True)
    elif style == "bigint":
        names = rng.sample(range(300, 5000), nv)
    elif style == "str":
        names = rng.sample(["a", "b", "c", "x1", "x10", "G", "G2", "zeta", "node", "k", "w w", "Q"], nv)
    elif style == "tuple":
        names = [["t", i] for i in rng.sample(range(20), nv)]
    else:
        names = rng.sample([0, "b", 2, "d", ["t", 1], "zz", 7, 3.5], nv)
    return {"kind": "binop", "cards": cards, "fscope": fscope, "gscope": gscope, "fvals": table(fscope),
            "gvals": table(gscope), "names": names, "style": style, "states": rng.choice(["default", "str", "permint"]),
            "backend": rng.choice(["numpy", "numpy", "torch64"]), "sseed": rng.randint(0, 10**9)}


def factor_consistency(phi):
    """scope / cardinality / values shape / state names / assignment() of ONE factor agree with each other"""
    vals = np_values(phi.values)
    vs = list(phi.variables)
    if not (len(vs) == vals.ndim == len(phi.cardinality)):
        return "lengths: %d variables, %d axes, %d cardinalities" % (len(vs), vals.ndim, len(phi.cardinality))
    if list(phi.scope()) != vs:
        return "scope() != variables"
    gc = phi.get_cardinality(vs)
    for i, v in enumerate(vs):
        trio = (int(phi.cardinality[i]), int(vals.shape[i]), len(phi.state_names[v]), int(gc[v]))
        if len(set(trio)) != 1:
            return "axis %d (%r): cardinality %d, values.shape %d, %d state names, get_cardinality %d" % ((i, v) + trio)
        if [phi.name_to_no[v][s] for s in phi.state_names[v]] != list(range(trio[0])):
            return "name_to_no of %r does not number its state names 0..k-1" % (v,)
    import numpy as np
    size = int(np.prod(vals.shape)) if vals.ndim else 1
    try:
        asg = phi.assignment(list(range(size)))
    except Exception as e:
        return "assignment() raises %r" % (e,)
    for k in range(size):
        idx = np.unravel_index(k, vals.shape) if vals.ndim else ()
        want = [(v, phi.state_names[v][int(idx[i])]) for i, v in enumerate(vs)]
        if list(asg[k]) != want:
            return "assignment(%d) = %r, the table's axes say %r" % (k, asg[k], want)
    return None


def run_binop(case, drv):
    import numpy as np

    cards, fs, gs = case["cards"], case["fscope"], case["gscope"]
    tags = ["binop", "style=" + case["style"], "backend=" + case["backend"], "new=%d" % len(set(gs) - set(fs)),
            "shared=%d" % len(set(gs) & set(fs))]
    key = common.canon_key(["binop", case])
    rng = random.Random(case["sseed"])
    names = [_nm(x) for x in case["names"]]
    if case["style"] == "bigint":
        names = [int(str(x)) for x in names]
    labels = []
    for v, c in enumerate(cards):
        if case["states"] == "str":
            labels.append(["s%d_%d" % (v, k) for k in range(c)])
        elif case["states"] == "permint":
            lab = list(range(c))
            rng.shuffle(lab)
            labels.append(lab)
        else:
            labels.append(list(range(c)))

    def exact(scope, flat):
        return {idx: Fraction(flat[k]) for k, idx in enumerate(itertools.product(*[range(cards[v]) for v in scope]))}

    F, G = exact(fs, case["fvals"]), exact(gs, case["gvals"])
    union = fs + [v for v in gs if v not in fs]

    def combine(op, A, sa, B, sb, scope):
        out = {}
        for full in itertools.product(*[range(cards[v]) for v in scope]):
            a = dict(zip(scope, full))
            out[full] = op(A[tuple(a[v] for v in sa)], B[tuple(a[v] for v in sb)])
        return out

    want_sum = combine(lambda x, y: x + y, F, fs, G, gs, union)
    want_prod = combine(lambda x, y: x * y, F, fs, G, gs, union)

    def canon(phi, scope):
        idx_of = {names[v]: v for v in range(len(cards))}
        vals = np_values(phi.values)
        out = {}
        for idx in itertools.product(*[range(x) for x in vals.shape]):
            a = {idx_of[v]: labels[idx_of[v]].index(phi.state_names[v][idx[ax]]) for ax, v in enumerate(phi.variables)}
            out[tuple(a[v] for v in scope)] = float(vals[idx])
        return out

    with Backend(case["backend"]):
        from pgmpy.factors.discrete import DiscreteFactor
        from pgmpy.factors import factor_product, factor_divide
        from pgmpy.factors.FactorDict import FactorDict

        def mk(scope, flat):
            return DiscreteFactor([names[v] for v in scope], [cards[v] for v in scope], [float(x) for x in flat],
                                  state_names={names[v]: list(labels[v]) for v in scope})

        f, g = mk(fs, case["fvals"]), mk(gs, case["gvals"])
        w = Watch(f=f, g=g)
        results = []
        try:
            results.append(("f.sum(g, inplace=False)", f.sum(g, inplace=False), want_sum))
            results.append(("f + g", f + g, want_sum))
            results.append(("g + f", g + f, want_sum))
            results.append(("g.sum(f, inplace=False)", g.sum(f, inplace=False), want_sum))
            fd = FactorDict({"k": f}) + FactorDict({"k": g})
            results.append(("FactorDict + FactorDict", fd["k"], want_sum))
            c1 = f.copy()
            c1.sum(g, inplace=True)
            results.append(("copy.sum(g, inplace=True)", c1, want_sum))
            results.append(("f.product(g, inplace=False)", f.product(g, inplace=False), want_prod))
            results.append(("f * g", f * g, want_prod))
            results.append(("g * f", g * f, want_prod))
            results.append(("factor_product(f, g)", factor_product(f, g), want_prod))
            c2 = g.copy()
            c2.product(f, inplace=True)
            results.append(("copy.product(f, inplace=True)", c2, want_prod))
            h = f.product(g, inplace=False)
            hw = Watch(h=h)
            results.append(("(f*g).divide(g, inplace=False)", h.divide(g, inplace=False), {k_: v_ for k_, v_ in
                            combine(lambda x, y: x, F, fs, G, gs, union).items()}))
            results.append(("(f*g) / f", h / f, combine(lambda x, y: y, F, fs, G, gs, union)))
            results.append(("factor_divide(f*g, g)", factor_divide(h, g), combine(lambda x, y: x, F, fs, G, gs, union)))
            if hw.diff():
                return bad("mutated-argument", {"op": "divide", "changed": ["dividend"]}, key=key, tags=tags)
        except Exception as e:
            import traceback
            return bad("impl-exception", {"op": "binary factor operation", "exc": repr(e)[:300],
                                          "tb": traceback.format_exc()[-700:]}, key=key, tags=tags)
        inputs = {"f": {"variables": [repr(names[v]) for v in fs], "card": [cards[v] for v in fs]},
                  "g": {"variables": [repr(names[v]) for v in gs], "card": [cards[v] for v in gs]}}
        for label, res, want in results:
            e = factor_consistency(res)
            if e:
                return bad("inconsistent-result", dict(inputs, op=label, err=e,
                                                       result_variables=[repr(v) for v in res.variables],
                                                       result_cardinality=[int(c) for c in res.cardinality],
                                                       result_shape=list(np_values(res.values).shape)),
                           key=key, tags=tags)
            if set(res.variables) != {names[v] for v in union}:
                return bad("impl!=spec", dict(inputs, op=label, err="scope %r" % (res.variables,)), key=key, tags=tags)
            e = cmp_tables(canon(res, union), want, TOL)
            if e:
                return bad("impl!=spec", dict(inputs, op=label, err=e), key=key, tags=tags)
        if w.diff():
            return bad("mutated-argument", dict(inputs, changed=w.diff()), key=key, tags=tags)
    if not backend_clean():
        return bad("backend-not-restored", {}, key=key, tags=tags)
    return ok(True, key, tags)
