"""C06 correspondence: pgmpy parameter learning (MLE, Bayesian K2/BDeu/dirichlet, fit_update, EM) vs the
Coq model coq/C06/Model.v (closed forms proved in coq/C06/Props.v).  Every CPD entry is compared by NAMED
assignment (child state name, parent state names), never by position."""
import itertools
import math
import random
from fractions import Fraction

from harness import common
from harness.common import ok, bad

PROP = "C06"
LEVEL = "proof"
HASHSEEDS = {"quick": [0, 1, 2, 3], "thorough": [0, 1, 2, 3, 4, 5, 6, 7]}
BUDGET_S = {"quick": 110, "thorough": 1150}
EXHAUSTIVE = {"quick": False, "thorough": False}
RULE = ("random DAGs on 1..5 data columns (plus sometimes a column outside the model; single-node, edgeless and "
        "isolated-node networks included) and 9-10-parent families, cardinalities 1..4, integer (small codes, large NEIGHBOURING codes above 2^24, yyyymmdd, "
        "around 2^31, 10^15, just below 2^53, negative) / float (values differing in the 8th-9th digit) / bool / pandas "
        "Categorical (ordered or not, with unused categories, explicit or left by boolean-mask filtering) / object "
        "columns, row index RangeIndex / shifted / permuted / gapped / duplicate / string labels / filtered, "
        "declared-but-unseen states (partial state_names dicts in shuffled order, integer states that are not "
        "their positions, the same state names in several variables), unseen parent configurations, `_weight` rows "
        "(exact dyadics: ordinary, 2^-40..2^20 mixed, 2^-200..2^200, whole configurations of total weight ~2^-35, "
        "all tiny, all large, zero weights; MLE also refitted with every weight scaled by 2^-30 and 2^17), "
        "estimators MLE (explicit or as fit()'s default) / K2 / BDeu(ess 0, 1, 5, 2.5, 2^-30, 2^20, scalar, per-node "
        "dict or BayesianEstimator's defaults) / dirichlet array (list, C / Fortran / non-contiguous / int64 "
        "ndarray, entries 0 and 2^-40..2^30) / dirichlet scalar / pseudo_counts with K2 (ignored), prior_type in any "
        "case, n_jobs 1|2|-1, entry points BayesianNetwork.fit, DAG.fit, get_parameters, estimate_cpd, "
        "state_counts, numpy and torch backends; fit_update with existing CPDs added in shuffled order, declared "
        "with shuffled (unsorted) parents and shuffled state names, n_prev None / 0 / 2^-20 .. 10^6; EM without "
        "latents and with one latent variable of cardinality 1..3 (init_cpds for all / some / none of the "
        "latent-involved nodes in shuffled dict order, the rest drawn from seed -- 0 included -- and reproduced for "
        "the model), max_iter 1..3, batch_size None|1|2|3|4|7 against the number of distinct rows, atol "
        "None|0|0.01|0.2 with pgmpy's stopping rule applied to the model's iterates, default/explicit latent_card, "
        "n_jobs 1|2, progress bar on/off, two calls on one EM object; latent-class models with 19-21 children of "
        "cardinality 3-4 started from the generating parameters (every completed row has joint < 1e-10 while every "
        "factor is >= 1/16: per-factor floor inactive), compared with the model's exact E/M-step and with an exact "
        "rational observed-data likelihood that must not decrease over max_iter 1, 2, 3; SESSIONS: (i) one caller-owned partial "
        "state_names dict reused by 2-3 fits on folds whose observed states differ, (ii) one BayesianNetwork object "
        "through fit / fit_update / add_edge / remove_edge / remove_edges_from / remove_node / rejected fits, "
        "compared after every step with the model on the CURRENT graph and data, (iii) one estimator object through "
        "estimate_cpd / state_counts / get_parameters calls with changing node, weighted flag and prior, returned "
        "objects mutated in between; ARGUMENT PURITY after every call: data frame (values, dtypes, categories, "
        "index, columns), state_names, pseudo_counts / equivalent_sample_size / init_cpds / latent_card containers, "
        "the model handed to an estimator, the previous CPD objects of fit_update; rejection stream (node missing "
        "from data, undeclared state, wrong pseudo_counts shape -- also for the LAST node of a multi-node fit, after "
        "which the network must be unchanged --, latent variables with MLE/Bayes, unknown prior_type, weighted "
        "without a `_weight` column, estimator that is not a class).  Closed forms are compared RELATIVE (1e-9) to "
        "the model's exact value at any magnitude; EM at 1e-6.  Restrictions: under the torch backend TabularCPD "
        "builds its tensor through float32 (open finding torch-backend-float32-construction of C03), so torch cases "
        "are compared at 1e-5 relative and get no weights outside the float32 range; torch with n_jobs > 1 uses joblib's "
        "thread backend only (process workers do not inherit pgmpy's backend setting and return numpy CPDs that the "
        "torch-mode parent cannot copy: TypeError, reported); variable names are strings or -- in the fit / fit_update / "
        "estimate_cpd / state_counts streams -- equal-length tuples (name, slice) / (int, int) whose natural order "
        "differs from the order of their string forms, in MultiIndex columns; integer and float names are level "
        "numbers for pandas unstack (state_counts raises), ragged tuples and frozensets cannot label DataFrame "
        "columns, EM needs string names (get_value keywords), and names that do not sort against each other make "
        "sorted(parents) raise, so those cannot occur; the labels and dict keys handed to pgmpy are EQUAL but not "
        "IDENTICAL to the names stored in the graph; BaseEstimator.state_counts gets its parents as list / tuple / "
        "one-shot generator / dict view / pandas Index; 9-12 node chains and trees, row counts 9 / 17 / 33, a "
        "variable with 257-300 states; existing CPDs and EM init_cpds typed with two decimals (column sums 0.99 / "
        "1.00 / 1.01); the network handed to fit_update must validate, so CPDs that "
        "list one variable's states in different orders are outside the domain; an empty data frame declares no "
        "states and is outside the domain; max_iter=0 is outside the domain (probed and tagged only).  A case is "
        "non-trivial when some node has >=1 parent and >=2 states; distinct = distinct canonical input")
TRUSTED_BASE = ["pandas groupby/size/sum/unstack/reindex, numpy transpose/reshape, joblib: modelled by their "
                "documented meaning (counting functions over rows), tied by this correspondence run",
                "float rounding is not modelled: inputs are dyadic rationals, outputs compared at 1e-9 "
                "relative (1e-6 for EM, which iterates and has a convergence cut-off)",
                "EM ascent (observed-data likelihood never decreases) is a THEOREM over the reals for the model "
                "with the 1e-10 floor inactive (C06_em_monotone_abstract / C06_em_monotone_model; standard-library "
                "axioms of the real numbers); on pgmpy itself (floats, floor, convergence cut-off) it is a TEST on "
                "the per-iteration likelihood"]
ASSUMPTIONS = ["variable names are interned to nat ids in Python's sort order of the names (pgmpy sorts parent "
               "names); a state is interned as its index in the declared state list (state_names) or in the "
               "sorted list of seen states",
               "variable names are strings (integer column names are level numbers for pandas unstack, so "
               "state_counts raises for any node with integer-named parents)",
               "pandas 3: str-dtype columns are rejected by preprocess_data, so only int / Categorical / "
               "object columns are fed"]

CLAMP = Fraction(1, 10**10)
STR_POOL = ["b", "a", "C", "a10", "a9", "Z", "_x", "Bb", "d", "aa", "E", "z0",
            # names that are attributes / default labels of pandas objects or look like numbers / positions
            "index", "size", "count", "values", "level_0", "name", "variable", "columns", "0", "1"]


# ------------------------------------------------------------------ generation helpers
def dy(rng, lo=0, hi=16, den=4):
    return [rng.randint(lo, hi), den]


def gen_names(rng, n, tuples=True):
    """string names, or (fit / fit_update / estimate_cpd / state_counts streams only) equal-length tuple names
    (name, slice) / (int, int) as in unrolled temporal models, whose natural order is NOT the order of their
    string forms: ('X', 9) < ('X', 10) but "('X', 10)" < "('X', 9)".
    Integer and float names: pandas' Series.unstack(parents) takes them for level numbers / fails, so pgmpy's
    state_counts raises for any node with parents; ragged tuples and frozensets are not usable as DataFrame
    column labels; EM calls get_value(**{name: ...}) and needs string names (environment limits, see RULE)"""
    if tuples and n <= 12 and rng.random() < 0.18:
        slices = [1, 2, 9, 10, 11, 99, 100]
        if rng.random() < 0.7:
            pool = [(a, t) for a in ["X", "Y", "b"] for t in slices]
        else:
            pool = [(a, t) for a in [1, 2, 10] for t in slices]
        return rng.sample(pool, n)
    return rng.sample(STR_POOL, n)


def fresh(name):
    """an EQUAL but not IDENTICAL name object (class N): the frame's column labels and the dict keys handed to
    pgmpy are never the very objects stored in the graph"""
    if isinstance(name, tuple):
        return tuple(fresh(x) for x in list(name))
    if isinstance(name, str):
        return "".join(list(name)) if len(name) > 1 else (name + "_")[:1]
    return name


def fix_names(case):
    """JSON turns tuple names into lists"""
    def tup(x):
        return tuple(tup(y) for y in x) if isinstance(x, list) else x
    if any(isinstance(x, list) for x in case["names"]):
        case = dict(case)
        case["names"] = [tup(x) for x in case["names"]]
    return case


def gen_col(rng, card, declare_p=0.5, extra_p=0.5, force_declare=False):
    """a column spec: type, universe of raw state names, declared order (indices into universe) or None.
    `card` states are used by the data generator (universe[:card]); extras are declared-but-unseen."""
    typ = rng.choice(["int", "int", "cat", "cat", "obj"])
    if card <= 2 and rng.random() < 0.15:
        typ = "bool"
    nextra = rng.choice([0, 1, 2]) if rng.random() < extra_p else 0
    if typ == "bool":
        nextra = 0
    tot = card + nextra
    if typ == "int" and rng.random() < 0.12:
        typ = "float"
    if typ == "int":
        # state codes: small, or large NEIGHBOURING codes (above 2^24 -- not representable in float32 --, date-like
        # yyyymmdd, around 2^31, just below 2^53 = the largest range float64 holds exactly), negative codes
        base = rng.choice([0, 0, 0, 0, 2**24, 20240101, 2**31 - 6, 2**53 - 13, -6, -(2**24) - 12, 10**15])
        univ = [base + k_ for k_ in rng.sample(range(0, 12), tot)]
    elif typ == "float":
        # float columns whose values differ in the 8th-9th significant digit
        base = rng.choice([1.0, 0.1, 12345.678, -3.5, 16777216.0])
        univ = [base + k_ * abs(base) * 1e-8 for k_ in rng.sample(range(0, 12), tot)]
    elif typ == "bool":
        univ = rng.sample([False, True], tot)
    else:
        univ = rng.sample(["x", "y", "z", "w", "Y", "x1", "k", "m0", "A", "q"], tot)
    declared = None
    if force_declare or rng.random() < declare_p:
        declared = list(range(tot))
        rng.shuffle(declared)
    return {"type": typ, "univ": univ, "declared": declared, "used": card,
            "ordered": typ == "cat" and rng.random() < 0.25}


def gen_rows(rng, cols, nrows, skew=True):
    rows = []
    # leave some parent configurations unseen: draw from a small pool of patterns half of the time
    pool = None
    if skew and rng.random() < 0.5:
        pool = [[rng.randrange(c["used"]) for c in cols] for _ in range(rng.randint(1, 4))]
    for _ in range(nrows):
        if pool and rng.random() < 0.8:
            rows.append(list(rng.choice(pool)))
        else:
            rows.append([rng.randrange(c["used"]) for c in cols])
    return rows


def canon_states(col, seen):
    """canonical state order (list of universe indices): declared order, else Python-sorted seen values"""
    if col["declared"] is not None:
        return list(col["declared"])
    s = sorted(set(seen), key=lambda i: col["univ"][i])
    return s


def col_states(case):
    """per variable: canonical list of universe indices"""
    out = []
    for i, c in enumerate(case["cols"]):
        out.append(canon_states(c, [r[i] for r in case["rows"]]))
    return out


def vids(names):
    order = sorted(range(len(names)), key=lambda i: names[i])
    vid = [0] * len(names)
    for rank, i in enumerate(order):
        vid[i] = rank
    return vid


def parents_of(case, i):
    return [u for (u, v) in case["edges"] if v == i]


def dyw(rng, lo, hi):
    """an exact dyadic weight m * 2^e, e in [lo, hi], as [num, den]"""
    m = rng.choice([1, 1, 3, 5, 7])
    e = rng.randint(lo, hi)
    return [m * 2**e, 1] if e >= 0 else [m, 2**(-e)]


def gen_weights(rng, rows, mode):
    """`_weight` columns.  ordinary: small dyadics; wide: 2^-40..2^20 mixed in one frame; tiny-config: every row
    with one chosen state of one chosen column (a whole parent configuration / a root state) has a weight of order
    2^-33..2^-40 (non-zero, unequal) while the rest is ordinary; all-tiny / huge: every weight tiny / large;
    zeros: some weights exactly 0, sometimes a whole configuration"""
    if mode == "ordinary":
        return [rng.choice([[1, 1], [1, 2], [2, 1], [1, 4], [3, 2], [5, 1], [3, 8]]) for _ in rows]
    if mode == "wide":
        return [dyw(rng, -40, 20) for _ in rows]
    if mode == "extreme":
        return [dyw(rng, -200, 200) for _ in rows]
    if mode == "all-tiny":
        return [dyw(rng, -40, -31) for _ in rows]
    if mode == "huge":
        return [dyw(rng, 10, 20) for _ in rows]
    c = rng.randrange(len(rows[0]))
    v = rng.choice(rows)[c]
    out = []
    for r in rows:
        hit = r[c] == v
        if mode == "tiny-config":
            out.append(dyw(rng, -40, -33) if hit else rng.choice([[1, 1], [1, 2], [2, 1], [3, 2], [5, 1]]))
        else:  # zeros
            if hit and rng.random() < 0.85:
                out.append([0, 1])
            else:
                out.append([0, 1] if rng.random() < 0.15 else rng.choice([[1, 1], [1, 2], [2, 1], [3, 8]]))
    return out


def gen_fit(rng, tier):
    n = rng.choice([1, 2, 2, 3, 3, 4, 4, 5, 5])
    extra = rng.random() < 0.2
    names = gen_names(rng, n + (1 if extra else 0))
    nodes, edges = common.rand_dag(rng, n)
    cards = [rng.choice([1, 2, 2, 3, 3, 4]) for _ in names]
    cols = [gen_col(rng, c) for c in cards]
    nrows = rng.choice([1, 2, 3, 5, 8, 9, 12, 17, 20, 33])
    rows = gen_rows(rng, cols, nrows)
    weights, wmode = None, None
    if rng.random() < 0.45:
        wmode = rng.choice(["ordinary", "ordinary", "wide", "tiny-config", "all-tiny", "zeros", "huge", "extreme"])
        weights = gen_weights(rng, rows, wmode)
    colorder = list(range(len(names)))
    rng.shuffle(colorder)
    case = {"kind": "fit", "names": names, "nodes": nodes, "edges": [list(e) for e in edges], "cols": cols,
            "rows": rows, "weights": weights, "wmode": wmode, "colorder": colorder,
            "api": rng.choice(["bnfit", "bnfit", "dagfit", "est", "estimate_cpd"]),
            "index": rng.choice(INDEX_MODES), "backend": "torch" if rng.random() < 0.08 else "numpy",
            "omit_estimator": rng.random() < 0.4, "ptcase": rng.choice(["std", "lower", "upper"]),
            "pc_form": rng.choice(["list", "nd", "F", "view", "int"]),
            "n_jobs": rng.choice([2, 2, -1]) if rng.random() < 0.08 else 1, "loky": tier == "thorough",
            "mseed": rng.randint(0, 10**9)}
    if case["backend"] == "torch":
        # joblib's process workers start with the default (numpy) backend: see RULE
        case["loky"] = False
    if case["backend"] == "torch" and wmode == "extreme":
        case["wmode"] = "wide"
        case["weights"] = gen_weights(rng, rows, "wide")
    est = rng.choice(["mle", "mle", "k2", "bdeu", "bdeu", "dirichlet", "dirichlet", "scalar"])
    case["est"] = est
    if est == "bdeu":
        case["ess"] = rng.choice([[1, 1], [5, 1], [5, 1], [5, 2], [0, 1], [1, 2**30], [2**20, 1]])
        case["be_default"] = case["ess"] == [5, 1] and rng.random() < 0.6   # no prior arguments at all
    if est == "k2":
        case["k2_pc"] = rng.random() < 0.3    # pseudo_counts passed with K2: documented to be ignored
    if est == "scalar":
        case["c"] = rng.choice([[1, 1], [1, 2], [0, 1], [3, 1]])
    if est == "dirichlet":
        st = col_states(case)
        vid = vids(names)
        pcs = {}
        for i in nodes:
            ps = sorted(parents_of(case, i), key=lambda u: vid[u])
            q = 1
            for u in ps:
                q *= len(st[u])
            zero_p = rng.choice([0.0, 0.0, 0.3, 1.0])
            widep = rng.random() < 0.3
            pcs[str(i)] = [[([0, 1] if rng.random() < zero_p else (dyw(rng, -40, 30) if widep else dy(rng, 1, 20, 4)))
                            for _ in range(q)] for _ in range(len(st[i]))]
        case["pcs"] = pcs
    return case


def gen_reject(rng):
    case = gen_fit(rng, "quick")
    case["n_jobs"] = 1
    case["weights"] = None
    what = rng.choice(["missing-col", "undeclared", "shape", "shape", "latent-mle", "bad-prior-type",
                       "weighted-no-column", "estimator-not-class"])
    case["kind"] = "reject"
    case["what"] = what
    case["backend"] = "numpy"
    if what in ("latent-mle", "bad-prior-type", "weighted-no-column", "estimator-not-class"):
        if case["est"] == "dirichlet":
            case["est"] = "k2"
            case.pop("pcs", None)
        if what == "bad-prior-type" and case["est"] == "mle":
            case["est"] = "k2"
        case["be_default"] = False
        return case
    n = len(case["nodes"])
    if what == "missing-col":
        case["drop"] = rng.choice(case["nodes"])
        if case["est"] == "dirichlet":
            case["est"] = "k2"
            case.pop("pcs", None)
    elif what == "undeclared":
        # declare a list that lacks one SEEN state of one model variable
        i = rng.choice(case["nodes"])
        col = case["cols"][i]
        seen = sorted(set(r[i] for r in case["rows"]))
        gone = rng.choice(seen)
        col["declared"] = [s for s in range(len(col["univ"])) if s != gone]
        rng.shuffle(col["declared"])
        if case["est"] == "dirichlet":
            case["est"] = "mle"
            case.pop("pcs", None)
    else:
        case["est"] = "dirichlet"
        st = col_states(case)
        vid = vids(case["names"])
        pcs = {}
        victim = rng.choice(case["nodes"])
        for i in case["nodes"]:
            ps = sorted(parents_of(case, i), key=lambda u: vid[u])
            q = 1
            for u in ps:
                q *= len(st[u])
            r = len(st[i])
            if i == victim:
                if rng.random() < 0.5:
                    q += 1
                else:
                    r += 1
            pcs[str(i)] = [[dy(rng, 1, 20, 4) for _ in range(q)] for _ in range(r)]
        case["pcs"] = pcs
    return case


def rand_col(rng, r, zeros):
    """r dyadic rationals summing to 1 (exact floats); all positive unless zeros"""
    den = 2 ** rng.choice([3, 4, 6])
    base = 0 if zeros else 1
    parts = [base] * r
    for _ in range(den - base * r):
        parts[rng.randrange(r) if rng.random() < 0.7 else 0] += 1
    rng.shuffle(parts)
    return [Fraction(x, den) for x in parts]


def decimal_col(rng, r):
    """a column typed with two decimals: sums to 1 within check_model's 0.01 tolerance but not exactly"""
    parts = [1] * r
    for _ in range(100 - r):
        parts[rng.randrange(r)] += 1
    off = rng.choice([-1, 0, 0, 1]) if r > 1 else 0      # 0.99 / 1.00 / 1.01
    k_ = rng.randrange(r)
    if parts[k_] + off >= 1:
        parts[k_] += off
    return [Fraction(x, 100) for x in parts]


def rand_cpd_table(rng, r, q, zeros=True, decimals=False):
    cols = [decimal_col(rng, r) if decimals else rand_col(rng, r, zeros) for _ in range(q)]
    return [[[cols[j][x].numerator, cols[j][x].denominator] for j in range(q)] for x in range(r)]


def gen_fit_update(rng, tier):
    n = rng.randint(2, 5)
    names = gen_names(rng, n)
    nodes, edges = common.rand_dag(rng, n, p=rng.choice([0.5, 0.7, 0.9]))
    # unequal cardinalities matter: a transposed square table could hide a parent-order slip
    cards = [rng.choice([1, 2, 2, 3, 3, 4]) for _ in names]
    cols = [gen_col(rng, c, force_declare=True, extra_p=0.3) for c in cards]
    for c in cols:
        if c["type"] == "obj":
            c["type"] = "cat"
    rows = gen_rows(rng, cols, rng.choice([1, 2, 4, 8, 15]))
    colorder = list(range(n))
    rng.shuffle(colorder)
    case = {"kind": "fit_update", "names": names, "nodes": nodes, "edges": [list(e) for e in edges], "cols": cols,
            "rows": rows, "weights": None, "colorder": colorder, "n_jobs": rng.choice([2, -1]) if rng.random() < 0.06 else 1,
            "n_prev": rng.choice([None, None, [1, 1], [8, 1], [3, 1], [5, 2], [100, 1], [0, 1], [1, 2**20], [10**6, 1]]),
            "index": rng.choice(INDEX_MODES), "backend": "torch" if rng.random() < 0.08 else "numpy",
            "mseed": rng.randint(0, 10**9)}
    prev = {}
    dec = rng.random() < 0.25     # existing CPDs typed with two decimals (valid, not exactly normalised)
    for i in nodes:
        ps = parents_of(case, i)
        rng.shuffle(ps)
        q = 1
        for u in ps:
            q *= len(cols[u]["declared"])
        prev[str(i)] = {"parents": ps, "table": rand_cpd_table(rng, len(cols[i]["declared"]), q, decimals=dec)}
    case["prev"] = prev
    case["decimals"] = dec
    return case


def gen_em(rng, tier, latent):
    n = rng.randint(2, 4)
    names = gen_names(rng, n + (1 if latent else 0), tuples=False)
    nodes, edges = common.rand_dag(rng, n, p=rng.choice([0.35, 0.6]))
    cards = [rng.choice([1, 2, 2, 3]) for _ in range(n)]
    cols = [gen_col(rng, c, declare_p=0.3, extra_p=0.3) for c in cards]
    rows = gen_rows(rng, cols, rng.choice([2, 4, 6, 9, 12] if latent else [2, 4, 6, 9, 12, 16]), skew=False)
    colorder = list(range(n))
    rng.shuffle(colorder)
    case = {"kind": "em1" if latent else "em0", "names": names, "nodes": nodes, "edges": [list(e) for e in edges],
            "cols": cols, "rows": rows, "weights": None, "colorder": colorder, "lat": None,
            # optional parameters of get_parameters: batch size of the E-step relative to the number of DISTINCT
            # rows (non-divisors included), convergence tolerance, progress bar, default latent cardinality
            "batch_size": rng.choice([None, None, 1, 2, 3, 4, 7]), "atol": rng.choice([None, None, None, 0.01, 0.2, 0]),
            "show_progress": rng.random() < 0.3, "lc_default": rng.random() < 0.5, "probe0": rng.random() < 0.15,
            "index": rng.choice(INDEX_MODES), "backend": "torch" if rng.random() < 0.06 else "numpy",
            "em_n_jobs": 2 if rng.random() < 0.1 else 1, "objsession": rng.random() < 0.3,
            "mseed": rng.randint(0, 10**9)}
    st = col_states(case)
    cardof = {i: len(st[i]) for i in range(n)}
    if latent:
        L = n
        case["lat"] = L
        case["lat_card"] = rng.choice([2, 2, 2, 3, 3, 1])
        cardof[L] = case["lat_card"]
        # the latent gets 1..3 children and possibly a parent
        kids = rng.sample(range(n), rng.randint(1, min(3, n)))
        for k in kids:
            case["edges"].append([L, k])
        if rng.random() < 0.3:
            cand = [v for v in range(n) if v not in kids and not _reaches(case["edges"], L, v)]
            if cand:
                case["edges"].append([rng.choice(cand), L])
        rng.shuffle(case["edges"])
        need = set([L] + kids)
        case["mode"] = rng.choice(["init", "init", "seed", "partial"])
        case["seed"] = rng.choice([0, rng.randint(0, 1000)])
    else:
        need = set()
        case["mode"] = "init"
    extra_init = set(v for v in range(n) if rng.random() < 0.4)
    dec = rng.random() < 0.2
    case["decimals"] = dec
    init = {}
    if case["mode"] == "partial":
        # init_cpds for only some of the latent-involved nodes; the rest is drawn by pgmpy from `seed`
        need = set(rng.sample(sorted(need), rng.randint(1, len(need) - 1))) if len(need) > 1 else set()
    if case["mode"] in ("init", "partial"):
        for i in sorted(need | extra_init):
            ps = parents_of(case, i)
            rng.shuffle(ps)
            q = 1
            for u in ps:
                q *= cardof[u]
            init[str(i)] = {"parents": ps, "table": rand_cpd_table(rng, cardof[i], q, zeros=False, decimals=dec)}
    case["init"] = init
    return case


def gen_emdeep(rng, tier):
    """latent-class model: one latent with 19-21 observed children of cardinality 3-4, started from the generating
    parameters: every completed row has a joint probability far below pgmpy's 1e-10 floor although every single
    factor is >= 1/16 (so the per-factor floor is inactive and the EM-ascent theorem applies)"""
    nch = rng.choice([19, 20, 21])
    names = rng.sample(STR_POOL, nch + 1)
    L = nch
    lc = rng.choice([2, 2, 3])
    cards = [4 if rng.random() < 0.8 else 3 for _ in range(nch)]
    cols = [gen_col(rng, c, declare_p=0.3, extra_p=0.0) for c in cards]
    pat = {4: [[2, 3, 5, 6], [1, 4, 5, 6], [4, 4, 4, 4], [3, 3, 4, 6]], 3: [[5, 5, 6], [4, 6, 6], [6, 6, 4]]}
    init = {}
    lparts = {2: [[8, 8], [6, 10]], 3: [[5, 5, 6], [4, 6, 6]]}[lc]
    lp = rng.choice(lparts)
    init[str(L)] = {"parents": [], "table": [[[x, 16]] for x in lp]}
    tables = []
    for i in range(nch):
        colsl = []
        for _ in range(lc):
            pcol = list(rng.choice(pat[cards[i]]))
            rng.shuffle(pcol)
            colsl.append(pcol)
        tables.append(colsl)
    rows = []
    for _ in range(rng.choice([12, 18, 24])):
        l = rng.choices(range(lc), weights=lp)[0]
        rows.append([rng.choices(range(cards[i]), weights=tables[i][l])[0] for i in range(nch)])
    # states are interned through the canonical order, the tables above are in universe order: make them agree
    case = {"kind": "em1", "names": names, "nodes": list(range(nch)), "edges": [[L, i] for i in range(nch)],
            "cols": cols, "rows": rows, "weights": None, "colorder": list(range(nch)), "lat": L, "lat_card": lc,
            "mode": "init", "seed": 0, "init": init, "batch_size": rng.choice([None, 5]), "atol": 0,
            "show_progress": False, "lc_default": False, "probe0": False, "index": rng.choice(INDEX_MODES),
            "backend": "numpy", "em_n_jobs": 1, "objsession": False, "mseed": rng.randint(0, 10**9), "deep": True,
            # the model's exact E/M-step for iteration 1 only: from iteration 2 on the exact rationals of 20
            # rounded factors per row cost minutes; iterations 2, 3 are covered by the exact likelihood assertion
            "model_iters": 1}
    rng.shuffle(case["edges"])
    rng.shuffle(case["colorder"])
    # every universe state must be seen or declared so that the init tables have the right shape
    st = col_states(case)
    for i in range(nch):
        if len(st[i]) != cards[i]:
            cols[i]["declared"] = list(range(cards[i]))
    st = col_states(case)
    for i in range(nch):   # init = the generating parameters, rows in the canonical state order
        init[str(i)] = {"parents": [L], "table": [[[tables[i][l][u], 16] for l in range(lc)] for u in st[i]]}
    return case


def _reaches(edges, a, b):
    seen, stack = set(), [a]
    while stack:
        u = stack.pop()
        if u == b:
            return True
        if u in seen:
            continue
        seen.add(u)
        stack += [v for (x, v) in edges if x == u]
    return False


SESSION_OPS = ["bnfit-mle", "bnfit-mle", "bnfit-k2", "bnfit-bdeu", "dagfit-mle", "est-mle", "est-k2", "em"]


def gen_session(rng, tier):
    """ONE partial state_names dict (some variables declared, the others left to the data) reused by 2-3
    successive fits on data sets (folds) whose OBSERVED states of the undeclared variables differ"""
    n = rng.randint(2, 4)
    names = gen_names(rng, n, tuples=False)
    nodes, edges = common.rand_dag(rng, n, p=rng.choice([0.5, 0.7, 0.9]))
    flags = [rng.random() < 0.45 for _ in range(n)]
    if all(flags):
        flags[rng.randrange(n)] = False
    if not any(flags):
        flags[rng.randrange(n)] = True
    cols = []
    for d in flags:
        c = gen_col(rng, rng.choice([2, 3, 3, 4]), declare_p=0.0, extra_p=0.5 if d else 0.0, force_declare=d)
        cols.append(c)
    und = [i for i in range(n) if not flags[i]]
    nf = rng.choice([2, 2, 3])
    folds, prev_allowed = [], None
    for f in range(nf):
        while True:
            allowed = {}
            for i in range(n):
                full = list(range(cols[i]["used"]))
                if i in und and rng.random() < 0.75:
                    allowed[i] = sorted(rng.sample(full, rng.randint(1, len(full))))
                else:
                    allowed[i] = full
            if prev_allowed is None or any(allowed[i] != prev_allowed[i] for i in und):
                break
        rows = []
        nrows = rng.choice([3, 5, 8, 12])
        for r_ in range(nrows):
            rows.append([rng.choice(allowed[i]) for i in range(n)])
        # every allowed state of an undeclared variable does occur (so the folds really differ)
        for i in und:
            for k_, sidx in enumerate(allowed[i]):
                rows[k_ % nrows][i] = sidx if k_ < nrows else rows[k_ % nrows][i]
        folds.append(rows)
        prev_allowed = {i: sorted(set(r[i] for r in rows)) for i in range(n)}
    colorder = list(range(n))
    rng.shuffle(colorder)
    return {"kind": "session", "names": names, "nodes": nodes, "edges": [list(e) for e in edges], "cols": cols,
            "rows": folds[0], "folds": folds, "ops": [rng.choice(SESSION_OPS) for _ in folds], "weights": None,
            "colorder": colorder, "ess": [5, 1], "mseed": rng.randint(0, 10**9), "index": rng.choice(INDEX_MODES)}


def _acyclic_with(edges, e):
    return not _reaches(edges, e[1], e[0])


def gen_objsession(rng, tier):
    """ONE BayesianNetwork object through a sequence of fit / fit_update / graph edits (add_edge, remove_edge,
    remove_edges_from, remove_node) / rejected fits; after every fit the CPDs must be the model's for the CURRENT
    graph and the CURRENT data, after a rejected call the network must be what it was"""
    n = rng.randint(2, 4)
    names = gen_names(rng, n)
    nodes, edges = common.rand_dag(rng, n, p=rng.choice([0.4, 0.7]))
    cols = []
    for _ in range(n):
        c = gen_col(rng, rng.choice([1, 2, 2, 3]), force_declare=True, extra_p=0.3)
        if c["type"] == "obj":
            c["type"] = "cat"
        cols.append(c)
    cur_nodes, cur_edges = list(nodes), [list(e) for e in edges]
    steps, has = [], False
    nsteps = rng.randint(4, 6)
    for k in range(nsteps):
        last = k == nsteps - 1
        opts = ["fit", "fit"]
        if has:
            opts += ["fit_update", "fit_update", "bad_fit"]
        if not last:
            opts += ["add_edge", "remove_edge", "remove_edges_from", "remove_node", "bad_fit"]
        if k == 0 or (last and not has):
            opts = ["fit"]
        op = rng.choice(opts)
        rows = gen_rows(rng, cols, rng.choice([2, 4, 7, 10]))
        if op == "fit":
            steps.append({"op": "fit", "est": rng.choice(["mle", "k2", "bdeu"]), "rows": rows})
            has = True
        elif op == "fit_update":
            steps.append({"op": "fit_update", "rows": rows, "n_prev": rng.choice([None, [1, 1], [6, 1], [5, 2]])})
        elif op == "bad_fit":
            steps.append({"op": "bad_fit", "what": rng.choice(["undeclared", "shape"]), "rows": rows,
                          "victim": rng.randrange(len(cur_nodes))})
        elif op == "add_edge":
            cand = [[u, v] for u in cur_nodes for v in cur_nodes if u != v and [u, v] not in cur_edges
                    and [v, u] not in cur_edges and _acyclic_with(cur_edges, [u, v])]
            if not cand:
                continue
            e = rng.choice(cand)
            cur_edges.append(e)
            steps.append({"op": "add_edge", "e": e})
            has = False
        elif op in ("remove_edge", "remove_edges_from"):
            if not cur_edges:
                continue
            e = rng.choice(cur_edges)
            cur_edges.remove(e)
            steps.append({"op": op, "e": e})
            has = False
        else:
            if len(cur_nodes) < 2:
                continue
            v = rng.choice(cur_nodes)
            cur_nodes.remove(v)
            cur_edges = [e for e in cur_edges if v not in e]
            steps.append({"op": "remove_node", "v": v})
            has = False
    if not has:
        steps.append({"op": "fit", "est": rng.choice(["mle", "k2"]), "rows": gen_rows(rng, cols, 5)})
    colorder = list(range(n))
    rng.shuffle(colorder)
    return {"kind": "objsession", "names": names, "nodes": nodes, "edges": [list(e) for e in edges], "cols": cols,
            "rows": steps[0]["rows"], "steps": steps, "weights": None, "colorder": colorder, "ess": [5, 1],
            "mseed": rng.randint(0, 10**9), "index": rng.choice(INDEX_MODES),
            "backend": "torch" if rng.random() < 0.08 else "numpy"}


def gen_estsession(rng, tier):
    """ONE estimator object: a sequence of estimate_cpd / state_counts / get_parameters calls with changing
    node, weighted flag and prior; returned objects are mutated between calls"""
    case = gen_fit(rng, tier)
    if len(case["nodes"]) == 1 and rng.random() < 0.5:
        case = gen_fit(rng, tier)
    case["kind"] = "estsession"
    case["n_jobs"] = 1
    case["weights"] = gen_weights(rng, case["rows"], rng.choice(["ordinary", "ordinary", "tiny-config", "zeros"]))
    case["cls"] = rng.choice(["mle", "be"])
    case.pop("pcs", None)
    steps = []
    for _ in range(rng.randint(4, 7)):
        st = {"call": rng.choice(["estimate_cpd", "estimate_cpd", "state_counts", "get_parameters"]),
              "node": rng.choice(case["nodes"]), "weighted": rng.random() < 0.5, "mutate": rng.random() < 0.7}
        if case["cls"] == "be":
            pr = rng.choice(["k2", "bdeu", "scalar"])
            st["prior"] = pr
            if pr == "bdeu":
                st["ess"] = rng.choice([[1, 1], [5, 1], [5, 2]])
            if pr == "scalar":
                st["c"] = rng.choice([[1, 1], [1, 2], [3, 1]])
        steps.append(st)
    case["steps"] = steps
    return case


def gen_wide(rng, tier):
    """one child with 9-10 parents (more than 8 variables in one factor; a 10-dimensional transpose in fit_update)"""
    k = rng.choice([9, 9, 10])
    names = rng.sample(STR_POOL, k + 1)
    cards = [rng.choice([2, 2, 3])] + [rng.choice([1, 2, 2, 2]) for _ in range(k)]
    upd = rng.random() < 0.5
    cols = [gen_col(rng, c, declare_p=0.5, extra_p=0.0, force_declare=upd) for c in cards]
    for c in cols:
        if c["type"] == "obj":
            c["type"] = "cat"
    edges = [[p, 0] for p in range(1, k + 1)]
    rng.shuffle(edges)
    nodes = list(range(k + 1))
    rng.shuffle(nodes)
    rows = gen_rows(rng, cols, rng.choice([8, 15, 25]))
    colorder = list(range(k + 1))
    rng.shuffle(colorder)
    case = {"names": names, "nodes": nodes, "edges": edges, "cols": cols, "rows": rows, "weights": None,
            "colorder": colorder, "n_jobs": 1, "mseed": rng.randint(0, 10**9), "index": rng.choice(INDEX_MODES),
            "backend": "numpy", "nometa": True, "wide": True}
    if upd:
        case["kind"] = "fit_update"
        case["n_prev"] = rng.choice([None, [4, 1]])
        prev = {}
        for i in nodes:
            ps = parents_of(case, i)
            rng.shuffle(ps)
            q = 1
            for u in ps:
                q *= len(cols[u]["declared"])
            prev[str(i)] = {"parents": ps, "table": rand_cpd_table(rng, len(cols[i]["declared"]), q)}
        case["prev"] = prev
    else:
        case["kind"] = "fit"
        case["est"] = rng.choice(["mle", "k2"])
        case["api"] = rng.choice(["bnfit", "est", "estimate_cpd"])
        case["wmode"] = None
    return case


def gen_chain(rng, tier):
    """9-12 nodes in a chain or a random tree (mid-sized: more nodes than any batch / loop threshold of 8)"""
    n = rng.choice([9, 10, 11, 12])
    names = rng.sample(STR_POOL, n)
    order = list(range(n))
    rng.shuffle(order)
    edges = []
    for k_ in range(1, n):
        edges.append([order[k_ - 1] if rng.random() < 0.6 else order[rng.randrange(k_)], order[k_]])
    rng.shuffle(edges)
    cols = [gen_col(rng, rng.choice([2, 2, 3]), declare_p=0.3, extra_p=0.2) for _ in range(n)]
    rows = gen_rows(rng, cols, rng.choice([9, 17, 33]))
    nodes = list(range(n))
    rng.shuffle(nodes)
    colorder = list(range(n))
    rng.shuffle(colorder)
    return {"kind": "fit", "names": names, "nodes": nodes, "edges": edges, "cols": cols, "rows": rows, "weights": None,
            "wmode": None, "colorder": colorder, "api": rng.choice(["bnfit", "dagfit", "est"]), "n_jobs": rng.choice([1, 1, 2]),
            "loky": False, "mseed": rng.randint(0, 10**9), "index": rng.choice(INDEX_MODES), "backend": "numpy",
            "est": rng.choice(["mle", "k2", "bdeu"]), "ess": [5, 1], "nometa": True, "chain": True}


def gen_manystates(rng, tier):
    """a variable with more than 256 states (257..300 integer codes), as a root, a child and a parent"""
    big = rng.choice([257, 260, 300])
    names = rng.sample(STR_POOL, 3)
    base = rng.choice([0, 1000, 2**24])
    cols = [{"type": "int", "univ": [base + 3 * k_ for k_ in range(big)], "declared": None if rng.random() < 0.5 else list(range(big)),
             "used": big, "ordered": False},
            gen_col(rng, 2, declare_p=0.5, extra_p=0.0), gen_col(rng, 2, declare_p=0.5, extra_p=0.0)]
    edges = rng.choice([[[0, 1]], [[1, 0]], [[0, 1], [2, 0]], []])
    rows = [[k_ % big if k_ < big else rng.randrange(big), rng.randrange(2), rng.randrange(2)] for k_ in range(big + 20)]
    rng.shuffle(rows)
    return {"kind": "fit", "names": names, "nodes": [0, 1, 2], "edges": [list(e) for e in edges], "cols": cols, "rows": rows,
            "weights": None, "wmode": None, "colorder": [2, 0, 1], "api": rng.choice(["bnfit", "est"]), "n_jobs": 1, "loky": False,
            "mseed": rng.randint(0, 10**9), "index": "range", "backend": "numpy", "est": rng.choice(["mle", "k2"]),
            "nometa": True, "manystates": True}


def cases(tier, seed):
    rng = random.Random(seed)
    k = 1 if tier == "quick" else 10
    out = [d4_case()]
    for _ in range(360 * k):
        out.append(gen_fit(rng, tier))
    for _ in range(70 * k):
        out.append(gen_reject(rng))
    for _ in range(170 * k):
        out.append(gen_fit_update(rng, tier))
    for _ in range(70 * k):
        out.append(gen_objsession(rng, tier))
    for _ in range(70 * k):
        out.append(gen_estsession(rng, tier))
    for _ in range(6 * k):
        out.append(gen_wide(rng, tier))
    for _ in range(60 * k):
        out.append(gen_em(rng, tier, False))
    for _ in range(50 * k):
        out.append(gen_em(rng, tier, True))
    for _ in range(70 * k):
        out.append(gen_session(rng, tier))
    for _ in range(4 * k):
        out.append(gen_emdeep(rng, tier))
    for _ in range(6 * k):
        out.append(gen_chain(rng, tier))
    for _ in range(2 * k):
        out.append(gen_manystates(rng, tier))
    return out


def d4_case():
    """the recorded witness of defect D4 (fixed by 5aac298): P(A | C, B) declared with evidence ['C','B'],
    cardinalities 2 and 3; also the witness of Props.C06_fit_update_presort_refuted"""
    return {"kind": "fit_update", "names": ["A", "B", "C"], "nodes": [0, 1, 2], "edges": [[2, 0], [1, 0]],
            "cols": [{"type": "int", "univ": [0, 1], "declared": [0, 1], "used": 2},
                     {"type": "int", "univ": [0, 1, 2], "declared": [0, 1, 2], "used": 3},
                     {"type": "int", "univ": [0, 1], "declared": [0, 1], "used": 2}],
            "rows": [[0, 1, 0], [0, 1, 0], [1, 2, 1]], "weights": None, "colorder": [0, 1, 2], "n_jobs": 1,
            "n_prev": [4, 1],
            "prev": {"0": {"parents": [2, 1],
                           "table": [[[1, 8], [1, 4], [3, 8], [1, 2], [5, 8], [3, 4]],
                                     [[7, 8], [3, 4], [5, 8], [1, 2], [3, 8], [1, 4]]]},
                     "1": {"parents": [], "table": [[[1, 4]], [[1, 2]], [[1, 4]]]},
                     "2": {"parents": [], "table": [[[1, 2]], [[1, 2]]]}}}


def shrink(case):
    rows = case.get("rows", [])
    for i in range(len(rows)):
        c = dict(case)
        c["rows"] = rows[:i] + rows[i + 1:]
        if case.get("weights"):
            c["weights"] = case["weights"][:i] + case["weights"][i + 1:]
        if c["rows"] and case["kind"] in ("fit",) and case.get("est") != "dirichlet":
            yield c
    if case["kind"] == "fit" and case.get("est") != "dirichlet":
        for i in range(len(case["edges"])):
            c = dict(case)
            c["edges"] = case["edges"][:i] + case["edges"][i + 1:]
            yield c
        if case.get("weights"):
            c = dict(case)
            c["weights"] = None
            yield c
        if case.get("n_jobs") == 2:
            c = dict(case)
            c["n_jobs"] = 1
            yield c


# ------------------------------------------------------------------ building pgmpy objects
def raw(col, s):
    return col["univ"][s]


INDEX_MODES = ["range", "range", "shift", "perm", "gap", "dup", "str", "filtered"]


def make_frame(case, rows=None, weights="case", colorder=None, drop=None):
    """the pandas frame of a case.  case["index"] chooses the row index (never data): RangeIndex, shifted,
    permuted labels, gapped, duplicate labels, string labels, or "filtered": the frame is a boolean-mask filter
    of a larger frame (gapped index, and categorical columns keep a category no remaining row uses)"""
    import pandas as pd
    rows = case["rows"] if rows is None else rows
    weights = case["weights"] if weights == "case" else weights
    colorder = case["colorder"] if colorder is None else colorder
    mode = case.get("index", "range")
    irng = random.Random(case.get("mseed", 0) + 7 * len(rows))
    keep = [True] * len(rows)
    if mode == "filtered":
        keep = []
        for _ in rows:
            while irng.random() < 0.4:
                keep.append(False)
            keep.append(True)
        keep.append(False)
    use = [i for i in colorder if i != case.get("lat") and i != drop and i < len(case["cols"])]
    data = {}
    for i in use:
        col = case["cols"][i]
        it = iter(rows)
        vals = []
        for k in keep:
            vals.append(raw(col, next(it)[i]) if k else None)
        junk = {"int": 97, "float": 1e9, "bool": True, "cat": "__junk", "obj": "__junk"}[col["type"]]
        vals = [junk if v is None else v for v in vals]
        nm = fresh(case["names"][i])
        if col["type"] == "int":
            data[nm] = pd.Series(vals, dtype="int64")
        elif col["type"] == "float":
            data[nm] = pd.Series(vals, dtype="float64")
        elif col["type"] == "bool":
            data[nm] = pd.Series(vals, dtype=bool)
        elif col["type"] == "cat":
            cats = list(col["univ"]) + (["__junk"] if mode == "filtered" else [])
            data[nm] = pd.Series(pd.Categorical(vals, categories=cats, ordered=bool(col.get("ordered"))))
        else:
            data[nm] = pd.Series(vals, dtype=object)
    # dict insertion order = column order; with tuple names this yields MultiIndex columns, the only form in which
    # pandas/pgmpy can select a tuple-named column (a flat Index of tuples is read as a list of labels)
    df = pd.DataFrame(data)
    n = len(df)
    if mode == "filtered":
        df = df[pd.Series(keep)]
    elif mode == "shift":
        df.index = range(5, 5 + n)
    elif mode == "perm":
        lab = list(range(n))
        irng.shuffle(lab)
        df.index = lab
    elif mode == "gap":
        lab, c = [], 0
        for _ in range(n):
            c += irng.randint(1, 9)
            lab.append(c)
        df.index = lab
    elif mode == "dup":
        df.index = [k // 2 for k in range(n)]
    elif mode == "str":
        df.index = ["r%d" % (n - k) for k in range(n)]
    if weights is not None:
        df["_weight"] = [w[0] / w[1] for w in weights]
    return df


class Impure(Exception):
    """a library call modified one of its arguments"""


def snap_frame(df):
    return df.copy(deep=True)


def check_frame_unchanged(df, snap, what="data"):
    if list(df.columns) != list(snap.columns) or not df.index.equals(snap.index) \
            or list(map(str, df.dtypes)) != list(map(str, snap.dtypes)) or not df.equals(snap):
        raise Impure("%s frame modified by the call (columns %s dtypes %s)" % (what, list(df.columns), list(map(str, df.dtypes))))
    for c in df.columns:
        if str(df[c].dtype) == "category" and list(df[c].cat.categories) != list(snap[c].cat.categories):
            raise Impure("%s frame: categories of %s modified" % (what, c))


def deep_equal(a, b):
    import numpy as np
    if isinstance(a, dict):
        return isinstance(b, dict) and list(a) == list(b) and all(deep_equal(a[k], b[k]) for k in a)
    if isinstance(a, (list, tuple)):
        return type(a) is type(b) and len(a) == len(b) and all(deep_equal(x, y) for x, y in zip(a, b))
    if isinstance(a, np.ndarray):
        return isinstance(b, np.ndarray) and a.shape == b.shape and a.dtype == b.dtype and bool(np.array_equal(a, b)) \
            and a.flags["C_CONTIGUOUS"] == b.flags["C_CONTIGUOUS"]
    if hasattr(a, "variables") and hasattr(a, "get_values"):   # TabularCPD
        import numpy as np
        return list(a.variables) == list(b.variables) and deep_equal(dict(a.state_names), dict(b.state_names)) \
            and bool(np.array_equal(np.asarray(a.get_values()), np.asarray(b.get_values())))
    return type(a) is type(b) and a == b


def graph_sig(g):
    return (list(g.nodes()), list(g.edges()), sorted(map(str, getattr(g, "latents", set()))),
            [id(c) for c in getattr(g, "cpds", [])])


def state_names_kw(case):
    sn = {}
    for i, col in enumerate(case["cols"]):
        if col["declared"] is not None:
            sn[fresh(case["names"][i])] = [raw(col, s) for s in col["declared"]]
    return sn


def make_graph(case, cls, edges=None, nodes=None, latents=()):
    g = cls()
    nodes = case["nodes"] if nodes is None else nodes
    edges = case["edges"] if edges is None else edges
    for v in nodes:
        g.add_node(case["names"][v])
    g.add_edges_from([(case["names"][u], case["names"][v]) for u, v in edges])
    if latents:
        g.latents = set(latents)
    return g


def model_frame(case, st, colorder=None):
    """(cards by id, cols ids, positional rows) for the model; an undeclared state gets index = card"""
    vid = vids(case["names"])
    n = len(case["names"])
    cards = [0] * n
    for i in range(n):
        if i < len(st):
            cards[vid[i]] = len(st[i])
    colorder = case["colorder"] if colorder is None else colorder
    colorder = [i for i in colorder if i != case.get("lat") and i != case.get("drop")]
    cols = [vid[i] for i in colorder]
    pos = []
    for i in range(len(case["cols"])):
        pos.append({s: k for k, s in enumerate(st[i])})
    rows = []
    for r in case["rows"]:
        rows.append([pos[i].get(r[i], len(st[i])) for i in colorder])
    return vid, cards, cols, rows


def fr(p):
    return Fraction(p[0], p[1])


def decode_named(reply):
    """model reply for one node -> (sorted parent ids, {(x, pi tuple): Fraction | None})"""
    ps, cols = reply
    out = {}
    for pi, col in cols:
        for x, v in enumerate(col):
            out[(x, tuple(pi))] = common.frac(v[0]) if v else None
    return ps, out


def compare_cpd(case, st, vid, i, cpd, named, ps_ids, tol, what):
    """pgmpy TabularCPD of variable index i against the model's named table"""
    names = case["names"]
    inv = {vid[k]: k for k in range(len(names))}
    ps = [inv[p] for p in ps_ids]
    if set(cpd.variables[1:]) != set(names[u] for u in ps) or cpd.variables[0] != names[i]:
        return bad("impl!=model:%s-scope" % what, {"node": names[i], "impl": list(map(str, cpd.variables))})
    # declared alignment: the CPD's state list is the declared / sorted-seen list, in that order
    for u in [i] + ps:
        exp_states = [raw(_col(case, u), s) for s in st[u]]
        got_states = list(cpd.state_names[names[u]])
        if len(got_states) != len(exp_states) or any(a != b for a, b in zip(got_states, exp_states)):
            return bad("impl!=model:%s-state-names" % what, {"node": names[i], "var": names[u],
                                                              "impl": list(map(str, got_states)),
                                                              "expected": list(map(str, exp_states))})
    nan_cols = 0
    for pi in itertools.product(*[range(len(st[u])) for u in ps]):
        for x in range(len(st[i])):
            kw = {names[u]: raw(_col(case, u), st[u][s]) for u, s in zip(ps, pi)}
            kw[names[i]] = raw(_col(case, i), st[i][x])
            got = cpd_at(cpd, kw)
            exp = named[(x, tuple(pi))]
            if exp is None:
                nan_cols += 1
                if math.isfinite(got):
                    return bad("impl!=model:%s-value" % what, {"node": names[i], "assignment": _s(kw),
                                                                "impl": got, "model": "non-finite"})
            elif not close(got, exp, tol):
                return bad("impl!=model:%s-value" % what, {"node": names[i], "assignment": _s(kw), "impl": got,
                                                            "model": float(exp), "model_exact": str(exp)})
    return nan_cols


# under the torch backend pgmpy's TabularCPD constructor takes its values through float32 (torch.Tensor(values)):
# 1e-5 relative there (DESIGN section 3), and no magnitudes outside the float32 range are generated
TOL_FLOOR = [0.0]


def close(got, exp, tol):
    """closed forms (tol < 1e-7): RELATIVE to the model's exact value, whatever its magnitude; EM (tol 1e-6):
    absolute for |value| <= 1, because the model's iterates are rounded to a 2^-32 grid between iterations"""
    got, exp = float(got), float(exp)
    if got != got or exp != exp:
        return False
    if tol >= 1e-7:
        return common.approx(got, exp, max(tol, TOL_FLOOR[0]))
    if tol == 0.0:
        return got == exp
    return abs(got - exp) <= max(tol, TOL_FLOOR[0]) * abs(exp) + 1e-300


def cpd_at(cpd, kw):
    """value of a pgmpy CPD at a named assignment {variable: state name} (get_value needs str keywords)"""
    idx = tuple(cpd.get_state_no(v, kw[v]) for v in cpd.variables)
    return float(cpd.values[idx])


def _col(case, u):
    if u == case.get("lat"):
        return {"univ": list(range(case["lat_card"]))}
    return case["cols"][u]


def _s(kw):
    return {str(k): str(v) for k, v in kw.items()}


def cpd_named_values(case, st, i, cpd):
    """{(x, pi by sorted-by-name parents): float} from a pgmpy CPD (for pgmpy-vs-pgmpy metamorphic checks)"""
    names = case["names"]
    ps = sorted([k for k in range(len(names)) if names[k] in cpd.variables[1:]], key=lambda k: names[k])
    out = {}
    for pi in itertools.product(*[range(len(st[u])) for u in ps]):
        for x in range(len(st[i])):
            kw = {names[u]: raw(_col(case, u), st[u][s]) for u, s in zip(ps, pi)}
            kw[names[i]] = raw(_col(case, i), st[i][x])
            out[(x, pi)] = cpd_at(cpd, kw)
    return out


def same_named(a, b, tol=1e-9):
    if set(a) != set(b):
        return False
    for k in a:
        x, y = a[k], b[k]
        if math.isfinite(x) != math.isfinite(y):
            return False
        if math.isfinite(x) and not close(x, y, tol):
            return False
    return True


# ------------------------------------------------------------------ fit
def prior_wire(case, vid):
    est = case["est"]
    if est == "mle":
        return [0]
    if est == "k2":
        return [1]
    if est == "bdeu":
        return [2, fr(case["ess"])]
    if est == "scalar":
        return [3, fr(case["c"])]
    return [4, [[[fr(c) for c in row] for row in case["pcs"][str(i)]] for i in case["nodes"]]]


def pgmpy_fit(case, df, edges=None, nodes=None, sn=None):
    """returns {name: TabularCPD} and the fitted model (or None); sn = a caller-owned state_names dict to pass
    as is (session stream), else a fresh dict is built from the case"""
    import joblib
    if case["n_jobs"] == -1 or (case["n_jobs"] > 1 and not case.get("loky")):
        # quick tier: joblib's thread backend (the default process backend costs ~20 s per worker process to
        # import pgmpy once); the thorough tier uses the default backend
        with joblib.parallel_config(backend="threading"):
            return _pgmpy_fit(case, df, edges, nodes, sn)
    return _pgmpy_fit(case, df, edges, nodes, sn)


def pc_array(t, form):
    """a pseudo_counts table in one of the container forms a caller may hand over"""
    import numpy as np
    vals = [[c[0] / c[1] for c in row] for row in t]
    if form == "list":
        return vals
    a = np.array(vals, dtype=float)
    if form == "F":
        return np.asfortranarray(a)
    if form == "view":
        return np.ascontiguousarray(a.T).T      # a non-contiguous view of another buffer
    if form == "int" and all(c[1] == 1 for row in t for c in row):
        return np.array([[c[0] for c in row] for row in t], dtype=np.int64)
    return a


def _pgmpy_fit(case, df, edges=None, nodes=None, sn=None):
    import copy
    import numpy as np
    from pgmpy.base import DAG
    from pgmpy.models import BayesianNetwork
    from pgmpy.estimators import MaximumLikelihoodEstimator, BayesianEstimator
    est = case["est"]
    names = case["names"]
    pt = {"std": lambda x: x, "lower": str.lower, "upper": str.upper}[case.get("ptcase", "std")]
    kw = {}
    if est == "k2":
        kw = {"prior_type": pt("K2")}
        if case.get("k2_pc"):
            kw["pseudo_counts"] = {names[i]: [[7.0]] for i in case["nodes"]}
    elif est == "bdeu":
        e = case["ess"][0] / case["ess"][1]
        kw = {"prior_type": pt("BDeu"), "equivalent_sample_size": int(e) if e == int(e) and case["mseed"] % 2 else e}
        if case["mseed"] % 5 == 0:  # the per-node dict form of equivalent_sample_size
            kw["equivalent_sample_size"] = {names[i]: e for i in case["nodes"]}
        if case.get("be_default"):
            kw = {}                  # BayesianEstimator defaults: BDeu with equivalent_sample_size 5
    elif est == "scalar":
        c = case["c"][0] / case["c"][1]
        kw = {"prior_type": pt("dirichlet"), "pseudo_counts": int(c) if c == int(c) else c}
    elif est == "dirichlet":
        kw = {"prior_type": pt("dirichlet"),
              "pseudo_counts": {names[int(i)]: pc_array(t, case.get("pc_form", "nd")) for i, t in case["pcs"].items()}}
    if case["weights"] is not None:
        kw["weighted"] = True
    own_sn = sn is None
    if sn is None:
        sn = state_names_kw(case)
    cls = MaximumLikelihoodEstimator if est == "mle" else BayesianEstimator
    api = case["api"]
    # ---- argument purity: deep snapshots of everything handed over
    df_snap, kw_snap, sn_snap = snap_frame(df), copy.deepcopy(kw), copy.deepcopy(sn)

    def purity(g=None, gsig=None):
        check_frame_unchanged(df, df_snap)
        if not deep_equal(kw, kw_snap):
            raise Impure("keyword arguments modified: %s" % sorted(kw))
        if own_sn and not deep_equal(sn, sn_snap):
            raise Impure("state_names modified")
        if g is not None and graph_sig(g) != gsig:
            raise Impure("the model passed to the estimator was modified")

    if api in ("est", "estimate_cpd"):
        g = make_graph(case, BayesianNetwork, edges, nodes)
        gsig = graph_sig(g)
        e = cls(g, df, state_names=sn) if sn else cls(g, df)
        if api == "est":
            cpds = e.get_parameters(n_jobs=case["n_jobs"], **kw)
        else:
            cpds = []
            order = list(case["nodes"] if nodes is None else nodes)
            for i in order:
                k1 = dict(kw)
                if isinstance(k1.get("pseudo_counts"), dict):
                    k1["pseudo_counts"] = k1["pseudo_counts"][names[i]]
                if isinstance(k1.get("equivalent_sample_size"), dict):
                    k1["equivalent_sample_size"] = k1["equivalent_sample_size"][names[i]]
                cpds.append(e.estimate_cpd(names[i], **k1))
        purity(g, gsig)
        return {c.variable: c for c in cpds}, None
    g = make_graph(case, DAG if api == "dagfit" else BayesianNetwork, edges, nodes)
    gsig = graph_sig(g)
    kw2 = dict(kw)
    if not (est == "mle" and case.get("omit_estimator")):
        kw2["estimator"] = cls          # MaximumLikelihoodEstimator is the default of fit()
    if sn or case["mseed"] % 3:
        m = g.fit(df, state_names=sn, n_jobs=case["n_jobs"], **kw2)
    else:
        m = g.fit(df, n_jobs=case["n_jobs"], **kw2)
    if m is None:  # BayesianNetwork.fit of older versions returned None and fitted in place
        m = g
    purity(g if api == "dagfit" else None, gsig)
    return {c.variable: c for c in m.get_cpds()}, m


def run_fit(case, drv):
    names = case["names"]
    st = col_states(case)
    vid, cards, cols, rows = model_frame(case, st)
    w = case["weights"] or [[1, 1]] * len(rows)
    mnodes = [[vid[i], [vid[u] for u in parents_of(case, i)]] for i in case["nodes"]]
    reply = drv.call("c06_fit", [cards, cols, [[r, fr(x)] for r, x in zip(rows, w)], mnodes, prior_wire(case, vid)])
    df = make_frame(case)
    cpds, m = pgmpy_fit(case, df)
    # which nodes get a CPD: every node, isolated ones included (BayesianEstimator and DAG.fit rebuild the
    # network from its edges and re-add the nodes: Model.estimated_nodes)
    rebuilt = case["est"] != "mle" or case["api"] == "dagfit"
    modelled = drv.call("c06_estimated_nodes", [rebuilt, [vid[i] for i in case["nodes"]],
                                                [[vid[u], vid[v]] for u, v in case["edges"]]])
    touched = set(u for e in case["edges"] for u in e)
    isolated = [i for i in case["nodes"] if i not in touched]
    if set(cpds) != set(names[i] for i in case["nodes"]) or sorted(modelled) != sorted(vid[i] for i in case["nodes"]):
        return bad("impl!=model:fit-nodes", {"impl": sorted(map(str, cpds)), "model": sorted(modelled),
                                             "isolated": [str(names[i]) for i in isolated]})
    if m is not None and set(m.nodes()) != set(names[i] for i in case["nodes"]):
        return bad("impl!=model:fitted-network-nodes", {"impl": sorted(map(str, m.nodes()))})
    fitted_nodes = list(case["nodes"])
    finding = None
    nan_total = 0
    named_impl = {}
    for i, rep in zip(case["nodes"], reply):
        if i not in fitted_nodes:
            continue
        ps_ids, named = decode_named(rep)
        r = compare_cpd(case, st, vid, i, cpds[names[i]], named, ps_ids, 1e-9, "fit")
        if isinstance(r, dict):
            return r
        nan_total += r
        named_impl[i] = cpd_named_values(case, st, i, cpds[names[i]])
    tags = ["fit est=" + case["est"], "api=" + case["api"], "n_jobs=%d" % case["n_jobs"],
            "weights=%s" % (case.get("wmode") or "none"), "cols=%d" % len(names), "rows=%d" % len(rows)]
    if m is not None and finding is None:
        try:
            valid = bool(m.check_model())
        except ValueError:
            valid = False
        if valid != (nan_total == 0):
            return bad("impl!=spec:fitted-model-validates", {"check_model": valid, "model_nan_cells": nan_total})
        tags.append("check_model=%s" % valid)
    # ---- invariance metamorphics on pgmpy itself (named comparison)
    rng = random.Random(case["mseed"])
    perm = list(range(len(case["rows"])))
    rng.shuffle(perm)
    c2 = dict(case)
    c2["rows"] = [case["rows"][k] for k in perm]
    c2["weights"] = [case["weights"][k] for k in perm] if case["weights"] else None
    co = list(case["colorder"])
    rng.shuffle(co)
    e2 = [list(e) for e in case["edges"]]
    rng.shuffle(e2)
    n2 = list(case["nodes"])
    rng.shuffle(n2)
    variants = [("row-order", make_frame(c2), None, None), ("column-order", make_frame(case, colorder=co), None, None),
                ("parent-order", df, e2, n2)]
    c1 = dict(case)
    c1["n_jobs"] = 1
    if case.get("nometa"):
        variants = []
    for label, d2, ee, nn in variants:
        cp2, _ = pgmpy_fit(c2 if label == "row-order" else c1, d2, ee, nn)
        for i in fitted_nodes:
            if not same_named(named_impl[i], cpd_named_values(case, st, i, cp2[names[i]])):
                return bad("impl!=spec:%s-invariance" % label, {"node": str(names[i])})
    if case["weights"] and case["est"] == "mle":
        # weighted MLE is count/total: multiplying EVERY weight by a common factor changes nothing
        for sh in (-30, 17):
            c3 = dict(c1)
            c3["weights"] = [[w_[0] * 2**sh, w_[1]] if sh > 0 else [w_[0], w_[1] * 2**(-sh)] for w_ in case["weights"]]
            cp3, _ = pgmpy_fit(c3, make_frame(c3), None, None)
            for i in fitted_nodes:
                if not same_named(named_impl[i], cpd_named_values(case, st, i, cp3[names[i]])):
                    return bad("impl!=spec:weight-scale-invariance", {"node": str(names[i]), "factor": "2^%d" % sh})
        tags.append("weight-scale-metamorphic")
    has_unseen_state = any(len(st[i]) > len(set(r[i] for r in case["rows"])) for i in case["nodes"])
    unseen_cfg = False
    for i in case["nodes"]:
        ps = parents_of(case, i)
        if ps:
            tot = 1
            for u in ps:
                tot *= len(st[u])
            if len(set(tuple(r[u] for u in ps) for r in case["rows"])) < tot:
                unseen_cfg = True
    if has_unseen_state:
        tags.append("declared-unseen-state")
    if unseen_cfg:
        tags.append("unseen-parent-config")
    if isolated:
        tags.append("isolated-node" + ("+rebuilt-from-edges" if rebuilt else ""))
    if nan_total:
        tags.append("nan-column")
    tags += sorted(set("coltype=" + case["cols"][i]["type"] for i in case["nodes"]))
    nontriv = any(parents_of(case, i) and len(st[i]) >= 2 for i in case["nodes"])
    return ok(nontrivial=nontriv, key=common.canon_key(_key(case)), tags=tags)


def _key(case):
    return [case["kind"], case["names"], sorted(map(tuple, case["edges"])), case["rows"], case.get("weights"),
            [(c["type"], c["univ"], c["declared"]) for c in case["cols"]], case.get("est"), case.get("ess"),
            case.get("pcs"), case.get("prev"), case.get("n_prev"), case.get("init"), case.get("lat_card"),
            case.get("seed"), case.get("mode"), case.get("batch_size"), case.get("atol")]


# ------------------------------------------------------------------ rejection paths
def run_reject(case, drv):
    names = case["names"]
    what = case["what"]
    if what in ("latent-mle", "bad-prior-type", "weighted-no-column", "estimator-not-class"):
        # calls the estimators document as invalid: must raise, never fit quietly
        from pgmpy.models import BayesianNetwork
        from pgmpy.estimators import MaximumLikelihoodEstimator, BayesianEstimator
        df = make_frame(case)
        g = make_graph(case, BayesianNetwork)
        cls = MaximumLikelihoodEstimator if case["est"] == "mle" else BayesianEstimator
        kw = {} if case["est"] == "mle" else {"prior_type": "K2"}
        exp = ValueError
        try:
            if what == "latent-mle":
                g.latents = {names[case["nodes"][0]]}
                if case["api"] in ("est", "estimate_cpd"):
                    cls(g, df).get_parameters(**kw)
                else:
                    g.fit(df, estimator=cls, **kw)
            elif what == "bad-prior-type":
                BayesianEstimator(g, df).get_parameters(prior_type="jeffreys")
            elif what == "weighted-no-column":
                if case["api"] in ("est", "estimate_cpd"):
                    cls(g, df).get_parameters(weighted=True, **kw)
                else:
                    g.fit(df, estimator=cls, weighted=True, **kw)
            else:
                exp = TypeError
                g.fit(df, estimator=rng_choice(case, ["MaximumLikelihoodEstimator", 3, cls(g, df)]))
            impl = "accepted"
        except exp:
            impl = "rejected"
        if impl != "rejected":
            return bad("impl!=spec:invalid-call-accepted", {"what": what, "api": case["api"], "est": case["est"]})
        if g.get_cpds():
            return bad("impl!=spec:rejected-call-left-cpds", {"what": what})
        return ok(nontrivial=True, key=common.canon_key(_key(case) + [what]), tags=["reject " + what])
    st = col_states(case)
    vid, cards, cols, rows = model_frame(case, st)
    mnodes = [[vid[i], [vid[u] for u in parents_of(case, i)]] for i in case["nodes"]]
    st_, code = drv.call_e("c06_fit", [cards, cols, [[r, Fraction(1)] for r in rows], mnodes, prior_wire(case, vid)])
    df = make_frame(case, drop=case.get("drop"))
    try:
        pgmpy_fit(case, df)
        impl = "accepted"
    except ValueError:
        impl = "ValueError"
    except KeyError:
        # BayesianEstimator has no "node not in data" test of its own: the lookup of the node's states fails
        impl = "ValueError" if case["what"] == "missing-col" else "KeyError"
    exp_code = {"missing-col": 1, "undeclared": 2, "shape": 3}[case["what"]]
    if st_ != "err" or code != exp_code or impl != "ValueError":
        return bad("impl!=model:rejection", {"what": case["what"], "impl": impl, "model": [st_, code if st_ == "err" else "ok"]})
    return ok(nontrivial=True, key=common.canon_key(_key(case) + [case["what"]]), tags=["reject " + case["what"]])


def rng_choice(case, options):
    return options[case.get("mseed", 0) % len(options)]


# ------------------------------------------------------------------ fit_update
def make_tabular(case, st, i, spec):
    import numpy as np
    from pgmpy.factors.discrete import TabularCPD
    names = case["names"]
    ps = spec["parents"]
    vals = np.array([[c[0] / c[1] for c in row] for row in spec["table"]], dtype=float).reshape(len(st[i]), -1)
    sn = {names[u]: [raw(_col(case, u), s) for s in st[u]] for u in [i] + ps}
    if ps:
        return TabularCPD(names[i], len(st[i]), vals, evidence=[names[u] for u in ps],
                          evidence_card=[len(st[u]) for u in ps], state_names=sn)
    return TabularCPD(names[i], len(st[i]), vals, state_names=sn)


def run_fit_update(case, drv):
    import numpy as np
    from pgmpy.models import BayesianNetwork
    from pgmpy.estimators import BayesianEstimator
    names = case["names"]
    st = col_states(case)
    vid, cards, cols, rows = model_frame(case, st)
    mnodes = [[vid[i], [vid[u] for u in parents_of(case, i)]] for i in case["nodes"]]
    prevs = [[vid[i], [vid[u] for u in case["prev"][str(i)]["parents"]],
              [[fr(c) for c in row] for row in case["prev"][str(i)]["table"]]] for i in case["nodes"]]
    n_prev = fr(case["n_prev"]) if case["n_prev"] else Fraction(len(rows))
    req = [cards, cols, [[r, Fraction(1)] for r in rows], mnodes, prevs, n_prev]
    reply = drv.call("c06_fit_update", req)
    m = make_graph(case, BayesianNetwork)
    old = {i: make_tabular(case, st, i, case["prev"][str(i)]) for i in case["nodes"]}
    order = list(case["nodes"])
    random.Random(case.get("mseed", 0)).shuffle(order)      # order in which the existing CPDs were added
    m.add_cpds(*[old[i] for i in order])
    if not m.check_model():
        return bad("harness:bad-prior-model", {})
    import copy
    old_snap = {i: copy.deepcopy(old[i]) for i in old}
    df = make_frame(case)
    df_snap = snap_frame(df)
    npv = None if case["n_prev"] is None else (case["n_prev"][0] // case["n_prev"][1] if case["n_prev"][1] == 1
                                                else case["n_prev"][0] / case["n_prev"][1])
    import joblib
    with joblib.parallel_config(backend="threading"):
        m.fit_update(df, n_prev_samples=npv, n_jobs=case["n_jobs"])
    check_frame_unchanged(df, df_snap)
    for i in old:   # the previous CPD objects (the caller may still hold them) are inputs
        if not deep_equal(old[i], old_snap[i]):
            raise Impure("fit_update modified the previous CPD object of %s" % names[i])
    unsorted_asym = False
    nan_total = 0
    for i, rep in zip(case["nodes"], reply):
        ps_ids, named = decode_named(rep)
        r = compare_cpd(case, st, vid, i, m.get_cpds(names[i]), named, ps_ids, 1e-9, "fit_update")
        if isinstance(r, dict):
            try:
                old_reply = drv.call("c06_fit_update_unsorted", req)
                _, named_old = decode_named(old_reply[case["nodes"].index(i)])
                r0 = compare_cpd(case, st, vid, i, m.get_cpds(names[i]), named_old, ps_ids, 1e-9, "fit_update")
                if not isinstance(r0, dict):
                    r["kind"] = "impl!=model:fit_update-uses-unsorted-parent-order(D4)"
            except common.ModelError:
                pass
            return r
        nan_total += r
        pp = case["prev"][str(i)]["parents"]
        if [vid[u] for u in pp] != sorted(vid[u] for u in pp) and len(set(len(st[u]) for u in pp)) > 1:
            unsorted_asym = True
    try:
        valid = bool(m.check_model())
    except ValueError:
        valid = False
    if valid != (nan_total == 0):     # nan only with n_prev = 0 and an unseen parent configuration
        return bad("impl!=spec:updated-model-validates", {"check_model": valid, "model_nan_cells": nan_total})
    # ---- the property sentence itself on pgmpy: fit_update == Bayesian fit with prior = previous CPD, looked
    # up by NAMED parent configuration, times n_prev
    nprev_f = float(n_prev)
    pcs = {}
    for i in case["nodes"]:
        ps = sorted(parents_of(case, i), key=lambda u: names[u])
        cfgs = list(itertools.product(*[range(len(st[u])) for u in ps]))
        t = np.zeros((len(st[i]), len(cfgs)))
        for j, pi in enumerate(cfgs):
            for x in range(len(st[i])):
                kw = {names[u]: raw(_col(case, u), st[u][s]) for u, s in zip(ps, pi)}
                kw[names[i]] = raw(_col(case, i), st[i][x])
                t[x, j] = nprev_f * cpd_at(old[i], kw)
        pcs[names[i]] = t
    g2 = make_graph(case, BayesianNetwork)
    sn = {names[i]: [raw(_col(case, i), s) for s in st[i]] for i in case["nodes"]}
    be = BayesianEstimator(g2, df, state_names=sn).get_parameters(prior_type="dirichlet", pseudo_counts=pcs)
    be = {c.variable: c for c in be}
    for i in case["nodes"]:
        if not same_named(cpd_named_values(case, st, i, m.get_cpds(names[i])),
                          cpd_named_values(case, st, i, be[names[i]])):
            return bad("impl!=spec:fit_update-vs-bayes-with-named-prior", {"node": str(names[i])})
    tags = ["fit_update", "n_prev=%s" % (case["n_prev"],), "n_jobs=%d" % case["n_jobs"], "rows=%d" % len(rows)]
    if unsorted_asym:
        tags.append("existing-cpd-unsorted-parents-unequal-cards")
    nontriv = any(parents_of(case, i) and len(st[i]) >= 2 for i in case["nodes"])
    return ok(nontrivial=nontriv, key=common.canon_key(_key(case)), tags=tags)


# ------------------------------------------------------------------ EM
def named_to_table(named, r, cfgs):
    return [[named[(x, tuple(pi))] for pi in cfgs] for x in range(r)]


def loglik(case, st, cpds_by_name):
    """observed-data log-likelihood of the rows under pgmpy CPDs (latent summed out, no floor), computed by the
    harness in exact rational arithmetic on the CPDs' float values; only the final logarithms are floating point"""
    names = case["names"]
    L = case.get("lat")
    lat_states = list(range(case["lat_card"])) if L is not None else [None]
    total = 0.0
    cache = {}
    for r in case["rows"]:
        key = tuple(r)
        if key not in cache:
            s = Fraction(0)
            for ls in lat_states:
                p = Fraction(1)
                for nm, cpd in cpds_by_name.items():
                    kw = {}
                    for v in cpd.variables:
                        k = names.index(v)
                        kw[v] = ls if k == L else raw(case["cols"][k], r[k])
                    p *= Fraction(cpd_at(cpd, kw))
                s += p
            cache[key] = float("-inf") if s <= 0 else math.log(s.numerator) - math.log(s.denominator)
        if cache[key] == float("-inf"):
            return float("-inf")
        total += cache[key]
    return total


def min_row_joint(case, st, cpds_by_name):
    """largest joint probability of a completed row (row, latent state) under the CPDs, per row -> list"""
    names = case["names"]
    L = case["lat"]
    out = []
    for r in sorted(set(map(tuple, case["rows"]))):
        best = 0.0
        for ls in range(case["lat_card"]):
            p = 1.0
            for nm, cpd in cpds_by_name.items():
                kw = {v: (ls if names.index(v) == L else raw(case["cols"][names.index(v)], r[names.index(v)])) for v in cpd.variables}
                p *= cpd_at(cpd, kw)
            best = max(best, p)
        out.append(best)
    return out


def run_em(case, drv):
    from pgmpy.models import BayesianNetwork
    from pgmpy.estimators import ExpectationMaximization, MaximumLikelihoodEstimator
    names = case["names"]
    L = case.get("lat")
    n = len(case["cols"])
    st = col_states(case)
    if L is not None:
        st = st + [list(range(case["lat_card"]))]
    vid, cards, cols, rows = model_frame(case, st)
    allnodes = list(case["nodes"]) + ([L] if L is not None else [])
    latents = [names[L]] if L is not None else []
    df = make_frame(case)
    sn = state_names_kw(case)
    init_keys = [int(k) for k in case["init"]]
    kids = [v for (u, v) in case["edges"] if u == L] if L is not None else []
    fixed = [i for i in allnodes if i != L and i not in kids and i not in init_keys]
    moving = [i for i in allnodes if i not in fixed]

    def gparents(i):
        return [vid[u] for u in parents_of(case, i)]

    # model: fixed CPDs by MLE
    cur = {}
    wrows = [[r, Fraction(1)] for r in rows]
    if fixed:
        rep = drv.call("c06_fit", [cards, cols, wrows, [[vid[i], gparents(i)] for i in fixed], [0]])
        for i, rp in zip(fixed, rep):
            ps_ids, named = decode_named(rp)
            cfgs = list(itertools.product(*[range(cards[p]) for p in ps_ids]))
            cur[i] = [vid[i], ps_ids, named_to_table(named, len(st[i]), cfgs)]
    for i in init_keys:
        sp = case["init"][str(i)]
        cur[i] = [vid[i], [vid[u] for u in sp["parents"]], [[fr(c) for c in row] for row in sp["table"]]]
    tags = [case["kind"], "mode=" + case["mode"], "rows=%d" % len(rows)]

    def make_em():
        g = make_graph(case, BayesianNetwork, nodes=allnodes, latents=latents)
        return ExpectationMaximization(g, df, state_names=sn) if sn else ExpectationMaximization(g, df)

    def pg_em(k, em=None):
        import copy
        import joblib
        em = em or make_em()
        kw = {"max_iter": k, "show_progress": bool(case.get("show_progress"))}
        if L is not None and not (case.get("lc_default") and case["lat_card"] == 2):
            kw["latent_card"] = {names[L]: case["lat_card"]}
        if init_keys:
            ks = list(init_keys)
            random.Random(case.get("mseed", 0) + k).shuffle(ks)       # dict order of init_cpds is free
            kw["init_cpds"] = {names[i]: make_tabular(case, st, i, case["init"][str(i)]) for i in ks}
        if case["mode"] != "init":
            kw["seed"] = case["seed"]
        if case.get("batch_size"):
            kw["batch_size"] = case["batch_size"]
        if case.get("atol") is not None:
            kw["atol"] = case["atol"]
        if case.get("em_n_jobs", 1) > 1:
            kw["n_jobs"] = case["em_n_jobs"]
        kw_snap, df_snap = copy.deepcopy(kw), snap_frame(df)
        with joblib.parallel_config(backend="threading"):
            res = em.get_parameters(**kw)
        check_frame_unchanged(df, df_snap)
        if not deep_equal(kw, kw_snap):
            raise Impure("EM.get_parameters modified one of its arguments (init_cpds / latent_card)")
        return {c.variable: c for c in res}

    atol = 1e-8 if case.get("atol") is None else case["atol"]
    tags += ["batch_size=%s" % case.get("batch_size"), "atol=%s" % case.get("atol"),
             "distinct-rows=%d" % len(set(map(tuple, rows)))]
    if case.get("batch_size") and len(set(map(tuple, rows))) % case["batch_size"]:
        tags.append("batch_size-not-a-divisor-of-distinct-rows")

    if case["kind"] == "em0":
        # no latent variable: EM == MLE (model's MLE and pgmpy's own MLE)
        got = pg_em(case.get("k", 2))
        rep = drv.call("c06_fit", [cards, cols, wrows, [[vid[i], gparents(i)] for i in allnodes], [0]])
        g = make_graph(case, BayesianNetwork)
        mle = MaximumLikelihoodEstimator(g, df, state_names=sn) if sn else MaximumLikelihoodEstimator(g, df)
        mle = {c.variable: c for c in mle.get_parameters()}
        for i, rp in zip(allnodes, rep):
            ps_ids, named = decode_named(rp)
            r = compare_cpd(case, st, vid, i, got[names[i]], named, ps_ids, 1e-6, "em-no-latent")
            if isinstance(r, dict):
                return r
            if not same_named(cpd_named_values(case, st, i, got[names[i]]),
                              cpd_named_values(case, st, i, mle[names[i]]), 1e-6):
                return bad("impl!=spec:em-no-latent-is-mle", {"node": str(names[i])})
        # the model's own M-step on the (trivially) expanded data equals its MLE: exercised by the proof;
        # here one model EM iteration is also compared
        if init_keys:
            cpd_list = [cur[i] for i in allnodes]
            _, mrep = drv.call("c06_em_iter", [cards, cols, rows, [], cpd_list, CLAMP,
                                               [[vid[i], gparents(i)] for i in init_keys]])
            for i, rp in zip(init_keys, mrep):
                ps_ids, named = decode_named(rp)
                r = compare_cpd(case, st, vid, i, got[names[i]], named, ps_ids, 1e-6, "em-no-latent-mstep")
                if isinstance(r, dict):
                    return r
        probe_max_iter_0(case, pg_em, tags)
        return ok(nontrivial=bool(case["edges"]), key=common.canon_key(_key(case)), tags=tags + ["init=%d" % len(init_keys)])

    # one latent variable
    from pgmpy.factors.discrete import TabularCPD
    # CPDs that pgmpy initialises at random (mode seed / partial): TabularCPD.get_random is a function of
    # (variable, evidence order, cardinalities, seed), so the harness reproduces the same draw and hands it to the model
    rnd_nodes = [i for i in moving if i not in init_keys]
    g0 = {names[i]: make_tabular(case, st, i, case["init"][str(i)]) for i in init_keys}
    if rnd_nodes:
        em_probe = make_em()
        inv_name = {names[k]: k for k in range(len(names))}
        for i in rnd_nodes:
            par = list(em_probe.model_copy.predecessors(names[i]))
            c0 = TabularCPD.get_random(variable=names[i], evidence=par,
                                       cardinality={v: len(st[inv_name[v]]) for v in [names[i]] + par},
                                       state_names={v: [raw(_col(case, inv_name[v]), s_) for s_ in st[inv_name[v]]]
                                                    for v in [names[i]] + par}, seed=case["seed"])
            g0[names[i]] = c0
            vals = c0.get_values()
            cur[i] = [vid[i], [vid[inv_name[v]] for v in par],
                      [[Fraction(round(float(vals[x][j]) * 2**32), 2**32) for j in range(vals.shape[1])]
                       for x in range(vals.shape[0])]]
    if fixed:
        gm = make_graph(case, BayesianNetwork, nodes=allnodes)
        mm = MaximumLikelihoodEstimator.__new__(MaximumLikelihoodEstimator)
        e0 = make_em()
        mm.model, mm.data, mm.state_names = gm, e0.data, e0.state_names
        for i in fixed:
            g0[names[i]] = mm.estimate_cpd(names[i])
    prev_ll = loglik(case, st, g0)
    if case.get("decimals"):
        prev_ll = None      # init tables typed with two decimals are not exactly normalised: no baseline likelihood
    if case.get("deep"):
        below = sum(1 for p_ in min_row_joint(case, st, g0) if p_ < 1e-10)
        tags.append("deep: distinct rows whose every completion has joint < 1e-10: %s" % ("all" if below == len(set(map(tuple, rows))) else ("some" if below else "none")))

    def as_named(entry, i):
        ps_ids = entry[1]
        cfgs = list(itertools.product(*[range(cards[p]) for p in ps_ids]))
        return ps_ids, {(x, tuple(pi)): entry[2][x][j] for j, pi in enumerate(cfgs) for x in range(len(st[i]))}

    def by_sorted(entry, i):
        """named values keyed by the SORTED parent ids (entries may list parents in another order)"""
        ps_ids, named = as_named(entry, i)
        order = sorted(range(len(ps_ids)), key=lambda t: ps_ids[t])
        return {(x, tuple(pi[t] for t in order)): v for (x, pi), v in named.items()}

    # ---- the model's iterations, with pgmpy's stopping rule: all(|old - new| <= atol + 1e-5 * |new|)
    expected = {}
    stopped, knife = None, False
    for k in (1, 2, 3)[:case.get("model_iters", 3)]:
        cpd_list = [cur[i] for i in allnodes]
        _, mrep = drv.call("c06_em_iter", [cards, cols, rows, [vid[L]], cpd_list, CLAMP,
                                           [[vid[i], gparents(i)] for i in moving]])
        new = {}
        conv = True
        for i, rp in zip(moving, mrep):
            ps_ids, named = decode_named(rp)
            new[i] = (ps_ids, named)
            old_named = by_sorted(cur[i], i)
            for key_, v in named.items():
                d = abs(float(v) - float(old_named[key_]))
                thr = atol + 1e-5 * abs(float(v))
                if d > thr:
                    conv = False
                if 0.98 * thr <= d <= 1.02 * thr:
                    knife = True
        expected[k] = new
        if knife:
            break
        if conv:
            stopped = k
            break
        for i in moving:
            ps_ids, named = new[i]
            cfgs = list(itertools.product(*[range(cards[p]) for p in ps_ids]))
            # the next model iteration starts from the model's values rounded to a 2^-32 grid: exact
            # rationals would otherwise square their size at every iteration (error << the 1e-6 tolerance)
            cur_i = [[Fraction(round(v * 2**32), 2**32) for v in row] for row in named_to_table(named, len(st[i]), cfgs)]
            cur[i] = [vid[i], ps_ids, cur_i]
    fixed_named = {i: as_named(cur[i], i) for i in fixed}
    for k in (1, 2, 3):
        got = pg_em(k)
        ll = loglik(case, st, got)
        # TEST (not a theorem): observed-data likelihood never decreases from one iteration to the next
        # (under torch the CPD entries are float32-rounded, see RULE: 1e-5 there)
        if prev_ll is not None and not (ll >= prev_ll - max(1e-8, TOL_FLOOR[0]) * (1 + abs(prev_ll))):
            return bad("impl!=spec:em-likelihood-decreased(test)", {"iteration": k, "before": prev_ll, "after": ll})
        prev_ll = ll
        kk = min(k, stopped) if stopped else k
        if kk in expected and not (knife and kk == max(expected) and k > kk):
            for i in moving:
                ps_ids, named = expected[kk][i]
                r = compare_cpd(case, st, vid, i, got[names[i]], named, ps_ids, 1e-6, "em-iter%d" % k)
                if isinstance(r, dict):
                    return r
        for i in fixed:
            ps_ids, named = fixed_named[i]
            r = compare_cpd(case, st, vid, i, got[names[i]], named, ps_ids, 1e-6, "em-fixed")
            if isinstance(r, dict):
                return r
    tags.append("latent_card=%d" % case["lat_card"])
    if stopped:
        tags.append("converged-at-iteration-%d" % stopped)
    if knife:
        tags.append("convergence-knife-edge")
    if case.get("objsession"):
        # two calls on ONE estimator object, the first result mutated in between: the second call must give what
        # a fresh object gives
        em_s = make_em()
        first = pg_em(1, em_s)
        for c in first.values():
            c.values[...] = 0.5
        second = pg_em(2, em_s)
        fresh = pg_em(2)
        for i in allnodes:
            if not same_named(cpd_named_values(case, st, i, second[names[i]]), cpd_named_values(case, st, i, fresh[names[i]])):
                return bad("impl!=spec:em-second-call-on-same-object", {"node": str(names[i])})
        tags.append("em object session")
    probe_max_iter_0(case, pg_em, tags)
    return ok(nontrivial=True, key=common.canon_key(_key(case)), tags=tags)


def probe_max_iter_0(case, pg_em, tags):
    """max_iter=0 is OUTSIDE the property's domain (it speaks of iterations, max_iter >= 1): either behaviour is
    accepted and only tagged.  pgmpy as coded leaves `new_cpds` unassigned (UnboundLocalError)."""
    if not case.get("probe0"):
        return
    try:
        pg_em(0)
        tags.append("out-of-domain max_iter=0: returned")
    except UnboundLocalError:
        tags.append("out-of-domain max_iter=0: UnboundLocalError")


def run_session(case, drv):
    """the same caller-owned partial state_names dict passed to successive fits on different data sets: every
    result must be the model's for (that data, the ORIGINAL declared dict) -- states of an undeclared variable
    are those observed in the data being fitted -- and the dict itself must come back unchanged"""
    import copy
    from pgmpy.models import BayesianNetwork
    from pgmpy.estimators import ExpectationMaximization
    names = case["names"]
    shared = state_names_kw(case)          # ONE object for the whole session
    orig = copy.deepcopy(shared)
    vid = vids(names)
    tags = ["session folds=%d" % len(case["folds"])]
    prev_seen = None
    for step, (rows_f, op) in enumerate(zip(case["folds"], case["ops"])):
        api, est = op.split("-") if "-" in op else ("em", "mle")
        sub = dict(case, rows=rows_f, kind="fit", est=est, api={"bnfit": "bnfit", "dagfit": "dagfit", "est": "est"}.get(api, "bnfit"),
                   n_jobs=1, weights=None)
        st = col_states(sub)               # declared order for declared variables, sorted SEEN states of THIS fold otherwise
        _, cards, cols, rows = model_frame(sub, st)
        mnodes = [[vid[i], [vid[u] for u in parents_of(case, i)]] for i in case["nodes"]]
        reply = drv.call("c06_fit", [cards, cols, [[r, Fraction(1)] for r in rows], mnodes,
                                     prior_wire(sub, vid) if api != "em" else [0]])
        df = make_frame(sub)
        try:
            if api == "em":
                g = make_graph(case, BayesianNetwork)
                cp = ExpectationMaximization(g, df, state_names=shared).get_parameters(max_iter=2, show_progress=False)
                cpds = {c.variable: c for c in cp}
            else:
                cpds, _ = pgmpy_fit(sub, df, sn=shared)
        except ValueError as e:
            return bad("impl!=model:session-fit-raises", {"step": step, "op": op, "error": str(e)[:200],
                                                          "state_names_now": _s(shared), "declared": _s(orig)})
        for i, rep in zip(case["nodes"], reply):
            ps_ids, named = decode_named(rep)
            r = compare_cpd(sub, st, vid, i, cpds[names[i]], named, ps_ids, 1e-6 if api == "em" else 1e-9,
                            "session-step%d" % step)
            if isinstance(r, dict):
                r["detail"]["op"] = op
                r["detail"]["state_names_now"] = _s(shared)
                return r
        if shared != orig or list(shared) != list(orig):
            return bad("impl!=spec:state_names-argument-modified", {"step": step, "op": op, "passed": _s(orig),
                                                                    "after_call": _s(shared)})
        seen = {i: set(r[i] for r in rows_f) for i in range(len(names)) if case["cols"][i]["declared"] is None}
        if prev_seen is not None:
            if any(seen[i] < prev_seen[i] for i in seen):
                tags.append("undeclared-variable-loses-states")
            if any(seen[i] > prev_seen[i] for i in seen):
                tags.append("undeclared-variable-gains-states")
        prev_seen = seen
        tags.append("session op=" + op)
    return ok(nontrivial=True, key=common.canon_key(_key(case) + [case["folds"], case["ops"]]), tags=sorted(set(tags)))


def tables_from_reply(case, st, vid, cards, node_list, reply):
    """{node index: (sorted parent ids, named exact values)}"""
    out = {}
    for i, rep in zip(node_list, reply):
        out[i] = decode_named(rep)
    return out


def run_objsession(case, drv):
    import copy
    import numpy as np
    from pgmpy.models import BayesianNetwork
    from pgmpy.estimators import MaximumLikelihoodEstimator, BayesianEstimator
    names = case["names"]
    vid = vids(names)
    m = make_graph(case, BayesianNetwork)
    cur_nodes, cur_edges = list(case["nodes"]), [list(e) for e in case["edges"]]
    cur = None            # model tables of the network's current CPDs, None when stale (after a graph edit)
    tags = ["objsession steps=%d" % len(case["steps"])]
    sn = state_names_kw(case)
    for k, stp in enumerate(case["steps"]):
        op = stp["op"]
        tags.append("objsession op=" + op)
        sub = dict(case, nodes=cur_nodes, edges=cur_edges, rows=stp.get("rows", case["rows"]), kind="fit",
                   est=stp.get("est", "mle"), api="bnfit", n_jobs=1)
        if op == "fit_update":
            # fit_update looks up a CPD for EVERY data column, so (unlike fit) the frame may not carry the columns
            # of nodes that were removed from the network
            sub["colorder"] = [i for i in case["colorder"] if i in cur_nodes]
        if op in ("fit", "fit_update", "bad_fit"):
            st = col_states(sub)
            _, cards, cols, rows = model_frame(sub, st)
            mnodes = [[vid[i], [vid[u] for u in parents_of(sub, i)]] for i in cur_nodes]
            wrows = [[r, Fraction(1)] for r in rows]
            df = make_frame(sub)
            df_snap = snap_frame(df)
        if op == "fit":
            reply = drv.call("c06_fit", [cards, cols, wrows, mnodes, prior_wire(sub, vid)])
            cls = MaximumLikelihoodEstimator if stp["est"] == "mle" else BayesianEstimator
            kw = {"mle": {}, "k2": {"prior_type": "K2"}, "bdeu": {"prior_type": "BDeu", "equivalent_sample_size": 5}}[stp["est"]]
            ret = m.fit(df, estimator=cls, state_names=dict(sn), **kw)
            if ret is not None and ret is not m:
                return bad("impl!=spec:fit-returned-another-object", {"step": k})
        elif op == "fit_update":
            prevs = []
            for i in cur_nodes:
                ps_ids, named = cur[i]
                cfgs = list(itertools.product(*[range(cards[p]) for p in ps_ids]))
                prevs.append([vid[i], ps_ids, named_to_table(named, len(st[i]), cfgs)])
            n_prev = fr(stp["n_prev"]) if stp["n_prev"] else Fraction(len(rows))
            reply = drv.call("c06_fit_update", [cards, cols, wrows, mnodes, prevs, n_prev])
            npv = None if stp["n_prev"] is None else stp["n_prev"][0] / stp["n_prev"][1]
            m.fit_update(df, n_prev_samples=npv)
        elif op == "bad_fit":
            before = {i: cpd_named_values(sub, st, i, m.get_cpds(names[i])) for i in cur_nodes} if cur else None
            gs = (sorted(map(str, m.nodes())), sorted(map(str, m.edges())))
            victim = cur_nodes[stp["victim"] % len(cur_nodes)]
            try:
                if stp["what"] == "undeclared":
                    seen = sorted(set(r[victim] for r in stp["rows"]))
                    bad_sn = dict(sn)
                    col = case["cols"][victim]
                    bad_sn[names[victim]] = [raw(col, s_) for s_ in col["declared"] if s_ != seen[-1]]
                    m.fit(df, state_names=bad_sn)
                else:
                    # valid pseudo_counts for every node but the LAST one estimated
                    pcs = {}
                    order = list(m.nodes())
                    for nm in order:
                        i = names.index(nm)
                        q = 1
                        for u in parents_of(sub, i):
                            q *= len(st[u])
                        pcs[nm] = np.ones((len(st[i]), q + (1 if nm == order[-1] else 0)))
                    m.fit(df, estimator=BayesianEstimator, prior_type="dirichlet", pseudo_counts=pcs, state_names=dict(sn))
                return bad("impl!=spec:invalid-call-accepted", {"step": k, "what": stp["what"]})
            except ValueError:
                pass
            if (sorted(map(str, m.nodes())), sorted(map(str, m.edges()))) != gs:
                return bad("impl!=spec:rejected-call-changed-graph", {"step": k})
            if cur:
                for i in cur_nodes:
                    c = m.get_cpds(names[i])
                    if c is None or not same_named(before[i], cpd_named_values(sub, st, i, c), 0.0):
                        return bad("impl!=spec:rejected-call-changed-cpds", {"step": k, "what": stp["what"], "node": str(names[i])})
            check_frame_unchanged(df, df_snap)
            continue
        elif op == "add_edge":
            m.add_edge(names[stp["e"][0]], names[stp["e"][1]])
            cur_edges.append(stp["e"])
            cur = None
            continue
        elif op == "remove_edge":
            m.remove_edge(names[stp["e"][0]], names[stp["e"][1]])
            cur_edges = [e for e in cur_edges if e != stp["e"]]
            cur = None
            continue
        elif op == "remove_edges_from":
            m.remove_edges_from([(names[stp["e"][0]], names[stp["e"][1]])])
            cur_edges = [e for e in cur_edges if e != stp["e"]]
            cur = None
            continue
        else:
            m.remove_node(names[stp["v"]])
            cur_nodes = [v for v in cur_nodes if v != stp["v"]]
            cur_edges = [e for e in cur_edges if stp["v"] not in e]
            cur = None
            continue
        # after fit / fit_update: one CPD per CURRENT node, equal to the model's
        check_frame_unchanged(df, df_snap)
        got = {c.variable: c for c in m.get_cpds()}
        if set(got) != set(names[i] for i in cur_nodes) or len(m.get_cpds()) != len(cur_nodes):
            return bad("impl!=model:objsession-nodes", {"step": k, "op": op, "impl": sorted(map(str, got))})
        cur = tables_from_reply(sub, st, vid, cards, cur_nodes, reply)
        for i in cur_nodes:
            ps_ids, named = cur[i]
            r = compare_cpd(sub, st, vid, i, got[names[i]], named, ps_ids, 1e-9, "objsession-step%d-%s" % (k, op))
            if isinstance(r, dict):
                r["detail"]["ops_so_far"] = [x["op"] for x in case["steps"][:k + 1]]
                return r
        if not m.check_model():
            return bad("impl!=spec:fitted-model-validates", {"step": k})
    return ok(nontrivial=True, key=common.canon_key(_key(case) + [case["steps"]]), tags=sorted(set(tags)))


def run_estsession(case, drv):
    from pgmpy.models import BayesianNetwork
    from pgmpy.estimators import MaximumLikelihoodEstimator, BayesianEstimator
    names = case["names"]
    st = col_states(case)
    vid, cards, cols, rows = model_frame(case, st)
    df = make_frame(case)
    df_snap = snap_frame(df)
    g = make_graph(case, BayesianNetwork)
    gsig = graph_sig(g)
    sn = state_names_kw(case)
    cls = MaximumLikelihoodEstimator if case["cls"] == "mle" else BayesianEstimator
    e = cls(g, df, state_names=sn) if sn else cls(g, df)
    tags = ["estsession cls=" + case["cls"], "estsession steps=%d" % len(case["steps"])]
    inv = {vid[k]: k for k in range(len(names))}
    for k, stp in enumerate(case["steps"]):
        w = case["weights"] if stp["weighted"] else [[1, 1]] * len(rows)
        wrows = [[r, fr(x)] for r, x in zip(rows, w)]
        i = stp["node"]
        call = stp["call"]
        tags.append("estsession call=%s%s" % (call, " weighted" if stp["weighted"] else ""))
        sub = dict(case, est=stp.get("prior", "mle"), ess=stp.get("ess"), c=stp.get("c"))
        kw = {}
        if case["cls"] == "be":
            kw = {"k2": {"prior_type": "K2"}, "bdeu": {"prior_type": "BDeu", "equivalent_sample_size": (stp.get("ess") or [5, 1])[0] / (stp.get("ess") or [5, 1])[1]},
                  "scalar": {"prior_type": "dirichlet", "pseudo_counts": (stp.get("c") or [1, 1])[0] / (stp.get("c") or [1, 1])[1]}}[stp["prior"]]
        if call == "state_counts":
            ps_ids, named = decode_named(drv.call("c06_counts", [cards, cols, wrows, vid[i], [vid[u] for u in parents_of(case, i)]]))
            ps = [inv[p_] for p_ in ps_ids]
            form = (k + case.get("mseed", 0)) % 5
            if form == 0 or not ps:
                sc = e.state_counts(names[i], weighted=stp["weighted"])
            else:
                # the documented base-class form: parents as any iterable (tuple, one-shot generator, pandas Index
                # of labels, dict view), here in the estimator's own (sorted) order
                import pandas as pd
                from pgmpy.estimators import BaseEstimator
                plist = [fresh(names[u]) for u in ps]
                arg = {1: tuple(plist), 2: (x_ for x_ in plist), 3: dict.fromkeys(plist).keys(),
                       4: pd.Index(plist, tupleize_cols=False) if not isinstance(plist[0], tuple) else iter(plist)}[form]
                sc = BaseEstimator.state_counts(e, names[i], parents=arg, weighted=stp["weighted"])
                tags.append("state_counts parents as %s" % type(arg).__name__)
            if list(sc.index) != [raw(_col(case, i), s_) for s_ in st[i]]:
                return bad("impl!=model:state_counts-index", {"node": str(names[i]), "impl": list(map(str, sc.index))})
            if ps and list(sc.columns.names) != [names[u] for u in ps]:
                return bad("impl!=model:state_counts-column-levels", {"node": str(names[i]), "impl": list(map(str, sc.columns.names))})
            for pi in itertools.product(*[range(len(st[u])) for u in ps]):
                for x in range(len(st[i])):
                    rlab = raw(_col(case, i), st[i][x])
                    if ps:
                        clab = tuple(raw(_col(case, u), st[u][s_]) for u, s_ in zip(ps, pi))
                        got = float(sc.loc[rlab, clab if len(clab) > 1 else clab])
                    else:
                        got = float(sc.loc[rlab].iloc[0])
                    if not close(got, named[(x, tuple(pi))], 1e-9):
                        return bad("impl!=model:state_counts-value", {"node": str(names[i]), "step": k, "weighted": stp["weighted"],
                                                                     "impl": got, "model": str(named[(x, tuple(pi))])})
            if stp["mutate"]:
                sc.iloc[:, :] = 3.0
            continue
        targets = list(case["nodes"]) if call == "get_parameters" else [i]
        reply = drv.call("c06_fit", [cards, cols, wrows, [[vid[t], [vid[u] for u in parents_of(case, t)]] for t in targets],
                                     prior_wire(sub, vid)])
        if call == "get_parameters":
            res = e.get_parameters(weighted=stp["weighted"], **kw)
        else:
            res = [e.estimate_cpd(names[i], weighted=stp["weighted"], **kw)]
        res = {c.variable: c for c in res}
        if set(res) != set(names[t] for t in targets):
            return bad("impl!=model:estsession-nodes", {"step": k, "impl": sorted(map(str, res))})
        for t, rep in zip(targets, reply):
            ps_ids, named = decode_named(rep)
            r = compare_cpd(case, st, vid, t, res[names[t]], named, ps_ids, 1e-9, "estsession-step%d-%s" % (k, call))
            if isinstance(r, dict):
                r["detail"]["calls_so_far"] = [(x["call"], x["weighted"], x.get("prior")) for x in case["steps"][:k + 1]]
                return r
        if stp["mutate"]:
            for c in res.values():
                c.values[...] = 0.5
    check_frame_unchanged(df, df_snap)
    if graph_sig(g) != gsig:
        raise Impure("the model passed to the estimator was modified")
    return ok(nontrivial=any(parents_of(case, i) for i in case["nodes"]),
              key=common.canon_key(_key(case) + [case["steps"], case["cls"]]), tags=sorted(set(tags)))


def run_case(case, drv):
    """backend switch (numpy / torch float64 on cpu) and the argument-purity verdict around the per-kind runners"""
    case = fix_names(case)
    torch_on = case.get("backend") == "torch"
    if torch_on:
        import torch
        from pgmpy import config
        config.set_backend("torch", device="cpu", dtype=torch.float64)
        TOL_FLOOR[0] = 1e-5
    else:
        TOL_FLOOR[0] = 0.0
    try:
        out = run_case_kind(case, drv)
    except Impure as e:
        out = bad("impl!=spec:argument-modified", {"what": str(e)})
    finally:
        if torch_on:
            config.set_backend("numpy")
    if out is not None and "tags" in out:
        out["tags"] = list(out["tags"]) + ["backend=" + case.get("backend", "numpy"), "index=" + case.get("index", "range")]
    return out


def run_case_kind(case, drv):
    if case["kind"] == "session":
        return run_session(case, drv)
    if case["kind"] == "objsession":
        return run_objsession(case, drv)
    if case["kind"] == "estsession":
        return run_estsession(case, drv)
    k = case["kind"]
    if k == "fit":
        return run_fit(case, drv)
    if k == "reject":
        return run_reject(case, drv)
    if k == "fit_update":
        return run_fit_update(case, drv)
    return run_em(case, drv)
