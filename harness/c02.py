"""C02 correspondence: pgmpy BeliefPropagation (calibrate / max_calibrate / query / map_query) vs the Coq
model of belief-update message passing on the SAME clique tree (coq/C02/Model.v, theorems in Props.v),
vs exact brute-force marginals / posteriors, and vs VariableElimination on the same model."""
import itertools
import random
from fractions import Fraction

from harness import common
from harness.common import ok, bad

PROP = "C02"
LEVEL = "proof"
HASHSEEDS = {"quick": [0, 1, 2, 3], "thorough": list(range(16))}
BUDGET_S = {"quick": 150, "thorough": 1500}
EXHAUSTIVE = {"quick": False, "thorough": False}
RULE = ("connected Bayesian networks (random DAGs, the fill-in shapes A>B>C>D,A>E>D and longer cycles, chains, "
        "stars, v-structures), Markov networks (incl. chordless 4/5-cycles), factor graphs and hand-built "
        "JunctionTree objects (random RIP trees, half of them with 2-3 factors, also equal ones, on a clique; a few non-RIP trees where only model==pgmpy is compared); "
        "cardinalities 2-3, dyadic potentials with exact zeros, node names str/int/tuple/mixed, state names "
        "str/int/mixed; every model is run under every PYTHONHASHSEED of the tier (clique order, spanning tree "
        "and factor placement depend on it).  Per model: calibrate and max_calibrate (every clique and sepset "
        "belief vs the model on the same tree, exact equality of the model's beliefs with brute-force sum-/max-"
        "marginals, neighbour agreement, the verified junction-tree and schedule certificates on pgmpy's tree), then queries: "
        "ALL disjoint (Q,E) subsets when n<=4, a random sample otherwise, evidence by state NAME, joint True/False, "
        "virtual evidence (BN), map_query.  A case is non-trivial when the tree has >=2 cliques and at least one "
        "query has evidence; distinct = distinct (model, hash seed)")
TRUSTED_BASE = ["junction-tree CONSTRUCTION (triangulation, cliques, spanning tree, factor assignment) is taken as "
                "an input from pgmpy (property C14); here its output is checked by the verified certificate jt_chk "
                "and its potentials' product by brute force against the model's factors",
                "networkx neighbors()/bfs_edges order is read off pgmpy's own tree and given to the model as the "
                "order parameter",
                "opt_einsum contraction in VariableElimination.query is modelled as sum-product elimination "
                "(Base/VE.v: every order gives the same result)"]
ASSUMPTIONS = ["floats are exact dyadics on input; outputs compared at 1e-9 relative to the table's largest entry",
               "pgmpy's convergence test uses numpy.allclose, the model's is exact; final beliefs do not depend on "
               "where the loop stops once calibrated",
               "for Bayesian networks pgmpy drops evidence d-separated from the query before BP (C01's pruning "
               "theorem); the model conditions on all evidence; cases with P(evidence)=0 are not compared"]

TOL = 1e-9


# ------------------------------------------------------------------ generation
def F2(x):
    return [x.numerator, x.denominator]


def rand_table(rng, size, zeros):
    den = rng.choice([2, 4, 8])
    out = []
    for _ in range(size):
        if zeros and rng.random() < 0.2:
            out.append(Fraction(0))
        else:
            out.append(Fraction(rng.randint(1, 2 * den), den))
    if all(x == 0 for x in out):
        out[rng.randrange(size)] = Fraction(1)
    return out


def connected(n, und):
    seen = {0}
    stack = [0]
    while stack:
        u = stack.pop()
        for a, b in und:
            for x, y in ((a, b), (b, a)):
                if x == u and y not in seen:
                    seen.add(y)
                    stack.append(y)
    return len(seen) == n


BN_SHAPES = [
    (5, [(0, 1), (1, 2), (2, 3), (0, 4), (4, 3)]),            # D1's example: fill-in needed
    (4, [(0, 1), (0, 2), (1, 3), (2, 3)]),                    # diamond
    (6, [(0, 1), (1, 2), (2, 3), (0, 4), (4, 5), (5, 3)]),    # 6-cycle after moralisation
    (4, [(0, 1), (1, 2), (2, 3)]),                            # chain
    (4, [(0, 1), (0, 2), (0, 3)]),                            # star
    (3, [(0, 2), (1, 2)]),                                    # collider
    (5, [(0, 2), (1, 2), (2, 3), (2, 4)]),
    (2, [(0, 1)]),
    (5, [(0, 1), (1, 2), (2, 3), (3, 4)]),
]
MN_SHAPES = [
    (4, [[0, 1], [1, 2], [2, 3], [3, 0]]),                    # chordless 4-cycle
    (5, [[0, 1], [1, 2], [2, 3], [3, 4], [4, 0]]),            # chordless 5-cycle
    (4, [[0, 1], [1, 2], [2, 3]]),
    (4, [[0, 1, 2], [2, 3]]),
    (3, [[0, 1], [1, 2], [0, 2]]),
    (5, [[0, 1], [0, 2], [0, 3], [0, 4]]),
    (2, [[0, 1]]),
]


def gen_bn(rng, tier):
    if rng.random() < 0.5:
        n, edges = rng.choice(BN_SHAPES)
        perm = list(range(n))
        rng.shuffle(perm)
        edges = [(perm[a], perm[b]) for a, b in edges]
    else:
        while True:
            n = rng.randint(2, 6 if tier == "quick" else 7)
            _, edges = common.rand_dag(rng, n, p=rng.choice([0.3, 0.5, 0.7]))
            if connected(n, edges) and all(sum(1 for (a, b) in edges if b == v) <= 3 for v in range(n)):
                break
    cards = [rng.choice([2, 2, 3]) for _ in range(n)]
    zeros = rng.random() < 0.4
    factors = []
    for v in range(n):
        pa = [a for (a, b) in edges if b == v]
        rng.shuffle(pa)
        ncol = 1
        for p in pa:
            ncol *= cards[p]
        cols = [common.rand_column(rng, cards[v], zeros=zeros) for _ in range(ncol)]
        # table over [v]+pa, row-major: entry (state of v, parent configuration)
        tab = [cols[c][s] for s in range(cards[v]) for c in range(ncol)]
        factors.append({"scope": [v] + pa, "values": [F2(x) for x in tab]})
    rng.shuffle(edges)
    return {"kind": "bn", "n": n, "cards": cards, "edges": [list(e) for e in edges], "factors": factors}


def gen_mn(rng, tier, kind="mn"):
    if rng.random() < 0.6:
        n, scopes = rng.choice(MN_SHAPES)
        perm = list(range(n))
        rng.shuffle(perm)
        scopes = [[perm[a] for a in s] for s in scopes]
    else:
        while True:
            n = rng.randint(2, 6)
            scopes = []
            for _ in range(rng.randint(n - 1, n + 2)):
                k = rng.choice([2, 2, 2, 3]) if n >= 3 else 2
                scopes.append(rng.sample(range(n), k))
            und = [(s[i], s[j]) for s in scopes for i in range(len(s)) for j in range(i + 1, len(s))]
            if connected(n, und):
                break
    # single-variable factors too (they land in some clique)
    for v in range(n):
        if rng.random() < 0.25:
            scopes.append([v])
    # pairwise-distinct factors (equal factors collapse: finding D2, property C14): distinct scope sets
    seen = set()
    uniq = []
    for s in scopes:
        key = frozenset(s)
        if key not in seen:
            seen.add(key)
            uniq.append(s)
    scopes = uniq
    cards = [rng.choice([2, 2, 3]) for _ in range(n)]
    zeros = rng.random() < 0.4
    factors = []
    for s in scopes:
        size = 1
        for v in s:
            size *= cards[v]
        factors.append({"scope": list(s), "values": [F2(x) for x in rand_table(rng, size, zeros)]})
    return {"kind": kind, "n": n, "cards": cards, "factors": factors}


def gen_jt(rng, tier, rip=True, multi=False):
    """hand-built JunctionTree with the running-intersection property by construction"""
    ncl = rng.randint(1, 5)
    nv = 0
    cliques = []
    tedges = []
    first = list(range(rng.randint(1, 3)))
    nv = len(first)
    cliques.append(first)
    for i in range(1, ncl):
        if nv >= 6:
            break
        p = rng.randrange(len(cliques))
        cp = cliques[p]
        s = rng.sample(cp, rng.randint(1, len(cp)))
        new = list(range(nv, nv + rng.randint(1, 2)))
        if len(s) == len(cp) and not new:
            new = [nv]
        nv += len(new)
        c = s + new
        rng.shuffle(c)
        cliques.append(c)
        tedges.append([p, len(cliques) - 1] if rng.random() < 0.5 else [len(cliques) - 1, p])
    cards = [rng.choice([2, 2, 3]) for _ in range(nv)]
    zeros = rng.random() < 0.4
    factors = []
    for c in cliques:
        sc = list(c)
        rng.shuffle(sc)
        size = 1
        for v in sc:
            size *= cards[v]
        factors.append({"scope": sc, "values": [F2(x) for x in rand_table(rng, size, zeros)]})
    if multi:
        # 2-3 factors on one (sometimes two) cliques, in other axis orders, sometimes EQUAL factors
        for _ in range(rng.choice([1, 1, 2])):
            ci = rng.randrange(len(cliques))
            for _ in range(rng.choice([1, 2])):
                base = [f for f in factors if set(f["scope"]) == set(cliques[ci])]
                if rng.random() < 0.35:
                    factors.append({"scope": list(base[0]["scope"]), "values": list(base[0]["values"])})
                else:
                    sc = list(cliques[ci])
                    rng.shuffle(sc)
                    size = 1
                    for v in sc:
                        size *= cards[v]
                    factors.append({"scope": sc, "values": [F2(x) for x in rand_table(rng, size, zeros)]})
        rng.shuffle(factors)
    order = list(range(len(tedges)))
    rng.shuffle(order)
    return {"kind": "jt", "n": nv, "cards": cards, "cliques": cliques, "tedges": [tedges[i] for i in order],
            "factors": factors, "rip": True, "multi": bool(multi)}


def gen_jt_nonrip(rng):
    """a path of cliques whose ends share a variable the middle lacks: accepted by JunctionTree, not a junction tree"""
    cliques = [[0, 1], [1, 2], [2, 0]]
    if rng.random() < 0.5:
        cliques = [[0, 1], [1, 2], [2, 3], [3, 0]]
    n = 1 + max(max(c) for c in cliques)
    tedges = [[i, i + 1] for i in range(len(cliques) - 1)]
    cards = [2] * n
    factors = [{"scope": list(c), "values": [F2(x) for x in rand_table(rng, 4, False)]} for c in cliques]
    return {"kind": "jt", "n": n, "cards": cards, "cliques": cliques, "tedges": tedges, "factors": factors,
            "rip": False}


def cases(tier, seed):
    rng = random.Random(seed)
    hs = HASHSEEDS[tier]
    nmodels = {"quick": (36, 22, 10, 16, 3), "thorough": (160, 90, 40, 60, 6)}[tier]
    models = []
    for _ in range(nmodels[0]):
        models.append(gen_bn(rng, tier))
    for _ in range(nmodels[1]):
        models.append(gen_mn(rng, tier))
    for _ in range(nmodels[2]):
        models.append(gen_mn(rng, tier, kind="fg"))
    for i in range(nmodels[3]):
        models.append(gen_jt(rng, tier, multi=(i % 2 == 1)))
    for _ in range(nmodels[4]):
        models.append(gen_jt_nonrip(rng))
    out = []
    for mi, m in enumerate(models):
        m["vstyle"] = rng.choice(common.NAME_STYLES)
        m["sstyle"] = rng.choice(["str", "str", "int", "mixed"])
        m["nameseed"] = rng.randint(0, 10 ** 9)
        m["qseed"] = rng.randint(0, 10 ** 9)
        for h in hs:
            c = dict(m)
            c["hashseed"] = h
            out.append(c)
    return out


def shrink(case):
    if case["kind"] in ("mn", "fg") and len(case["factors"]) > 1:
        for i in range(len(case["factors"])):
            c = dict(case)
            c["factors"] = case["factors"][:i] + case["factors"][i + 1:]
            und = [(s["scope"][a], s["scope"][b]) for s in c["factors"] for a in range(len(s["scope"]))
                   for b in range(a + 1, len(s["scope"]))]
            cover = set(v for s in c["factors"] for v in s["scope"])
            if len(cover) == case["n"] and connected(case["n"], und):
                yield c


# ------------------------------------------------------------------ names
def var_names(case):
    rng = random.Random(case["nameseed"])
    return common.node_names(rng, case["n"], case["vstyle"])


def state_names(case):
    """per variable index: list of state names (index order)"""
    rng = random.Random(case["nameseed"] + 17)
    out = []
    for v, c in enumerate(case["cards"]):
        st = case["sstyle"]
        if st == "int":
            out.append(list(range(c)))
        elif st == "str":
            pool = rng.choice([["x", "y", "z"], ["lo", "mid", "hi"], ["s0", "s1", "s2"], ["no", "yes", "maybe"]])
            out.append(pool[:c])
        else:
            pool = ["a", 7, "c"] if rng.random() < 0.5 else [5, "b", 9]
            out.append(pool[:c])
    return out


# ------------------------------------------------------------------ pgmpy side
class StateNameMismatch(Exception):
    pass


def table(f, vs, states_by_name):
    """flat row-major table of DiscreteFactor f over the variable order vs and OUR state order"""
    import numpy as np
    vals = np.asarray(f.values, dtype=float)
    fv = list(f.variables)
    if len(fv) != len(vs) or any(v not in fv for v in vs):
        raise StateNameMismatch("scope %r vs %r" % (fv, vs))
    vals = np.transpose(vals, [fv.index(v) for v in vs]) if len(vs) else vals
    for ax, v in enumerate(vs):
        sn = list(f.state_names[v])
        want = states_by_name[v]
        if len(sn) != len(want):
            raise StateNameMismatch("cardinality of %r" % (v,))
        try:
            idx = [sn.index(s) for s in want]
        except ValueError:
            raise StateNameMismatch("state names of %r are %r, the model's are %r" % (v, sn, want))
        for s, t in zip(want, [sn[i] for i in idx]):
            if type(s) is not type(t):
                raise StateNameMismatch("state names of %r are %r, the model's are %r" % (v, sn, want))
        vals = np.take(vals, idx, axis=ax)
    return [float(x) for x in vals.reshape(-1)]


def build(case):
    import numpy as np
    from pgmpy.factors.discrete import DiscreteFactor, TabularCPD
    names = var_names(case)
    sts = state_names(case)
    cards = case["cards"]
    sbn = {names[v]: sts[v] for v in range(case["n"])}

    def mk_factor(fd):
        sc = fd["scope"]
        vals = [float(Fraction(a, b)) for a, b in fd["values"]]
        return DiscreteFactor([names[v] for v in sc], [cards[v] for v in sc], vals,
                              state_names={names[v]: sts[v] for v in sc})

    kind = case["kind"]
    if kind == "bn":
        from pgmpy.models import BayesianNetwork
        m = BayesianNetwork()
        m.add_nodes_from([names[v] for v in range(case["n"])])
        m.add_edges_from([(names[a], names[b]) for a, b in case["edges"]])
        for fd in case["factors"]:
            v, pa = fd["scope"][0], fd["scope"][1:]
            vals = np.array([float(Fraction(a, b)) for a, b in fd["values"]]).reshape(cards[v], -1)
            m.add_cpds(TabularCPD(names[v], cards[v], vals, evidence=[names[p] for p in pa] or None,
                                  evidence_card=[cards[p] for p in pa] or None,
                                  state_names={names[x]: sts[x] for x in fd["scope"]}))
    elif kind == "mn":
        from pgmpy.models import MarkovNetwork
        m = MarkovNetwork()
        m.add_nodes_from([names[v] for v in range(case["n"])])
        for fd in case["factors"]:
            sc = fd["scope"]
            for i in range(len(sc)):
                for j in range(i + 1, len(sc)):
                    m.add_edge(names[sc[i]], names[sc[j]])
        m.add_factors(*[mk_factor(fd) for fd in case["factors"]])
    elif kind == "fg":
        from pgmpy.models import FactorGraph
        m = FactorGraph()
        m.add_nodes_from([names[v] for v in range(case["n"])])
        fs = [mk_factor(fd) for fd in case["factors"]]
        m.add_factors(*fs)
        for f in fs:
            for v in f.variables:
                m.add_edge(v, f)
    else:
        from pgmpy.models import JunctionTree
        m = JunctionTree()
        cl = [tuple(names[v] for v in c) for c in case["cliques"]]
        for c in cl:
            m.add_node(c)
        for a, b in case["tedges"]:
            m.add_edge(cl[a], cl[b])
        m.add_factors(*[mk_factor(fd) for fd in case["factors"]])
    return m, names, sts, sbn


def extract_tree(jt, vid, sbn):
    cliques = [tuple(c) for c in jt.nodes()]
    cidx = {c: i for i, c in enumerate(cliques)}
    edges = [[cidx[tuple(u)], cidx[tuple(v)]] for u, v in jt.edges()]
    adj = [[cidx[tuple(x)] for x in jt.neighbors(c)] for c in cliques]
    pots = []
    for c in cliques:
        group = []
        for f in jt.get_factors():
            if set(f.scope()) == set(c):
                fv = list(f.variables)
                group.append([[vid[v] for v in fv], [Fraction(x) for x in table(f, fv, sbn)]])
        pots.append(group)
    return cliques, edges, adj, pots


# ------------------------------------------------------------------ exact brute force in Python
def brute_joint(case):
    cards = case["cards"]
    n = case["n"]
    facs = [(fd["scope"], [Fraction(a, b) for a, b in fd["values"]]) for fd in case["factors"]]
    joint = {}
    for asg in itertools.product(*[range(c) for c in cards]):
        p = Fraction(1)
        for sc, vals in facs:
            k = 0
            for v in sc:
                k = k * cards[v] + asg[v]
            p *= vals[k]
            if p == 0:
                break
        joint[asg] = p
    return joint


def brute_table(joint, cards, keep, ev=None, weights=None, op="sum"):
    ev = ev or {}
    out = {}
    for asg, p in joint.items():
        if any(asg[v] != s for v, s in ev.items()):
            continue
        if weights:
            for v, w in weights.items():
                p = p * w[asg[v]]
        key = tuple(asg[v] for v in keep)
        if op == "sum":
            out[key] = out.get(key, Fraction(0)) + p
        else:
            out[key] = max(out.get(key, Fraction(0)), p)
    return [out.get(k, Fraction(0)) for k in itertools.product(*[range(cards[v]) for v in keep])]


def close_tab(impl, model):
    if len(impl) != len(model):
        return False
    scale = max([abs(float(x)) for x in model] + [1e-300])
    for a, b in zip(impl, model):
        a = float(a)
        if a != a or abs(a - float(b)) > TOL * scale:
            return False
    return True


def fr(l):
    return [Fraction(p[0], p[1]) for p in l]


def normalise(tab):
    t = sum(tab)
    if t == 0:
        return None
    return [x / t for x in tab]


# ------------------------------------------------------------------ the case
def run_case(case, drv):
    from pgmpy.inference import BeliefPropagation, VariableElimination
    m, names, sts, sbn = build(case)
    n = case["n"]
    cards = case["cards"]
    kind = case["kind"]
    vid = {names[v]: v for v in range(n)}
    rng = random.Random(case["qseed"])
    tags = ["kind=" + kind, "n=%d" % n, "states=" + case["sstyle"], "names=" + case["vstyle"]]
    key = common.canon_key([kind, n, cards, case.get("edges"), case.get("cliques"), case.get("tedges"),
                            case["factors"], case["vstyle"], case["sstyle"], case.get("hashseed")])
    rip = case.get("rip", True)
    if case.get("multi"):
        tags.append("several factors on one clique")
        if len({(tuple(sorted(f["scope"])), tuple(map(tuple, f["values"])), tuple(f["scope"])) for f in case["factors"]}) < len(case["factors"]):
            tags.append("equal factors on one clique")
    joint = brute_joint(case)

    bp = BeliefPropagation(m)
    try:
        cliques, edges, adj, pots = extract_tree(bp.junction_tree, vid, sbn)
    except StateNameMismatch as e:
        return bad("impl!=spec:clique-potential-state-names", {"error": str(e)}, key=key, tags=tags)
    ncl = len(cliques)
    tags += ["cliques=%d" % ncl, "maxclique=%d" % max(len(c) for c in cliques)]
    req = [cards, [[vid[v] for v in c] for c in cliques], edges, adj, pots]
    multi = sum(1 for v in range(n) if sum(1 for c in cliques if names[v] in c) >= 2)

    # ---- calibration, both operations
    for op, entry, meth in (("sum", "c02_calibrate", "calibrate"), ("max", "c02_max_calibrate", "max_calibrate")):
        rep = drv.call(entry, req)
        jt_ok, sched_ok, conv, mbel, msep, bbel, bsep = rep
        if not sched_ok:
            return bad("checker:sched_chk", {"cliques": req[1], "edges": edges, "adj": adj}, key=key, tags=tags)
        if bool(jt_ok) != bool(rip):
            return bad("checker:jt_chk", {"jt_chk": jt_ok, "expected": rip, "cliques": req[1], "edges": edges},
                       key=key, tags=tags)
        getattr(bp, meth)()
        cb = bp.get_clique_beliefs()
        sb = bp.get_sepset_beliefs()
        if set(cb.keys()) != set(cliques):
            return bad("impl!=model:clique-belief-keys", {"impl": [list(c) for c in cb.keys()]}, key=key, tags=tags)
        for i, c in enumerate(cliques):
            try:
                it = table(cb[c], list(c), sbn)
            except StateNameMismatch as e:
                return bad("impl!=spec:belief-scope-or-state-names", {"op": op, "clique": i, "error": str(e)}, key=key, tags=tags)
            mt = fr(mbel[i])
            if not close_tab(it, mt):
                return bad("impl!=model:clique-belief", {"op": op, "clique": [vid[v] for v in c], "impl": it,
                                                           "model": [float(x) for x in mt]}, key=key, tags=tags)
            if rip:
                bt = fr(bbel[i])
                pt = brute_table(joint, cards, [vid[v] for v in c], op=op)
                if bt != pt:
                    return bad("impl!=spec:clique-potentials-product", {"op": op, "clique": [vid[v] for v in c]},
                               key=key, tags=tags)
                if mt != bt:
                    return bad("model!=spec:clique-belief-not-marginal", {"op": op, "clique": [vid[v] for v in c],
                               "model": [float(x) for x in mt], "brute": [float(x) for x in bt]}, key=key, tags=tags)
                if not close_tab(it, bt):
                    return bad("impl!=spec:clique-belief-not-marginal", {"op": op, "clique": [vid[v] for v in c],
                               "impl": it, "brute": [float(x) for x in bt]}, key=key, tags=tags)
        if rip and not conv:
            return bad("model!=spec:not-converged", {"op": op}, key=key, tags=tags)
        if len(sb) != len(edges):
            return bad("impl!=model:sepset-keys", {"impl": len(sb), "model": len(edges)}, key=key, tags=tags)
        for k, (i, j) in enumerate(edges):
            S, mu = msep[k]
            skey = frozenset([cliques[i], cliques[j]])
            if skey not in sb or sb[skey] is None or not mu:
                return bad("impl!=model:sepset-missing", {"op": op, "edge": [i, j]}, key=key, tags=tags)
            Sn = [names[v] for v in S]
            if set(Sn) != set(cliques[i]) & set(cliques[j]):
                return bad("model-inconsistent:sepset-scope", {"edge": [i, j]}, key=key, tags=tags)
            try:
                it = table(sb[skey], Sn, sbn)
            except StateNameMismatch as e:
                return bad("impl!=spec:sepset-scope-or-state-names", {"op": op, "edge": [i, j], "error": str(e)},
                           key=key, tags=tags)
            mt = fr(mu[0])
            if not close_tab(it, mt):
                return bad("impl!=model:sepset-belief", {"op": op, "edge": [i, j], "impl": it,
                                                           "model": [float(x) for x in mt]}, key=key, tags=tags)
            if rip and mt != fr(bsep[k]):
                return bad("model!=spec:sepset-belief-not-marginal", {"op": op, "edge": [i, j]}, key=key, tags=tags)
            # neighbours agree on the sepset (pgmpy's own marginalisation of both clique beliefs)
            oper = "marginalize" if op == "sum" else "maximize"
            for c in (cliques[i], cliques[j]):
                mg = getattr(cb[c], oper)([v for v in c if v not in Sn], inplace=False)
                if not close_tab(table(mg, Sn, sbn), mt if rip else table(sb[skey], Sn, sbn)):
                    if rip:
                        return bad("impl!=spec:neighbours-disagree-on-sepset", {"op": op, "edge": [i, j]},
                                   key=key, tags=tags)
    if not rip:
        tags.append("non-RIP tree: model==pgmpy only")
        return ok(nontrivial=True, key=key, tags=tags)

    # ---- queries
    allv = list(range(n))
    qs = []
    if n <= 4:
        for lab in itertools.product((0, 1, 2), repeat=n):
            Q = [v for v in allv if lab[v] == 1]
            E = [v for v in allv if lab[v] == 2]
            if Q:
                qs.append((Q, E))
        tags.append("queries=all-subsets")
        if len(qs) > 40:
            qs = rng.sample(qs, 40)
    else:
        for _ in range(10):
            k = rng.randint(1, min(3, n))
            Q = rng.sample(allv, k)
            rest = [v for v in allv if v not in Q]
            E = rng.sample(rest, rng.randint(0, min(3, len(rest))))
            qs.append((Q, E))
        tags.append("queries=sample")
    # reference VE: VariableElimination(FactorGraph).query raises AttributeError ('states') in the default
    # greedy path (observation reported to C01), so factor graphs are referred to their Markov network
    ve = VariableElimination(m.to_markov_model() if kind == "fg" else m)
    n_ev = 0
    n_multi_ev = 0
    for qi, (Q, E) in enumerate(qs):
        # evidence values: prefer a configuration of positive probability
        full = None
        pos = [a for a, p in joint.items() if p > 0]
        if pos and rng.random() < 0.9:
            full = rng.choice(pos)
        ev = {v: (full[v] if full else rng.randrange(cards[v])) for v in E}
        jointflag = (qi % 3 != 2)
        rng.shuffle(Q)
        Qn = [names[v] for v in Q]
        evn = {names[v]: sts[v][s] for v, s in ev.items()}
        detail = {"Q": Q, "evidence": {str(v): s for v, s in ev.items()}, "joint": jointflag}
        bt = brute_table(joint, cards, Q, ev=ev)
        bnorm = normalise(bt)
        try:
            cl2, ed2, adj2, pots2 = extract_tree(bp.junction_tree, vid, sbn)
        except StateNameMismatch as e:
            return bad("impl!=spec:clique-potential-state-names", {"error": str(e)}, key=key, tags=tags)
        req2 = [cards, [[vid[v] for v in c] for c in cl2], ed2, adj2, pots2, Q, [[v, s] for v, s in ev.items()]]
        cert, mtab, mper, mbrute, msub = drv.call("c02_query", req2)
        mtab = fr(mtab)
        if not cert:
            return bad("checker:query-certificate", dict(detail, sub=msub), key=key, tags=tags)
        if fr(mbrute) != bt:
            return bad("model-inconsistent:brute", detail, key=key, tags=tags)
        if mtab != bt:
            return bad("model!=spec:query", dict(detail, model=[float(x) for x in mtab], brute=[float(x) for x in bt]),
                       key=key, tags=tags)
        if bnorm is None:
            tags.append("zero-probability evidence (not compared)")
            continue
        if E:
            n_ev += 1
            if any(sum(1 for c in cliques if names[v] in c) >= 2 for v in E):
                n_multi_ev += 1
        try:
            res = bp.query(Qn, evidence=dict(evn), joint=jointflag, show_progress=False)
        except Exception as e:  # every query with evidence by name must succeed
            return bad("impl!=spec:query-raises", dict(detail, error=repr(e)[:300]), key=key, tags=tags)
        try:
            if jointflag:
                vres = ve.query(Qn, evidence=dict(evn), joint=True, show_progress=False)
                vt = normalise([Fraction(x) for x in table(vres, Qn, sbn)])
                it = table(res, Qn, sbn)
                if not close_tab(it, bnorm):
                    return bad("impl!=spec:query", dict(detail, impl=it, brute=[float(x) for x in bnorm]),
                               key=key, tags=tags)
                if vt is None or not close_tab(it, vt):
                    return bad("impl!=VE:query", dict(detail, impl=it), key=key, tags=tags)
            else:
                if set(res.keys()) != set(Qn):
                    return bad("impl!=spec:query-keys", detail, key=key, tags=tags)
                for pos_, v in enumerate(Q):
                    it = table(res[names[v]], [names[v]], sbn)
                    b1 = normalise(brute_table(joint, cards, [v], ev=ev))
                    m1 = normalise(fr(mper[pos_]))
                    if m1 != b1:
                        return bad("model!=spec:query-marginal", dict(detail, var=v), key=key, tags=tags)
                    if not close_tab(it, b1):
                        return bad("impl!=spec:query-marginal", dict(detail, var=v, impl=it,
                                                                      brute=[float(x) for x in b1]), key=key, tags=tags)
        except StateNameMismatch as e:
            return bad("impl!=spec:result-state-names", dict(detail, error=str(e)), key=key, tags=tags)
        tags.append("joint=%s" % jointflag)
        tags.append("evidence=%d" % len(E))

        # map_query on the same (Q, E) for some of them
        if qi % 4 == 0:
            try:
                mp = bp.map_query(Qn, evidence=dict(evn), show_progress=False)
            except Exception as e:
                return bad("impl!=spec:map_query-raises", dict(detail, error=repr(e)[:300]), key=key, tags=tags)
            if set(mp.keys()) != set(Qn):
                return bad("impl!=spec:map_query-keys", detail, key=key, tags=tags)
            idx = 0
            for v in Q:
                if mp[names[v]] not in sts[v] or type(mp[names[v]]) is not type(sts[v][sts[v].index(mp[names[v]])]):
                    return bad("impl!=spec:map_query-state-name", dict(detail, var=v, got=repr(mp[names[v]])),
                               key=key, tags=tags)
                idx = idx * cards[v] + sts[v].index(mp[names[v]])
            best = max(bnorm)
            if float(bnorm[idx]) < float(best) - 1e-9:
                return bad("impl!=spec:map_query-not-maximal", dict(detail, got=float(bnorm[idx]), best=float(best)),
                           key=key, tags=tags)
            tags.append("map_query")

    # ---- virtual evidence (Bayesian networks)
    if kind == "bn":
        from pgmpy.factors.discrete import TabularCPD
        for _ in range(2):
            k = rng.randint(1, min(2, n - 1))
            V = rng.sample(allv, k)
            rest = [v for v in allv if v not in V]
            Q = rng.sample(rest, rng.randint(1, min(2, len(rest))))
            rest2 = [v for v in rest if v not in Q]
            E = rng.sample(rest2, rng.randint(0, min(1, len(rest2))))
            pos = [a for a, p in joint.items() if p > 0]
            full = rng.choice(pos)
            ev = {v: full[v] for v in E}
            weights = {v: [Fraction(rng.randint(1, 8), 8) for _ in range(cards[v])] for v in V}
            vev = [TabularCPD(names[v], cards[v], [[float(w)] for w in weights[v]], state_names={names[v]: sts[v]})
                   for v in V]
            Qn = [names[v] for v in Q]
            evn = {names[v]: sts[v][s] for v, s in ev.items()}
            detail = {"Q": Q, "evidence": {str(v): s for v, s in ev.items()}, "virtual": {str(v): [float(w) for w in weights[v]] for v in V}}
            bnorm = normalise(brute_table(joint, cards, Q, ev=ev, weights=weights))
            if bnorm is None:
                continue
            bp2 = BeliefPropagation(m)
            try:
                res = bp2.query(Qn, evidence=dict(evn), virtual_evidence=vev, joint=True, show_progress=False)
                it = table(res, Qn, sbn)
            except StateNameMismatch as e:
                return bad("impl!=spec:result-state-names", dict(detail, error=str(e)), key=key, tags=tags)
            except Exception as e:
                return bad("impl!=spec:virtual-evidence-query-raises", dict(detail, error=repr(e)[:300]), key=key, tags=tags)
            if not close_tab(it, bnorm):
                return bad("impl!=spec:virtual-evidence-query", dict(detail, impl=it, brute=[float(x) for x in bnorm]),
                           key=key, tags=tags)
            tags.append("virtual-evidence")

    if multi:
        tags.append("variables in >=2 cliques")
    if n_multi_ev:
        tags.append("evidence on a variable in >=2 cliques")
    return ok(nontrivial=(ncl >= 2 and n_ev >= 1), key=key, tags=sorted(set(tags)))
