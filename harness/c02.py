"""C02 correspondence: pgmpy BeliefPropagation (calibrate / max_calibrate / query / map_query) vs the Coq
model of belief-update message passing on the SAME clique tree (coq/C02/Model.v, theorems in Props.v),
vs exact brute-force marginals / posteriors, and vs VariableElimination on the same model."""
import itertools
import random
from fractions import Fraction

from harness import common
from harness.common import ok, bad

PROP = "C02"
LEVEL = "proof"
HASHSEEDS = {"quick": [0, 1, 2, 3], "thorough": list(range(16))}
BUDGET_S = {"quick": 150, "thorough": 1800}
EXHAUSTIVE = {"quick": False, "thorough": False}
RULE = ("connected Bayesian networks (random DAGs, the fill-in shapes A>B>C>D,A>E>D and longer cycles, chains, "
        "stars, v-structures), Markov networks (incl. chordless 4/5-cycles), factor graphs and hand-built "
        "JunctionTree objects (random RIP trees, half of them with 2-3 factors, also equal ones, on a clique; a few "
        "non-RIP trees where only model==pgmpy is compared); every model is run under every PYTHONHASHSEED of the tier "
        "(clique order, spanning tree and factor placement depend on it).  Per model: calibrate and max_calibrate "
        "(every clique and sepset belief vs the model on the same tree, EXACT equality of the model's beliefs with "
        "brute-force sum-/max-marginals, neighbour agreement, the verified junction-tree / tree / schedule "
        "certificates on pgmpy's tree), then queries: ALL disjoint (Q,E) subsets when n<=4, a sample otherwise plus a "
        "query joining >=3 leaf cliques, evidence by state NAME, evidence={} and None, joint True/False, virtual "
        "evidence as TabularCPD and as DiscreteFactor (BN; also through map_query), map_query incl. the default "
        "variables=None (BN/MN).  Generalisation classes (notes/GENERALISATION_CHECKLIST.md): "
        "A sessions - on models flagged 'session' (every second one): shuffled interleaving of calibrate / max_calibrate "
        "/ query / map_query / virtual-evidence query on ONE engine; then the model is edited through its own mutators "
        "(add_cpds replacing a CPD, remove_node of a leaf, remove_factors+add_factors on MarkovNetwork and JunctionTree) "
        "and a NEW engine must equal the freshly computed edited joint while the old engine, which has answered "
        "queries, keeps the model it was built from (editing the user's model while an engine that has not yet "
        "answered holds it is outside the domain: engines are built on a finished model); "
        "B purity - the variables list, the evidence dict and the virtual-evidence factors are passed as the SAME "
        "objects to BP and VE and compared with snapshots after every call; the caller's model is compared with a deep "
        "snapshot after all inference; "
        "C result independence - the returned factor (values and state_names) is overwritten, the next result is a new "
        "object with the right numbers; all clique beliefs handed out are overwritten: the model's potentials are "
        "unchanged and re-calibration is right again; "
        "D pandas frames - not applicable: no API of this property takes or returns a frame; "
        "E names - str/int/tuple/mixed and a 'substr' style (x1/x10/x/1x/G/G2/G20/0/00/_x); "
        "F state names - str/int/mixed, integers that are not their positions ([1,0], [2,0,1]), 1-based, booleans, equal "
        "names across variables; a parent whose states are listed in another order by its child's CPD must be rejected; "
        "G sizes - a 9-variable factor with integer names 0..12 ('wide'), cardinality-1 variables, single-node BN/MN, "
        "falsy names/states 0 and False, empty and None evidence; edgeless models with >=2 nodes are disconnected and "
        "must be rejected (kind=reject); "
        "H magnitudes - chains with one state damped by 2^-40 and a row-stochastic far factor (rows summing to 1 "
        "and 3: only entries far below the table's maximum stay uncalibrated after the first root); a third of the "
        "MN/FG/JT models have every factor multiplied by its own 2^e, |e|<=80 (total "
        "below 300 bits) and one state of one variable damped by 2^-40, exact zeros throughout; every entry is compared "
        "at 1e-9 RELATIVE to its own exact value, an exact zero must be below 1e-9 of the smallest non-zero entry; "
        "evidence of probability 0 is the only thing not compared; "
        "I backends - every sixth model runs on the torch backend (float64, cpu); "
        "J variants - joint, evidence None/{}, virtual_evidence (two types), map_query (+virtual evidence, +default "
        "variables), ALL triangulation heuristics H1..H6 and an explicit elimination order, in place and out of place, "
        "on every non-chordal model (2 variants in quick, 7 in thorough) and on dedicated 5-/6-cycle, grid and two-"
        "square shapes with cardinalities 2-4 (all 7 variants in both tiers); map_query() with default variables on "
        "FactorGraph/JunctionTree engines is left to C03; "
        "K rejected calls - variables/evidence overlap, unknown state name, out-of-range state number, unknown evidence "
        "variable (BN), virtual evidence whose LAST item has the wrong cardinality: each must raise, leave the engine's "
        "model as it was and be followed by a correct query; JunctionTree.add_edge must refuse an edge closing a cycle "
        "and an edge between disjoint cliques and leave the tree unchanged; disconnected and state-order-inconsistent "
        "models must be refused by the constructor; "
        "L orders - insertion order of nodes, edges, CPDs and factors is shuffled per model, query and evidence order "
        "per call, hash seeds per tier; "
        "M budget - handled by tools/check.py; "
        "N equal-not-identical arguments - every name and state handed to query / map_query / virtual evidence is rebuilt "
        "at run time (new str, tuple, int objects); node names and state names above 256 ('bigint', 'big' styles); "
        "O containers - the variables argument as list, tuple and set (the types BeliefPropagation._query accepts; other "
        "iterables are wrapped as ONE variable by pgmpy - documented type is list - and are not generated); "
        "P mid sizes - 9..12 node Bayesian networks (8..11 cliques; the model's answers are compared with the exact "
        "brute force computed by the harness), a variable with 257 states; "
        "Q not exactly normalised tables - Bayesian networks whose CPD columns are typed with two decimals and sum to "
        "0.99..1.01: BP must equal the normalised product of the CPDs as given (VariableElimination's pruning assumes "
        "normalised columns and is not used as a reference there); "
        "R combinations - virtual evidence x joint in {True, False} x hard evidence in {none, some (on a root when "
        "possible)} for BP and VE with return TYPE and every marginal checked, virtual evidence x map_query, virtual "
        "evidence x torch, heuristics x evidence.  "
        "A case is non-trivial when the tree has >=2 cliques and at least one query has evidence; distinct = distinct "
        "(model, hash seed, backend)")
TRUSTED_BASE = ["junction-tree CONSTRUCTION (triangulation, cliques, spanning tree, factor assignment) is taken as "
                "an input from pgmpy (property C14); here its output is checked by the verified certificate jt_chk "
                "and its potentials' product by brute force against the model's factors",
                "networkx neighbors()/bfs_edges order is read off pgmpy's own tree and given to the model as the "
                "order parameter",
                "opt_einsum contraction in VariableElimination.query is modelled as sum-product elimination "
                "(Base/VE.v: every order gives the same result)"]
ASSUMPTIONS = ["floats are exact dyadics on input; outputs compared at 1e-9 relative to the table's largest entry",
               "pgmpy's convergence test (after 430ea53/1cd942d) is purely relative: numpy.allclose(rtol=1e-5, atol=0) "
               "between the two sepset marginals and the sepset belief; the model's is exact equality.  Exact equality "
               "implies pgmpy's test, and further rounds after true calibration change nothing (C02_converged_stable), "
               "so the exact test remains the right abstraction; a premature stop of pgmpy's approximate test that "
               "changes any belief entry by more than 1e-9 relative is reported by the per-entry comparison",
               "for Bayesian networks pgmpy drops evidence d-separated from the query before BP (C01's pruning "
               "theorem); the model conditions on all evidence; cases with P(evidence)=0 are not compared"]

TOL = 1e-9


# ------------------------------------------------------------------ generation
def F2(x):
    return [x.numerator, x.denominator]


def rand_table(rng, size, zeros):
    den = rng.choice([2, 4, 8])
    out = []
    for _ in range(size):
        if zeros and rng.random() < 0.2:
            out.append(Fraction(0))
        else:
            out.append(Fraction(rng.randint(1, 2 * den), den))
    if all(x == 0 for x in out):
        out[rng.randrange(size)] = Fraction(1)
    return out


def connected(n, und):
    seen = {0}
    stack = [0]
    while stack:
        u = stack.pop()
        for a, b in und:
            for x, y in ((a, b), (b, a)):
                if x == u and y not in seen:
                    seen.add(y)
                    stack.append(y)
    return len(seen) == n


BN_SHAPES = [
    (5, [(0, 1), (1, 2), (2, 3), (0, 4), (4, 3)]),            # D1's example: fill-in needed
    (4, [(0, 1), (0, 2), (1, 3), (2, 3)]),                    # diamond
    (6, [(0, 1), (1, 2), (2, 3), (0, 4), (4, 5), (5, 3)]),    # 6-cycle after moralisation
    (4, [(0, 1), (1, 2), (2, 3)]),                            # chain
    (4, [(0, 1), (0, 2), (0, 3)]),                            # star
    (3, [(0, 2), (1, 2)]),                                    # collider
    (5, [(0, 2), (1, 2), (2, 3), (2, 4)]),
    (2, [(0, 1)]),
    (5, [(0, 1), (1, 2), (2, 3), (3, 4)]),
]
MN_SHAPES = [
    (4, [[0, 1], [1, 2], [2, 3], [3, 0]]),                    # chordless 4-cycle
    (5, [[0, 1], [1, 2], [2, 3], [3, 4], [4, 0]]),            # chordless 5-cycle
    (4, [[0, 1], [1, 2], [2, 3]]),
    (4, [[0, 1, 2], [2, 3]]),
    (3, [[0, 1], [1, 2], [0, 2]]),
    (5, [[0, 1], [0, 2], [0, 3], [0, 4]]),
    (2, [[0, 1]]),
]


def gen_bn(rng, tier):
    if rng.random() < 0.5:
        n, edges = rng.choice(BN_SHAPES)
        perm = list(range(n))
        rng.shuffle(perm)
        edges = [(perm[a], perm[b]) for a, b in edges]
    else:
        while True:
            n = rng.randint(2, 6 if tier == "quick" else 7)
            _, edges = common.rand_dag(rng, n, p=rng.choice([0.3, 0.5, 0.7]))
            if connected(n, edges) and all(sum(1 for (a, b) in edges if b == v) <= 3 for v in range(n)):
                break
    cards = [rng.choice([2, 2, 3]) for _ in range(n)]
    if rng.random() < 0.12:
        cards[rng.randrange(n)] = 1          # a variable with a single state
    zeros = rng.random() < 0.4
    factors = []
    for v in range(n):
        pa = [a for (a, b) in edges if b == v]
        rng.shuffle(pa)
        ncol = 1
        for p in pa:
            ncol *= cards[p]
        cols = [common.rand_column(rng, cards[v], zeros=zeros) for _ in range(ncol)]
        # table over [v]+pa, row-major: entry (state of v, parent configuration)
        tab = [cols[c][s] for s in range(cards[v]) for c in range(ncol)]
        factors.append({"scope": [v] + pa, "values": [F2(x) for x in tab]})
    rng.shuffle(edges)
    return {"kind": "bn", "n": n, "cards": cards, "edges": [list(e) for e in edges], "factors": factors}


def gen_mn(rng, tier, kind="mn"):
    if rng.random() < 0.6:
        n, scopes = rng.choice(MN_SHAPES)
        perm = list(range(n))
        rng.shuffle(perm)
        scopes = [[perm[a] for a in s] for s in scopes]
    else:
        while True:
            n = rng.randint(2, 6)
            scopes = []
            for _ in range(rng.randint(n - 1, n + 2)):
                k = rng.choice([2, 2, 2, 3]) if n >= 3 else 2
                scopes.append(rng.sample(range(n), k))
            und = [(s[i], s[j]) for s in scopes for i in range(len(s)) for j in range(i + 1, len(s))]
            if connected(n, und):
                break
    # single-variable factors too (they land in some clique)
    for v in range(n):
        if rng.random() < 0.25:
            scopes.append([v])
    # pairwise-distinct factors (equal factors collapse: finding D2, property C14): distinct scope sets
    seen = set()
    uniq = []
    for s in scopes:
        key = frozenset(s)
        if key not in seen:
            seen.add(key)
            uniq.append(s)
    scopes = uniq
    cards = [rng.choice([2, 2, 3]) for _ in range(n)]
    if rng.random() < 0.12:
        cards[rng.randrange(n)] = 1
    zeros = rng.random() < 0.4
    factors = []
    for s in scopes:
        size = 1
        for v in s:
            size *= cards[v]
        factors.append({"scope": list(s), "values": [F2(x) for x in rand_table(rng, size, zeros)]})
    case = {"kind": kind, "n": n, "cards": cards, "factors": factors}
    scale_case(rng, case)
    return case


def scale_case(rng, case):
    """magnitudes: with probability 1/3 every factor is multiplied by its own power of two (exact in floats),
    exponents up to +-80 with a total below 300 bits, and one state of one variable is damped by 2^-40 in one
    factor, so that beliefs live around 1e-60..1e+20 and some evidence has probability ~1e-12 of the rest"""
    if rng.random() >= 0.34:
        return
    budget = 300
    exps = []
    for fd in case["factors"]:
        e = rng.randint(-80, 80)
        e = max(-budget, min(budget, e))
        budget -= abs(e)
        exps.append(e)
        sc = Fraction(2) ** e
        fd["values"] = [F2(Fraction(a, b) * sc) for a, b in fd["values"]]
    fd = rng.choice(case["factors"])
    cards = case["cards"]
    pos = rng.randrange(len(fd["scope"]))
    v = fd["scope"][pos]
    if cards[v] >= 2:
        st = rng.randrange(cards[v])
        stride = 1
        for w in fd["scope"][pos + 1:]:
            stride *= cards[w]
        vals = [Fraction(a, b) for a, b in fd["values"]]
        for k in range(len(vals)):
            if (k // stride) % cards[v] == st:
                vals[k] = vals[k] * Fraction(1, 2 ** 40)
        fd["values"] = [F2(x) for x in vals]
    case["scaled"] = exps


CYC_SHAPES = [
    ("mn", 5, [[0, 1], [1, 2], [2, 3], [3, 4], [4, 0]]),
    ("mn", 6, [[0, 1], [1, 2], [2, 3], [3, 4], [4, 5], [5, 0]]),
    ("mn", 6, [[0, 1], [1, 2], [3, 4], [4, 5], [0, 3], [1, 4], [2, 5]]),                 # 2x3 grid
    ("mn", 6, [[0, 1], [1, 2], [2, 3], [3, 0], [2, 4], [4, 5], [5, 3]]),                 # two squares sharing an edge
    ("bn", 6, [(0, 1), (1, 2), (2, 3), (0, 4), (4, 5), (5, 3)]),
    ("bn", 5, [(0, 1), (1, 2), (2, 3), (0, 4), (4, 3)]),
    ("fg", 5, [[0, 1], [1, 2], [2, 3], [3, 4], [4, 0]]),
]


def gen_cyc(rng, idx):
    """graphs that need fill-ins (chordless cycles of length >= 5, grids): run with EVERY triangulation
    heuristic H1..H6 and an explicit elimination order; unequal cardinalities so that the heuristics differ"""
    kind, n, shape = CYC_SHAPES[idx % len(CYC_SHAPES)]
    perm = list(range(n))
    rng.shuffle(perm)
    cards = [rng.choice([2, 3, 2, 4]) for _ in range(n)]
    if kind == "bn":
        edges = [(perm[a], perm[b]) for a, b in shape]
        factors = []
        for v in range(n):
            pa = [a for (a, b) in edges if b == v]
            ncol = 1
            for p in pa:
                ncol *= cards[p]
            cols = [common.rand_column(rng, cards[v], zeros=False) for _ in range(ncol)]
            factors.append({"scope": [v] + pa, "values": [F2(cols[c][s]) for s in range(cards[v]) for c in range(ncol)]})
        return {"kind": "bn", "n": n, "cards": cards, "edges": [list(e) for e in edges], "factors": factors, "cyc": True}
    factors = []
    for sc in shape:
        sc = [perm[a] for a in sc]
        size = 1
        for v in sc:
            size *= cards[v]
        factors.append({"scope": sc, "values": [F2(x) for x in rand_table(rng, size, False)]})
    return {"kind": kind, "n": n, "cards": cards, "factors": factors, "cyc": True}


def gen_rowstoch(rng):
    """a chain of pair factors in which one state of an inner variable is damped by 2^-40 and the factor beyond it
    has rows summing to 1 for the other states and to 3 for the damped one: after the first root (an end clique
    under some hash seed) only entries far below the table's maximum are still uncalibrated"""
    n = rng.choice([4, 5])
    order = list(range(n))
    rng.shuffle(order)
    cards = [2] * n
    for v in range(n):
        if rng.random() < 0.3:
            cards[v] = 3
    k = rng.randint(1, n - 3) if n > 3 else 1          # damped variable: order[k+1]; far factor: (order[k+1], order[k+2])
    factors = []
    for i in range(n - 1):
        a, b = order[i], order[i + 1]
        if i == k + 1:      # far factor: rows over a
            vals = []
            for sa in range(cards[a]):
                row = common.rand_column(rng, cards[b], zeros=False)
                mult = Fraction(3) if sa == cards[a] - 1 else Fraction(1)
                vals += [x * mult for x in row]
        else:
            vals = rand_table(rng, cards[a] * cards[b], False)
            if i == k:      # damp the LAST state of b = order[k+1]
                vals = [x * (Fraction(1, 2 ** 40) if (j % cards[b]) == cards[b] - 1 else 1) for j, x in enumerate(vals)]
        factors.append({"scope": [a, b], "values": [F2(x) for x in vals]})
    return {"kind": rng.choice(["mn", "mn", "fg"]), "n": n, "cards": cards, "factors": factors, "rowstoch": True}


def gen_long(rng):
    """mid-sized models: a chain or a random tree-shaped Bayesian network on 9..12 binary nodes (8..11 cliques;
    9 = 1 mod 8), occasionally with one extra parent"""
    n = rng.choice([9, 9, 10, 11, 12])
    order = list(range(n))
    rng.shuffle(order)
    edges = []
    for i in range(1, n):
        p = order[i - 1] if rng.random() < 0.6 else order[rng.randrange(i)]
        edges.append((p, order[i]))
    cards = [2] * n
    factors = []
    for v in range(n):
        pa = [a for (a, b) in edges if b == v]
        ncol = 1
        for p in pa:
            ncol *= cards[p]
        cols = [common.rand_column(rng, cards[v], zeros=False) for _ in range(ncol)]
        factors.append({"scope": [v] + pa, "values": [F2(cols[c][s]) for s in range(cards[v]) for c in range(ncol)]})
    rng.shuffle(edges)
    return {"kind": "bn", "n": n, "cards": cards, "edges": [list(e) for e in edges], "factors": factors, "long": True}


def gen_bigcard(rng):
    """a variable with 257 states (more than a byte can index) between two small ones"""
    cards = [2, 257, 2]
    edges = [(0, 1), (1, 2)]
    factors = []
    for v in range(3):
        pa = [a for (a, b) in edges if b == v]
        ncol = 1
        for p in pa:
            ncol *= cards[p]
        cols = []
        for _ in range(ncol):
            if cards[v] == 257:
                w = [rng.randint(0, 3) for _ in range(257)]
                w[rng.randrange(257)] += 1
                tot = sum(w)
                # exact dyadic column: weights over a power of two
                den = 1
                while den < tot:
                    den *= 2
                w[0] += den - tot
                cols.append([Fraction(x, den) for x in w])
            else:
                cols.append(common.rand_column(rng, cards[v], zeros=False))
        factors.append({"scope": [v] + pa, "values": [F2(cols[c][s]) for s in range(cards[v]) for c in range(ncol)]})
    return {"kind": "bn", "n": 3, "cards": cards, "edges": [list(e) for e in edges], "factors": factors, "bigcard": True}


def gen_sloppy(rng):
    """a small Bayesian network whose CPD columns are typed with two decimals and sum to 0.99..1.01 (accepted by
    check_model's 0.01 tolerance, not exactly normalised); the values are the exact rationals of those floats"""
    while True:
        n = rng.randint(2, 4)
        _, edges = common.rand_dag(rng, n, p=0.7)
        if connected(n, edges):
            break
    cards = [rng.choice([2, 3]) for _ in range(n)]
    factors = []
    for v in range(n):
        pa = [a for (a, b) in edges if b == v]
        ncol = 1
        for p in pa:
            ncol *= cards[p]
        cols = []
        for _ in range(ncol):
            tot = rng.choice([99, 100, 101, 101, 99])
            cuts = sorted(rng.randint(1, tot - 1) for _ in range(cards[v] - 1))
            parts = [b - a for a, b in zip([0] + cuts, cuts + [tot])]
            if min(parts) == 0:
                parts = [max(1, x) for x in parts]
            cols.append([Fraction(float(Fraction(x, 100))) for x in parts])
        factors.append({"scope": [v] + pa, "values": [F2(cols[c][s]) for s in range(cards[v]) for c in range(ncol)]})
    return {"kind": "bn", "n": n, "cards": cards, "edges": [list(e) for e in edges], "factors": factors, "sloppy": True}


def gen_wide(rng):
    """one factor over 9 binary variables (a set of small ints iterates in increasing order only below 8)
    plus pendant pair factors; integer variable names"""
    n = rng.choice([10, 11])
    big = list(range(9))
    rng.shuffle(big)
    scopes = [big]
    for v in range(9, n):
        scopes.append([rng.randrange(9), v])
    cards = [2] * n
    factors = []
    for sc in scopes:
        factors.append({"scope": list(sc), "values": [F2(x) for x in rand_table(rng, 2 ** len(sc), True)]})
    return {"kind": "mn", "n": n, "cards": cards, "factors": factors, "wide": True}


def gen_single(rng, kind):
    c = rng.choice([1, 2, 3])
    if kind == "bn":
        col = common.rand_column(rng, c, zeros=False)
        return {"kind": "bn", "n": 1, "cards": [c], "edges": [], "factors": [{"scope": [0], "values": [F2(x) for x in col]}]}
    return {"kind": "mn", "n": 1, "cards": [c], "factors": [{"scope": [0], "values": [F2(x) for x in rand_table(rng, c, False)]}]}


def gen_reject(rng, what):
    """models BeliefPropagation must refuse: two components (the library rejects disconnected clique trees by
    design), or a parent whose state names are listed in another order by its child's CPD"""
    if what == "disc-bn":
        return {"kind": "reject", "what": what, "n": 3, "cards": [2, 2, 2], "edges": [[0, 1]], "factors": []}
    if what == "disc-mn":
        return {"kind": "reject", "what": what, "n": 4, "cards": [2, 2, 2, 2], "edges": [], "factors": []}
    return {"kind": "reject", "what": "state-order", "n": 2, "cards": [2, 2], "edges": [[0, 1]], "factors": []}


def gen_jt(rng, tier, rip=True, multi=False):
    """hand-built JunctionTree with the running-intersection property by construction"""
    ncl = rng.randint(1, 5)
    nv = 0
    cliques = []
    tedges = []
    first = list(range(rng.randint(1, 3)))
    nv = len(first)
    cliques.append(first)
    for i in range(1, ncl):
        if nv >= 6:
            break
        p = rng.randrange(len(cliques))
        cp = cliques[p]
        s = rng.sample(cp, rng.randint(1, len(cp)))
        new = list(range(nv, nv + rng.randint(1, 2)))
        if len(s) == len(cp) and not new:
            new = [nv]
        nv += len(new)
        c = s + new
        rng.shuffle(c)
        cliques.append(c)
        tedges.append([p, len(cliques) - 1] if rng.random() < 0.5 else [len(cliques) - 1, p])
    cards = [rng.choice([2, 2, 3]) for _ in range(nv)]
    zeros = rng.random() < 0.4
    factors = []
    for c in cliques:
        sc = list(c)
        rng.shuffle(sc)
        size = 1
        for v in sc:
            size *= cards[v]
        factors.append({"scope": sc, "values": [F2(x) for x in rand_table(rng, size, zeros)]})
    if multi:
        # 2-3 factors on one (sometimes two) cliques, in other axis orders, sometimes EQUAL factors
        for _ in range(rng.choice([1, 1, 2])):
            ci = rng.randrange(len(cliques))
            for _ in range(rng.choice([1, 2])):
                base = [f for f in factors if set(f["scope"]) == set(cliques[ci])]
                if rng.random() < 0.35:
                    factors.append({"scope": list(base[0]["scope"]), "values": list(base[0]["values"])})
                else:
                    sc = list(cliques[ci])
                    rng.shuffle(sc)
                    size = 1
                    for v in sc:
                        size *= cards[v]
                    factors.append({"scope": sc, "values": [F2(x) for x in rand_table(rng, size, zeros)]})
        rng.shuffle(factors)
    order = list(range(len(tedges)))
    rng.shuffle(order)
    case = {"kind": "jt", "n": nv, "cards": cards, "cliques": cliques, "tedges": [tedges[i] for i in order],
            "factors": factors, "rip": True, "multi": bool(multi)}
    scale_case(rng, case)
    return case


def gen_jt_nonrip(rng):
    """a path of cliques whose ends share a variable the middle lacks: accepted by JunctionTree, not a junction tree"""
    cliques = [[0, 1], [1, 2], [2, 0]]
    if rng.random() < 0.5:
        cliques = [[0, 1], [1, 2], [2, 3], [3, 0]]
    n = 1 + max(max(c) for c in cliques)
    tedges = [[i, i + 1] for i in range(len(cliques) - 1)]
    cards = [2] * n
    factors = [{"scope": list(c), "values": [F2(x) for x in rand_table(rng, 4, False)]} for c in cliques]
    return {"kind": "jt", "n": n, "cards": cards, "cliques": cliques, "tedges": tedges, "factors": factors,
            "rip": False}


SSTYLES = ["str", "str", "int", "mixed", "perm", "onebased", "bool", "big"]
VSTYLES = common.NAME_STYLES + ["substr", "bigint"]
HEUR = ["H1", "H2", "H3", "H4", "H5", "H6", "order"]


def cases(tier, seed):
    rng = random.Random(seed)
    hs = HASHSEEDS[tier]
    nmodels = {"quick": (30, 20, 8, 14, 2), "thorough": (160, 90, 40, 60, 6)}[tier]
    models = []
    for _ in range(nmodels[0]):
        models.append(gen_bn(rng, tier))
    for _ in range(nmodels[1]):
        models.append(gen_mn(rng, tier))
    for _ in range(nmodels[2]):
        models.append(gen_mn(rng, tier, kind="fg"))
    for i in range(nmodels[3]):
        models.append(gen_jt(rng, tier, multi=(i % 2 == 1)))
    for _ in range(nmodels[4]):
        models.append(gen_jt_nonrip(rng))
    for _ in range(1 if tier == "quick" else 4):
        models.append(gen_wide(rng))
    for _ in range(3 if tier == "quick" else 10):
        models.append(gen_rowstoch(rng))
    for _ in range(1 if tier == "quick" else 6):
        models.append(gen_long(rng))
    for _ in range(1 if tier == "quick" else 2):
        models.append(gen_bigcard(rng))
    for _ in range(3 if tier == "quick" else 12):
        models.append(gen_sloppy(rng))
    c0 = rng.randrange(len(CYC_SHAPES))
    for i in range(3 if tier == "quick" else 2 * len(CYC_SHAPES)):
        models.append(gen_cyc(rng, c0 + i))
    models.append(gen_single(rng, "bn"))
    models.append(gen_single(rng, "mn"))
    for what in ("disc-bn", "disc-mn", "state-order"):
        models.append(gen_reject(rng, what))
    out = []
    for mi, m in enumerate(models):
        m["vstyle"] = "int" if m.get("wide") else rng.choice(VSTYLES)
        m["sstyle"] = "int" if m.get("bigcard") else rng.choice(SSTYLES)
        m["nameseed"] = rng.randint(0, 10 ** 9)
        m["qseed"] = rng.randint(0, 10 ** 9)
        m["backend"] = "torch" if mi % 6 == 5 and not m.get("scaled") and not m.get("rowstoch") \
            and not m.get("sloppy") and not m.get("bigcard") else "numpy"
        # which of the optional streams run on this model (every stream runs in both tiers)
        m["session"] = (mi % 2 == 0) and not m.get("long") and not m.get("bigcard")
        m["tier"] = tier
        k = 2 if tier == "quick" else 7
        m["heur"] = list(HEUR) if m.get("cyc") else rng.sample(HEUR, k)
        for h in hs:
            c = dict(m)
            c["hashseed"] = h
            out.append(c)
    return out


def shrink(case):
    if case["kind"] in ("mn", "fg") and len(case["factors"]) > 1:
        for i in range(len(case["factors"])):
            c = dict(case)
            c["factors"] = case["factors"][:i] + case["factors"][i + 1:]
            und = [(s["scope"][a], s["scope"][b]) for s in c["factors"] for a in range(len(s["scope"]))
                   for b in range(a + 1, len(s["scope"]))]
            cover = set(v for s in c["factors"] for v in s["scope"])
            if len(cover) == case["n"] and connected(case["n"], und):
                yield c


# ------------------------------------------------------------------ names
def var_names(case):
    rng = random.Random(case["nameseed"])
    if case["vstyle"] == "substr":      # one name a substring / prefix of another
        pool = ["x1", "x10", "x", "x11", "1x", "G", "G2", "G20", "x1x", "0", "00", "x_", "_x"]
        rng.shuffle(pool)
        return pool[:case["n"]]
    if case["vstyle"] == "bigint":      # integers above the small-int cache: equal objects are not identical
        pool = [257 + 37 * i for i in range(case["n"] + 3)]
        rng.shuffle(pool)
        return pool[:case["n"]]
    if case["vstyle"] == "int" and case["n"] > 8:
        pool = list(range(0, case["n"] + 3))
        rng.shuffle(pool)
        return pool[:case["n"]]
    return common.node_names(rng, case["n"], case["vstyle"])


def state_names(case):
    """per variable index: list of state names (index order)"""
    rng = random.Random(case["nameseed"] + 17)
    out = []
    for v, c in enumerate(case["cards"]):
        st = case["sstyle"]
        if st == "int":
            out.append(list(range(c)))
        elif st == "big":               # integers above 256
            out.append([1000 * (i + 1) for i in range(c)])
        elif st == "perm":              # integers that are not their positions
            out.append([[0], [1, 0], [2, 0, 1], [3, 1, 0, 2]][c - 1])
        elif st == "onebased":
            out.append(list(range(1, c + 1)))
        elif st == "bool":
            out.append([False, True, "u", "w"][:c])
        elif st == "str":
            pool = rng.choice([["x", "y", "z", "w"], ["lo", "mid", "hi", "top"], ["s0", "s1", "s2", "s3"],
                               ["no", "yes", "maybe", "never"]])
            out.append(pool[:c])
        else:
            pool = ["a", 7, "c", 11] if rng.random() < 0.5 else [5, "b", 9, "d"]
            out.append(pool[:c])
    return out


# ------------------------------------------------------------------ pgmpy side
class StateNameMismatch(Exception):
    pass


def table(f, vs, states_by_name):
    """flat row-major table of DiscreteFactor f over the variable order vs and OUR state order"""
    import numpy as np
    vals = np.asarray(f.values, dtype=float)
    fv = list(f.variables)
    if len(fv) != len(vs) or any(v not in fv for v in vs):
        raise StateNameMismatch("scope %r vs %r" % (fv, vs))
    vals = np.transpose(vals, [fv.index(v) for v in vs]) if len(vs) else vals
    for ax, v in enumerate(vs):
        sn = list(f.state_names[v])
        want = states_by_name[v]
        if len(sn) != len(want):
            raise StateNameMismatch("cardinality of %r" % (v,))
        try:
            idx = [sn.index(s) for s in want]
        except ValueError:
            raise StateNameMismatch("state names of %r are %r, the model's are %r" % (v, sn, want))
        for s, t in zip(want, [sn[i] for i in idx]):
            if type(s) is not type(t):
                raise StateNameMismatch("state names of %r are %r, the model's are %r" % (v, sn, want))
        vals = np.take(vals, idx, axis=ax)
    return [float(x) for x in vals.reshape(-1)]


def build(case):
    import numpy as np
    from pgmpy.factors.discrete import DiscreteFactor, TabularCPD
    names = var_names(case)
    sts = state_names(case)
    cards = case["cards"]
    sbn = {names[v]: sts[v] for v in range(case["n"])}

    def mk_factor(fd):
        sc = fd["scope"]
        vals = [float(Fraction(a, b)) for a, b in fd["values"]]
        return DiscreteFactor([names[v] for v in sc], [cards[v] for v in sc], vals,
                              state_names={names[v]: sts[v] for v in sc})

    kind = case["kind"]
    # insertion orders of nodes and of CPDs / factors are part of the input
    orng = random.Random(case["nameseed"] + 5)
    node_order = list(range(case["n"]))
    orng.shuffle(node_order)
    fac_order = list(case["factors"])
    orng.shuffle(fac_order)
    if kind == "bn":
        from pgmpy.models import BayesianNetwork
        m = BayesianNetwork()
        m.add_nodes_from([names[v] for v in node_order])
        m.add_edges_from([(names[a], names[b]) for a, b in case["edges"]])
        for fd in fac_order:
            v, pa = fd["scope"][0], fd["scope"][1:]
            vals = np.array([float(Fraction(a, b)) for a, b in fd["values"]]).reshape(cards[v], -1)
            m.add_cpds(TabularCPD(names[v], cards[v], vals, evidence=[names[p] for p in pa] or None,
                                  evidence_card=[cards[p] for p in pa] or None,
                                  state_names={names[x]: sts[x] for x in fd["scope"]}))
    elif kind == "mn":
        from pgmpy.models import MarkovNetwork
        m = MarkovNetwork()
        m.add_nodes_from([names[v] for v in node_order])
        for fd in case["factors"]:
            sc = fd["scope"]
            for i in range(len(sc)):
                for j in range(i + 1, len(sc)):
                    m.add_edge(names[sc[i]], names[sc[j]])
        m.add_factors(*[mk_factor(fd) for fd in fac_order])
    elif kind == "fg":
        from pgmpy.models import FactorGraph
        m = FactorGraph()
        m.add_nodes_from([names[v] for v in node_order])
        fs = [mk_factor(fd) for fd in fac_order]
        m.add_factors(*fs)
        for f in fs:
            for v in f.variables:
                m.add_edge(v, f)
    else:
        from pgmpy.models import JunctionTree
        m = JunctionTree()
        cl = [tuple(names[v] for v in c) for c in case["cliques"]]
        for c in cl:
            m.add_node(c)
        for a, b in case["tedges"]:
            m.add_edge(cl[a], cl[b])
        m.add_factors(*[mk_factor(fd) for fd in fac_order])
    return m, names, sts, sbn


def extract_tree(jt, vid, sbn):
    cliques = [tuple(c) for c in jt.nodes()]
    cidx = {c: i for i, c in enumerate(cliques)}
    edges = [[cidx[tuple(u)], cidx[tuple(v)]] for u, v in jt.edges()]
    adj = [[cidx[tuple(x)] for x in jt.neighbors(c)] for c in cliques]
    pots = []
    for c in cliques:
        group = []
        for f in jt.get_factors():
            if set(f.scope()) == set(c):
                fv = list(f.variables)
                group.append([[vid[v] for v in fv], [Fraction(x) for x in table(f, fv, sbn)]])
        pots.append(group)
    return cliques, edges, adj, pots


# ------------------------------------------------------------------ exact brute force in Python
def brute_joint(case):
    cards = case["cards"]
    n = case["n"]
    facs = [(fd["scope"], [Fraction(a, b) for a, b in fd["values"]]) for fd in case["factors"]]
    joint = {}
    for asg in itertools.product(*[range(c) for c in cards]):
        p = Fraction(1)
        for sc, vals in facs:
            k = 0
            for v in sc:
                k = k * cards[v] + asg[v]
            p *= vals[k]
            if p == 0:
                break
        joint[asg] = p
    return joint


def brute_table(joint, cards, keep, ev=None, weights=None, op="sum"):
    ev = ev or {}
    out = {}
    for asg, p in joint.items():
        if any(asg[v] != s for v, s in ev.items()):
            continue
        if weights:
            for v, w in weights.items():
                p = p * w[asg[v]]
        key = tuple(asg[v] for v in keep)
        if op == "sum":
            out[key] = out.get(key, Fraction(0)) + p
        else:
            out[key] = max(out.get(key, Fraction(0)), p)
    return [out.get(k, Fraction(0)) for k in itertools.product(*[range(cards[v]) for v in keep])]


def rebuild(x):
    """an equal but not identical object (class N): names and states given to a query are never the objects stored
    in the model"""
    if isinstance(x, bool):
        return x
    if isinstance(x, str):
        return (x + "_")[:-1]
    if isinstance(x, tuple):
        return tuple(rebuild(e) for e in x)
    if isinstance(x, int):
        return int(str(x))
    return x


def as_container(names, how):
    """the variables argument in the container types BeliefPropagation.query accepts"""
    if how == "tuple":
        return tuple(names)
    if how == "set":
        return set(names)
    if how == "keys":
        return {k: None for k in names}.keys()
    return list(names)


def close_tab(impl, model):
    """every entry within 1e-9 RELATIVE to the exact value of that entry (all arithmetic is on non-negative
    numbers: no cancellation); an exact zero of the model must be (numerically) zero: below 1e-9 of the table's
    smallest non-zero entry"""
    if len(impl) != len(model):
        return False
    nz = [abs(float(x)) for x in model if x != 0]
    floor = (min(nz) if nz else 1.0) * TOL
    for a, b in zip(impl, model):
        a = float(a)
        b = float(b)
        if a != a:
            return False
        if b == 0:
            if abs(a) > floor:
                return False
        elif abs(a - b) > TOL * abs(b):
            return False
    return True


def fr(l):
    return [Fraction(p[0], p[1]) for p in l]


def normalise(tab):
    t = sum(tab)
    if t == 0:
        return None
    return [x / t for x in tab]


# ------------------------------------------------------------------ the case
class Ctx:
    pass


def set_backend(case):
    from pgmpy import config
    if case.get("backend") == "torch":
        import torch
        config.set_backend("torch", device="cpu", dtype=torch.float64)
    else:
        config.set_backend("numpy")


def snapshot(m, kind, sbn):
    """deep, canonical picture of a model: nodes, edges, every factor/CPD as (scope, table in OUR state order)"""
    if kind == "bn":
        fs = [c.to_factor() for c in m.get_cpds()]
    else:
        fs = list(m.get_factors())
    tabs = []
    for f in fs:
        fv = list(f.variables)
        tabs.append((tuple(map(repr, fv)), tuple(table(f, fv, sbn))))
    nodes = sorted(map(repr, m.nodes()))
    edges = sorted(tuple(sorted((repr(a), repr(b)))) for a, b in m.edges()) if kind != "bn" else \
        sorted((repr(a), repr(b)) for a, b in m.edges())
    return nodes, edges, sorted(tabs)


def cal_check(bp, cx, ops=(("sum", "c02_calibrate", "calibrate"), ("max", "c02_max_calibrate", "max_calibrate")),
              label=""):
    """calibrate / max_calibrate on the engine and compare every belief with the model on the same tree and with
    brute force; returns (bad | None, cliques)"""
    names, sbn, vid, cards, joint, key, tags, rip = cx.names, cx.sbn, cx.vid, cx.cards, cx.joint, cx.key, cx.tags, cx.rip
    try:
        cliques, edges, adj, pots = extract_tree(bp.junction_tree, vid, sbn)
    except StateNameMismatch as e:
        return bad("impl!=spec:clique-potential-state-names", {"error": str(e), "at": label}, key=key, tags=tags), None
    req = [cards, [[vid[v] for v in c] for c in cliques], edges, adj, pots]
    for op, entry, meth in ops:
        rep = cx.drv.call(entry + ("_lite" if cx.lite else ""), req)
        jt_ok, sched_ok, conv, mbel, msep, bbel, bsep = rep
        if cx.lite:     # mid-sized model: the exact brute force is computed here, not by the model
            bbel = [[F2(x) for x in brute_table(joint, cards, [vid[v] for v in c], op=op)] for c in cliques]
            bsep = [[F2(x) for x in brute_table(joint, cards, msep[k][0], op=op)] for k in range(len(edges))]
        if not sched_ok:
            return bad("checker:sched_chk", {"cliques": req[1], "edges": edges, "adj": adj}, key=key, tags=tags), None
        if bool(jt_ok) != bool(rip):
            return bad("checker:jt_chk", {"jt_chk": jt_ok, "expected": rip, "cliques": req[1], "edges": edges,
                                          "at": label}, key=key, tags=tags), None
        getattr(bp, meth)()
        cb = bp.get_clique_beliefs()
        sb = bp.get_sepset_beliefs()
        if set(cb.keys()) != set(cliques):
            return bad("impl!=model:clique-belief-keys", {"impl": [list(c) for c in cb.keys()]}, key=key, tags=tags), None
        for i, c in enumerate(cliques):
            try:
                it = table(cb[c], list(c), sbn)
            except StateNameMismatch as e:
                return bad("impl!=spec:belief-scope-or-state-names", {"op": op, "clique": i, "error": str(e),
                                                                      "at": label}, key=key, tags=tags), None
            mt = fr(mbel[i])
            if not close_tab(it, mt):
                return bad("impl!=model:clique-belief", {"op": op, "clique": [vid[v] for v in c], "impl": it,
                                                           "model": [float(x) for x in mt], "at": label}, key=key, tags=tags), None
            if rip:
                bt = fr(bbel[i])
                pt = brute_table(joint, cards, [vid[v] for v in c], op=op)
                # (not exactly normalised decimal CPDs: pgmpy's clique potentials are rounded products)
                if (not close_tab([float(x) for x in bt], pt)) if cx.sloppy else (bt != pt):
                    return bad("impl!=spec:clique-potentials-product", {"op": op, "clique": [vid[v] for v in c],
                                                                        "at": label}, key=key, tags=tags), None
                if mt != bt:
                    return bad("model!=spec:clique-belief-not-marginal", {"op": op, "clique": [vid[v] for v in c],
                               "model": [float(x) for x in mt], "brute": [float(x) for x in bt]}, key=key, tags=tags), None
                if not close_tab(it, bt):
                    return bad("impl!=spec:clique-belief-not-marginal", {"op": op, "clique": [vid[v] for v in c],
                               "impl": it, "brute": [float(x) for x in bt], "at": label}, key=key, tags=tags), None
        if rip and not conv:
            return bad("model!=spec:not-converged", {"op": op}, key=key, tags=tags), None
        if len(sb) != len(edges):
            return bad("impl!=model:sepset-keys", {"impl": len(sb), "model": len(edges)}, key=key, tags=tags), None
        for k, (i, j) in enumerate(edges):
            S, mu = msep[k]
            skey = frozenset([cliques[i], cliques[j]])
            if skey not in sb or sb[skey] is None or not mu:
                return bad("impl!=model:sepset-missing", {"op": op, "edge": [i, j], "at": label}, key=key, tags=tags), None
            Sn = [names[v] for v in S]
            if set(Sn) != set(cliques[i]) & set(cliques[j]):
                return bad("model-inconsistent:sepset-scope", {"edge": [i, j]}, key=key, tags=tags), None
            try:
                it = table(sb[skey], Sn, sbn)
            except StateNameMismatch as e:
                return bad("impl!=spec:sepset-scope-or-state-names", {"op": op, "edge": [i, j], "error": str(e)},
                           key=key, tags=tags), None
            mt = fr(mu[0])
            if not close_tab(it, mt):
                return bad("impl!=model:sepset-belief", {"op": op, "edge": [i, j], "impl": it,
                                                           "model": [float(x) for x in mt], "at": label}, key=key, tags=tags), None
            if rip and mt != fr(bsep[k]) and not cx.sloppy:
                return bad("model!=spec:sepset-belief-not-marginal", {"op": op, "edge": [i, j]}, key=key, tags=tags), None
            oper = "marginalize" if op == "sum" else "maximize"
            if rip:
                for c in (cliques[i], cliques[j]):
                    mg = getattr(cb[c], oper)([v for v in c if v not in Sn], inplace=False)
                    if not close_tab(table(mg, Sn, sbn), mt):
                        return bad("impl!=spec:neighbours-disagree-on-sepset", {"op": op, "edge": [i, j]},
                                   key=key, tags=tags), None
    return None, cliques


def query_check(bp, cx, Q, ev, jointflag, ve=None, label="", model_side=True, evidence_none=False,
                container="list"):
    """one posterior query on the engine: the model's answer on the engine's current tree must equal brute force
    exactly; pgmpy's answer, brute force and VariableElimination must agree; the caller's arguments must come back
    unchanged; the result carries the model's state names.  Returns bad | None | 'zero' (P(evidence)=0)."""
    names, sts, sbn, vid, cards, joint, key, tags = cx.names, cx.sts, cx.sbn, cx.vid, cx.cards, cx.joint, cx.key, cx.tags
    Qn = [rebuild(names[v]) for v in Q]
    evn = {rebuild(names[v]): rebuild(sts[v][s]) for v, s in ev.items()}
    detail = {"Q": Q, "evidence": {str(v): s for v, s in ev.items()}, "joint": jointflag, "at": label,
              "variables_as": container}
    bt = brute_table(joint, cards, Q, ev=ev)
    bnorm = normalise(bt)
    if model_side:
        try:
            cl2, ed2, adj2, pots2 = extract_tree(bp.junction_tree, vid, sbn)
        except StateNameMismatch as e:
            return bad("impl!=spec:clique-potential-state-names", {"error": str(e), "at": label}, key=key, tags=tags)
        req2 = [cards, [[vid[v] for v in c] for c in cl2], ed2, adj2, pots2, Q, [[v, s] for v, s in ev.items()]]
        cert, mtab, mper, mbrute, msub = cx.drv.call("c02_query_lite" if cx.lite else "c02_query", req2)
        mtab = fr(mtab)
        if cx.lite:
            mbrute = [F2(x) for x in bt]
        if not cert:
            return bad("checker:query-certificate", dict(detail, sub=msub), key=key, tags=tags)
        if (not close_tab([float(x) for x in fr(mbrute)], bt)) if cx.sloppy else (fr(mbrute) != bt):
            return bad("model-inconsistent:brute", detail, key=key, tags=tags)
        if mtab != fr(mbrute):
            return bad("model!=spec:query", dict(detail, model=[float(x) for x in mtab], brute=[float(x) for x in bt]),
                       key=key, tags=tags)
    else:
        mper = None
    if bnorm is None:
        return "zero"
    Qarg = as_container(Qn, container)
    evarg = None if (evidence_none and not evn) else dict(evn)
    Qsnap, evsnap = list(Qarg), (None if evarg is None else dict(evarg))
    try:
        res = bp.query(Qarg, evidence=evarg, joint=jointflag, show_progress=False)
    except Exception as e:  # every query with evidence by name must succeed
        return bad("impl!=spec:query-raises", dict(detail, error=repr(e)[:300]), key=key, tags=tags)
    if list(Qarg) != Qsnap or evarg != evsnap or (evarg is not None and list(evarg) != list(evsnap)):
        return bad("impl!=spec:query-mutates-its-arguments", dict(detail, variables=repr(Qarg), evidence=repr(evarg)),
                   key=key, tags=tags)
    from pgmpy.factors.discrete import DiscreteFactor
    if (jointflag and not isinstance(res, DiscreteFactor)) or ((not jointflag) and not isinstance(res, dict)):
        return bad("impl!=spec:query-return-type", dict(detail, got=type(res).__name__), key=key, tags=tags)
    try:
        if jointflag:
            it = table(res, Qn, sbn)
            if not close_tab(it, bnorm):
                return bad("impl!=spec:query", dict(detail, impl=it, brute=[float(x) for x in bnorm]), key=key, tags=tags)
            if ve is not None:
                # the SAME argument objects are reused for the second engine
                vres = ve.query(Qarg, evidence=evarg, joint=True, show_progress=False)
                vt = normalise([Fraction(x) for x in table(vres, Qn, sbn)])
                if vt is None or not close_tab(it, vt):
                    return bad("impl!=VE:query", dict(detail, impl=it), key=key, tags=tags)
        else:
            if set(res.keys()) != set(Qn):
                return bad("impl!=spec:query-keys", detail, key=key, tags=tags)
            for pos_, v in enumerate(Q):
                it = table(res[names[v]], [names[v]], sbn)
                b1 = normalise(brute_table(joint, cards, [v], ev=ev))
                if mper is not None and not cx.sloppy and normalise(fr(mper[pos_])) != b1:
                    return bad("model!=spec:query-marginal", dict(detail, var=v), key=key, tags=tags)
                if not close_tab(it, b1):
                    return bad("impl!=spec:query-marginal", dict(detail, var=v, impl=it,
                                                                  brute=[float(x) for x in b1]), key=key, tags=tags)
    except StateNameMismatch as e:
        return bad("impl!=spec:result-state-names", dict(detail, error=str(e)), key=key, tags=tags)
    return None


def map_check(bp, cx, Q, ev, label="", variables_none=False):
    names, sts, cards, joint, key, tags = cx.names, cx.sts, cx.cards, cx.joint, cx.key, cx.tags
    Qn = [rebuild(names[v]) for v in Q]
    evn = {rebuild(names[v]): rebuild(sts[v][s]) for v, s in ev.items()}
    detail = {"Q": Q, "evidence": {str(v): s for v, s in ev.items()}, "at": label, "variables_none": variables_none}
    bnorm = normalise(brute_table(joint, cards, Q, ev=ev))
    if bnorm is None:
        return None
    try:
        if variables_none:
            mp = bp.map_query(evidence=dict(evn) if evn else None, show_progress=False)
        else:
            mp = bp.map_query(list(Qn), evidence=dict(evn), show_progress=False)
    except Exception as e:
        return bad("impl!=spec:map_query-raises", dict(detail, error=repr(e)[:300]), key=key, tags=tags)
    if set(map(repr, mp.keys())) != set(map(repr, Qn)):
        return bad("impl!=spec:map_query-keys", detail, key=key, tags=tags)
    idx = 0
    for v in Q:
        got = mp[names[v]]
        pos = [i for i, s in enumerate(sts[v]) if s == got and type(s) is type(got)]
        if not pos:
            # numpy/torch integer scalars for integer state names are accepted when they equal the name
            pos = [i for i, s in enumerate(sts[v]) if not isinstance(s, (str, bool)) and not isinstance(got, (str, bool))
                   and hasattr(got, "__index__") and s == int(got)]
        if not pos:
            return bad("impl!=spec:map_query-state-name", dict(detail, var=v, got=repr(got)), key=key, tags=tags)
        idx = idx * cards[v] + pos[0]
    best = max(bnorm)
    if float(bnorm[idx]) < float(best) * (1 - 1e-9):
        return bad("impl!=spec:map_query-not-maximal", dict(detail, got=float(bnorm[idx]), best=float(best)),
                   key=key, tags=tags)
    return None


def virtual_check(bp, cx, rng, label="", use_map=False, jointflag=True, with_ev=None, ve=None, root_ev=None):
    """query with virtual evidence (TabularCPD or single-variable DiscreteFactor) on the given engine, for the
    option product joint in {True, False} x hard evidence in {none, some}; the return TYPE and every table are
    checked; VariableElimination (if given) gets the same call"""
    from pgmpy.factors.discrete import TabularCPD, DiscreteFactor
    names, sts, sbn, cards, joint, key, tags, n = cx.names, cx.sts, cx.sbn, cx.cards, cx.joint, cx.key, cx.tags, cx.n
    allv = list(range(n))
    if n < 2:
        return None
    k = rng.randint(1, min(2, n - 1))
    V = rng.sample(allv, k)
    rest = [v for v in allv if v not in V]
    Q = rng.sample(rest, rng.randint(1, min(2, len(rest))))
    rest2 = [v for v in rest if v not in Q]
    if with_ev is None:
        E = rng.sample(rest2, rng.randint(0, min(1, len(rest2))))
    elif with_ev and rest2:
        E = rng.sample(rest2, rng.randint(1, min(2, len(rest2))))
        if root_ev is not None and root_ev in rest2 and root_ev not in E:      # hard evidence on a root
            E[0] = root_ev
    else:
        E = []
    pos = [a for a, p in joint.items() if p > 0]
    if not pos:
        return None
    full = rng.choice(pos)
    ev = {v: full[v] for v in E}
    weights = {v: [Fraction(rng.randint(1, 8), 8) for _ in range(cards[v])] for v in V}
    vev = []
    for v in V:
        nm = rebuild(names[v])
        stn = [rebuild(x) for x in sts[v]]
        if rng.random() < 0.5:
            vev.append(TabularCPD(nm, cards[v], [[float(w)] for w in weights[v]], state_names={nm: stn}))
        else:
            vev.append(DiscreteFactor([nm], [cards[v]], [float(w) for w in weights[v]], state_names={nm: stn}))
    vsnap = [table(f if isinstance(f, DiscreteFactor) and not isinstance(f, TabularCPD) else f.to_factor(),
                   [f.variables[0]], sbn) for f in vev]
    Qn = [rebuild(names[v]) for v in Q]
    evn = {rebuild(names[v]): rebuild(sts[v][s]) for v, s in ev.items()}
    detail = {"Q": Q, "evidence": {str(v): s for v, s in ev.items()}, "at": label, "joint": jointflag,
              "virtual": {str(v): [float(w) for w in weights[v]] for v in V}}
    bnorm = normalise(brute_table(joint, cards, Q, ev=ev, weights=weights))
    if bnorm is None:
        return None
    engines = [("BP", bp)] + ([("VE", ve)] if (ve is not None and not use_map) else [])
    for ename, eng in engines:
        evarg = dict(evn)
        d2 = dict(detail, engine=ename)
        try:
            if use_map:
                mp = eng.map_query(list(Qn), evidence=evarg, virtual_evidence=vev, show_progress=False)
            else:
                res = eng.query(list(Qn), evidence=evarg, virtual_evidence=vev, joint=jointflag, show_progress=False)
        except Exception as e:
            return bad("impl!=spec:virtual-evidence-query-raises", dict(d2, error=repr(e)[:300]), key=key, tags=tags)
        if evarg != evn:
            return bad("impl!=spec:query-mutates-its-arguments", dict(d2, evidence=repr(evarg)), key=key, tags=tags)
        vafter = [table(f if isinstance(f, DiscreteFactor) and not isinstance(f, TabularCPD) else f.to_factor(),
                        [f.variables[0]], sbn) for f in vev]
        if vafter != vsnap:
            return bad("impl!=spec:query-mutates-its-arguments", dict(d2, what="virtual_evidence"), key=key, tags=tags)
        if sorted(map(repr, eng.model.nodes())) != sorted(map(repr, names)):
            return bad("impl!=spec:engine-model-not-restored", dict(d2, nodes=sorted(map(repr, eng.model.nodes()))),
                       key=key, tags=tags)
        if use_map:
            idx = 0
            for v in Q:
                got = mp.get(names[v], None) if names[v] in mp else None
                pos_ = [i for i, s_ in enumerate(sts[v]) if names[v] in mp and s_ == got and type(s_) is type(got)]
                if not pos_:
                    pos_ = [i for i, s_ in enumerate(sts[v]) if names[v] in mp and not isinstance(s_, (str, bool))
                            and not isinstance(got, (str, bool)) and hasattr(got, "__index__") and s_ == int(got)]
                if not pos_:
                    return bad("impl!=spec:map_query-state-name", dict(d2, var=v, got=repr(got)), key=key, tags=tags)
                idx = idx * cards[v] + pos_[0]
            if float(bnorm[idx]) < float(max(bnorm)) * (1 - 1e-9):
                return bad("impl!=spec:map_query-not-maximal", dict(d2, got=float(bnorm[idx])), key=key, tags=tags)
            continue
        if (jointflag and not isinstance(res, DiscreteFactor)) or ((not jointflag) and not isinstance(res, dict)):
            return bad("impl!=spec:query-return-type", dict(d2, got=type(res).__name__), key=key, tags=tags)
        try:
            if jointflag:
                it = table(res, Qn, sbn)
                if not close_tab(it, bnorm):
                    return bad("impl!=spec:virtual-evidence-query", dict(d2, impl=it, brute=[float(x) for x in bnorm]),
                               key=key, tags=tags)
            else:
                if set(map(repr, res.keys())) != set(map(repr, Qn)):
                    return bad("impl!=spec:query-keys", dict(d2, got=sorted(map(repr, res.keys()))), key=key, tags=tags)
                for v in Q:
                    fv = [f for kk, f in res.items() if repr(kk) == repr(names[v])][0]
                    it = table(fv, [names[v]], sbn)
                    b1 = normalise(brute_table(joint, cards, [v], ev=ev, weights=weights))
                    if not close_tab(it, b1):
                        return bad("impl!=spec:virtual-evidence-query-marginal",
                                   dict(d2, var=v, impl=it, brute=[float(x) for x in b1]), key=key, tags=tags)
        except StateNameMismatch as e:
            return bad("impl!=spec:result-state-names", dict(d2, error=str(e)), key=key, tags=tags)
    return None


def reject_checks(bp, cx, rng, case):
    """calls that must be refused; after each, the same engine still answers a valid query correctly"""
    from pgmpy.factors.discrete import TabularCPD
    names, sts, cards, key, tags, n = cx.names, cx.sts, cx.cards, cx.key, cx.tags, cx.n
    allv = list(range(n))
    # two variables that share a factor (for a BN: an edge), so that no pruning can drop the evidence
    pairs = [(fd["scope"][0], w) for fd in case["factors"] for w in fd["scope"][1:]]
    if not pairs:
        return None
    nodes0 = sorted(map(repr, bp.model.nodes()))
    a, b = rng.choice(pairs)
    if rng.random() < 0.5:
        a, b = b, a
    attempts = []
    attempts.append(("overlap", lambda: bp.query([names[a], names[b]], evidence={names[a]: sts[a][0]}, show_progress=False)))
    attempts.append(("unknown-state", lambda: bp.query([names[a]], evidence={names[b]: "no such state"}, show_progress=False)))
    attempts.append(("state-number-out-of-range", lambda: bp.query([names[a]], evidence={names[b]: 1000003}, show_progress=False)))
    if cx.kind == "bn":
        attempts.append(("unknown-variable", lambda: bp.query([names[a]], evidence={"no such variable": 0}, show_progress=False)))
        wrong = TabularCPD(names[b], cards[b] + 1, [[0.5]] * (cards[b] + 1))
        others = [v for v in allv if v not in (a, b)]
        if others:       # the invalid item comes LAST in the list
            good = TabularCPD(names[others[0]], cards[others[0]], [[0.5]] * cards[others[0]],
                              state_names={names[others[0]]: sts[others[0]]})
            vev = [good, wrong]
        else:
            vev = [wrong]
        attempts.append(("virtual-evidence-cardinality",
                         lambda: bp.query([names[a]], virtual_evidence=vev, show_progress=False)))
    for what, call in attempts:
        try:
            call()
            return bad("impl!=spec:invalid-call-accepted", {"what": what, "a": a, "b": b}, key=key, tags=tags)
        except (ValueError, KeyError, IndexError, TypeError):
            pass
        if sorted(map(repr, bp.model.nodes())) != nodes0:
            # (repaired by c16cea0: a query that raised inside _query used to leave the engine with the PRUNED
            #  Bayesian network as its model)
            return bad("impl!=spec:engine-model-changed-by-rejected-call",
                       {"what": what, "nodes": sorted(map(repr, bp.model.nodes())), "a": a, "b": b}, key=key, tags=tags)
        r = query_check(bp, cx, [a], {b: rng.randrange(cards[b])}, True, label="after rejected " + what, model_side=False)
        if r is not None and r != "zero":
            return r
    tags.append("rejected calls")
    return None


def run_reject_case(case, drv):
    """models the constructor must refuse"""
    from pgmpy.models import BayesianNetwork, MarkovNetwork
    from pgmpy.factors.discrete import TabularCPD, DiscreteFactor
    from pgmpy.inference import BeliefPropagation
    what = case["what"]
    names = var_names(case)
    key = common.canon_key(["reject", what, case["vstyle"], case.get("hashseed")])
    tags = ["kind=reject", "reject=" + what]
    if what == "disc-bn":
        m = BayesianNetwork()
        m.add_nodes_from(names)
        m.add_edge(names[0], names[1])
        m.add_cpds(TabularCPD(names[0], 2, [[0.25], [0.75]]),
                   TabularCPD(names[1], 2, [[0.25, 0.5], [0.75, 0.5]], evidence=[names[0]], evidence_card=[2]),
                   TabularCPD(names[2], 2, [[0.5], [0.5]]))
    elif what == "disc-mn":
        m = MarkovNetwork()
        m.add_edge(names[0], names[1])
        m.add_edge(names[2], names[3])
        m.add_factors(DiscreteFactor([names[0], names[1]], [2, 2], [1, 2, 3, 4]),
                      DiscreteFactor([names[2], names[3]], [2, 2], [1, 2, 3, 4]))
    else:
        m = BayesianNetwork()
        m.add_edge(names[0], names[1])
        m.add_cpds(TabularCPD(names[0], 2, [[0.25], [0.75]], state_names={names[0]: ["x", "y"]}),
                   TabularCPD(names[1], 2, [[0.25, 0.5], [0.75, 0.5]], evidence=[names[0]], evidence_card=[2],
                              state_names={names[0]: ["y", "x"], names[1]: ["u", "v"]}))
    try:
        bp = BeliefPropagation(m)
        bp.calibrate()
        bp.query([names[1]], show_progress=False)
    except ValueError:
        return ok(nontrivial=True, key=key, tags=tags)
    return bad("impl!=spec:invalid-model-accepted", {"what": what}, key=key, tags=tags)


def edited_case(case, rng):
    """an edit of the model through its own mutators, with the case description of the edited model"""
    kind = case["kind"]
    c = dict(case)
    c["factors"] = [dict(f) for f in case["factors"]]
    cards = case["cards"]
    if kind == "bn":
        children = {a for a, b in case["edges"]}
        leaves = []
        for v in range(case["n"]):
            if v in children:
                continue
            keep = [x for x in range(case["n"]) if x != v]
            ren = {x: i for i, x in enumerate(keep)}
            if connected(len(keep), [(ren[a], ren[b]) for a, b in case["edges"] if a != v and b != v]):
                leaves.append(v)
        if case["n"] >= 3 and leaves and rng.random() < 0.4:
            return None, ("remove_leaf", rng.choice(leaves))     # handled by the caller (renumbering not needed: brute force by name)
        i = rng.randrange(len(c["factors"]))
        fd = c["factors"][i]
        v, pa = fd["scope"][0], fd["scope"][1:]
        ncol = 1
        for p in pa:
            ncol *= cards[p]
        cols = [common.rand_column(rng, cards[v], zeros=False) for _ in range(ncol)]
        fd["values"] = [F2(cols[col][s]) for s in range(cards[v]) for col in range(ncol)]
        return c, ("replace", i)
    i = rng.randrange(len(c["factors"]))
    fd = c["factors"][i]
    fd["values"] = [F2(x) for x in rand_table(rng, len(fd["values"]), False)]
    return c, ("replace", i)


def session_checks(bp, m, cx, case, rng, ve):
    """one engine, many calls; edits of the model through its mutators followed by a NEW engine; the old engine,
    which has already answered queries, keeps answering for the model it was built from"""
    from pgmpy.inference import BeliefPropagation
    from pgmpy.factors.discrete import TabularCPD, DiscreteFactor
    n, cards, names, sts, kind = cx.n, cx.cards, cx.names, cx.sts, cx.kind
    allv = list(range(n))

    def rand_query():
        k = rng.randint(1, min(2, n))
        Q = rng.sample(allv, k)
        rest = [v for v in allv if v not in Q]
        E = rng.sample(rest, rng.randint(0, min(2, len(rest))))
        pos = [a for a, p in cx.joint.items() if p > 0]
        full = rng.choice(pos) if pos else tuple(rng.randrange(c) for c in cards)
        return Q, {v: full[v] for v in E}

    # (1) interleaved calls on the engine that has already been used
    ops = ["max_calibrate", "query", "calibrate", "query", "map", "max_calibrate", "query", "virtual", "query"]
    rng.shuffle(ops)
    for step, op in enumerate(ops[:5]):
        lab = "session step %d %s" % (step, op)
        if op == "calibrate":
            r, _ = cal_check(bp, cx, ops=(("sum", "c02_calibrate", "calibrate"),), label=lab)
        elif op == "max_calibrate":
            r, _ = cal_check(bp, cx, ops=(("max", "c02_max_calibrate", "max_calibrate"),), label=lab)
        elif op == "query":
            Q, ev = rand_query()
            r = query_check(bp, cx, Q, ev, rng.random() < 0.7, label=lab, model_side=False)
        elif op == "map":
            Q, ev = rand_query()
            r = map_check(bp, cx, Q, ev, label=lab)
        else:
            r = virtual_check(bp, cx, rng, label=lab) if kind == "bn" else None
        if r is not None and r != "zero":
            return r
    # (2) the result is the caller's: changing it changes nothing else; two results are two objects
    Q, ev = rand_query()
    Qn = [names[v] for v in Q]
    evn = {names[v]: sts[v][s] for v, s in ev.items()}
    if normalise(brute_table(cx.joint, cards, Q, ev=ev)) is not None:
        r1 = bp.query(list(Qn), evidence=dict(evn), show_progress=False)
        try:
            r1.values[...] = 0
        except Exception:
            pass
        for var in list(r1.state_names):
            r1.state_names[var] = list(reversed(r1.state_names[var]))
        r2 = bp.query(list(Qn), evidence=dict(evn), show_progress=False)
        if r2 is r1:
            return bad("impl!=spec:same-result-object-twice", {"Q": Q}, key=cx.key, tags=cx.tags)
        r = query_check(bp, cx, Q, ev, True, label="after mutating the previous result", model_side=False)
        if r is not None and r != "zero":
            return r
    # beliefs handed out by the engine are not the model's own potentials: overwrite them, the model is unchanged
    snap = snapshot(m, kind, cx.sbn)
    bp.calibrate()
    for f in bp.get_clique_beliefs().values():
        try:
            f.values[...] = 7
        except Exception:
            pass
    if snapshot(m, kind, cx.sbn) != snap:
        return bad("impl!=spec:beliefs-alias-the-model", {}, key=cx.key, tags=cx.tags)
    r, _ = cal_check(bp, cx, ops=(("sum", "c02_calibrate", "calibrate"),), label="recalibrate after overwriting beliefs")
    if r is not None:
        return r
    cx.tags.append("session: interleaved calls, result independence")
    # (3) edit the model through its mutators, then a NEW engine = the freshly built edited model
    if kind in ("bn", "mn", "jt") and cx.rip:
        c2, how = edited_case(case, rng)
        if how[0] == "remove_leaf":
            leaf = how[1]
            m.remove_node(names[leaf])
            # the edited model is the network WITHOUT the leaf's CPD (not the old joint with the leaf summed out:
            # the two differ when the CPD's columns are not exactly normalised)
            c_rm = dict(case)
            c_rm["factors"] = [f for f in case["factors"] if f["scope"][0] != leaf]
            c_rm["cards"] = [1 if i == leaf else c for i, c in enumerate(cards)]
            joint2 = brute_joint(c_rm)
            cx2 = Ctx()
            cx2.__dict__.update(cx.__dict__)
            cx2.joint = joint2
            cx2.cards = list(cards)
            cx2.cards[leaf] = 1      # the removed variable is a dummy with one state for the brute force / model
            live = [v for v in allv if v != leaf]
            bpn = BeliefPropagation(m)
            # the model side needs the dummy too: only pgmpy-vs-brute-force here
            for _ in range(3):
                Q = rng.sample(live, 1)
                rest = [v for v in live if v not in Q]
                E = rng.sample(rest, rng.randint(0, min(2, len(rest))))
                pos = [a for a, p in joint2.items() if p > 0]
                if not pos:
                    break
                full = rng.choice(pos)
                r = query_check(bpn, cx2, Q, {v: full[v] for v in E}, True, label="new engine after remove_node",
                                model_side=False)
                if r is not None and r != "zero":
                    return r
            cx.tags.append("session: remove_node then new engine")
        else:
            i = how[1]
            fd = c2["factors"][i]
            vals = [float(Fraction(a, b)) for a, b in fd["values"]]
            sc = fd["scope"]
            if kind == "bn":
                import numpy as np
                v, pa = sc[0], sc[1:]
                m.add_cpds(TabularCPD(names[v], cards[v], np.array(vals).reshape(cards[v], -1),
                                      evidence=[names[p] for p in pa] or None,
                                      evidence_card=[cards[p] for p in pa] or None,
                                      state_names={names[x]: sts[x] for x in sc}))
            else:
                old = None
                want = table_of_case(case["factors"][i], cx)
                for f in m.get_factors():
                    if list(map(repr, f.variables)) == [repr(names[v]) for v in sc] and \
                            table(f, list(f.variables), cx.sbn) == want:
                        old = f
                        break
                if old is None:
                    return bad("harness:factor-not-found", {}, key=cx.key, tags=cx.tags)
                m.remove_factors(old)
                m.add_factors(DiscreteFactor([names[v] for v in sc], [cards[v] for v in sc], vals,
                                             state_names={names[v]: sts[v] for v in sc}))
            cx2 = Ctx()
            cx2.__dict__.update(cx.__dict__)
            cx2.joint = brute_joint(c2)
            bpn = BeliefPropagation(m)
            r, _ = cal_check(bpn, cx2, label="new engine after editing the model")
            if r is not None:
                return r
            for _ in range(3):
                Q, ev = rand_query()
                pos = [a for a, p in cx2.joint.items() if p > 0]
                full = rng.choice(pos) if pos else tuple(rng.randrange(c) for c in cards)
                ev = {v: full[v] for v in ev}
                r = query_check(bpn, cx2, Q, ev, True, label="new engine after editing the model")
                if r is not None and r != "zero":
                    return r
            # the old engine has answered queries before the edit: it keeps the model it was built from
            for _ in range(2):
                Q, ev = rand_query()
                r = query_check(bp, cx, Q, ev, True, label="old engine after the model was edited", model_side=False)
                if r is not None and r != "zero":
                    return r
            cx.tags.append("session: edit (add_cpds / remove_factors+add_factors) then new engine")
    return None


def table_of_case(fd, cx):
    return [float(Fraction(a, b)) for a, b in fd["values"]]


def heuristic_checks(case, cx, rng):
    """every triangulation heuristic and an explicit elimination order: triangulate the interaction graph in place
    (or out of place, re-attaching the factors), then belief propagation on the result"""
    from pgmpy.inference import BeliefPropagation
    from pgmpy.models import MarkovNetwork
    m2, _, _, _ = build(case)
    mm = m2 if case["kind"] == "mn" else m2.to_markov_model()
    if mm.is_triangulated():
        cx.tags.append("heuristics: graph already chordal")
        return None
    for h in case["heur"]:
        m3, _, _, _ = build(case)
        mm = m3 if case["kind"] == "mn" else m3.to_markov_model()
        kw = {}
        if h == "order":
            order = list(mm.nodes())
            rng.shuffle(order)
            kw["order"] = order
        else:
            kw["heuristic"] = h
        if rng.random() < 0.5:
            mm.triangulate(inplace=True, **kw)
            tri = mm
        else:
            g = mm.triangulate(inplace=False, **kw)
            tri = MarkovNetwork()
            tri.add_nodes_from(mm.nodes())
            tri.add_edges_from(g.edges())
            tri.add_factors(*[f.copy() for f in mm.get_factors()])
        if not tri.is_triangulated():
            return bad("impl!=spec:triangulate-not-chordal", {"heuristic": h, "order": [repr(x) for x in kw.get("order", [])]},
                       key=cx.key, tags=cx.tags)
        bp = BeliefPropagation(tri)
        r, _ = cal_check(bp, cx, ops=(("sum", "c02_calibrate", "calibrate"),), label="triangulate " + h)
        if r is not None:
            return r
        Q = rng.sample(range(cx.n), 1)
        rest = [v for v in range(cx.n) if v not in Q]
        E = rng.sample(rest, min(2, len(rest)))
        pos = [a for a, p in cx.joint.items() if p > 0]
        full = rng.choice(pos) if pos else tuple(0 for _ in cx.cards)
        r = query_check(bp, cx, Q, {v: full[v] for v in E}, True, label="triangulate " + h)
        if r is not None and r != "zero":
            return r
        cx.tags.append("triangulate " + h)
    return None


def jt_guard_checks(m, cx, case, rng):
    """JunctionTree.add_edge refuses an edge that closes a cycle and an edge between disjoint cliques, and leaves
    the tree as it was"""
    nodes0 = sorted(map(repr, m.nodes()))
    edges0 = sorted(tuple(sorted((repr(a), repr(b)))) for a, b in m.edges())
    cl = list(m.nodes())
    tried = 0
    for a in cl:
        for b in cl:
            if a is b or m.has_edge(a, b):
                continue
            if set(a) & set(b):      # in a tree every further edge closes a cycle
                try:
                    m.add_edge(a, b)
                    return bad("impl!=spec:invalid-call-accepted", {"what": "add_edge closing a cycle"}, key=cx.key, tags=cx.tags)
                except ValueError:
                    tried += 1
            else:
                try:
                    m.add_edge(a, b)
                    return bad("impl!=spec:invalid-call-accepted", {"what": "add_edge between disjoint cliques"},
                               key=cx.key, tags=cx.tags)
                except ValueError:
                    tried += 1
            if tried >= 3:
                break
        if tried >= 3:
            break
    try:
        m.add_edge(cl[0], ("no such variable 1", "no such variable 2"))
        return bad("impl!=spec:invalid-call-accepted", {"what": "add_edge to a disjoint new clique"}, key=cx.key, tags=cx.tags)
    except ValueError:
        pass
    if sorted(map(repr, m.nodes())) != nodes0 or sorted(tuple(sorted((repr(a), repr(b)))) for a, b in m.edges()) != edges0:
        return bad("impl!=spec:rejected-add_edge-changed-the-tree", {}, key=cx.key, tags=cx.tags)
    cx.tags.append("add_edge guards")
    return None


def run_case(case, drv):
    set_backend(case)
    try:
        if case["kind"] == "reject":
            return run_reject_case(case, drv)
        return run_model_case(case, drv)
    finally:
        if case.get("backend") == "torch":
            from pgmpy import config
            config.set_backend("numpy")


def run_model_case(case, drv):
    from pgmpy.inference import BeliefPropagation, VariableElimination
    m, names, sts, sbn = build(case)
    n = case["n"]
    cards = case["cards"]
    kind = case["kind"]
    vid = {names[v]: v for v in range(n)}
    rng = random.Random(case["qseed"])
    tags = ["kind=" + kind, "n=%d" % n, "states=" + case["sstyle"], "names=" + case["vstyle"],
            "backend=" + case.get("backend", "numpy")]
    key = common.canon_key([kind, n, cards, case.get("edges"), case.get("cliques"), case.get("tedges"),
                            case["factors"], case["vstyle"], case["sstyle"], case.get("hashseed"), case.get("backend")])
    rip = case.get("rip", True)
    if case.get("multi"):
        tags.append("several factors on one clique")
        if len({(tuple(sorted(f["scope"])), tuple(map(tuple, f["values"])), tuple(f["scope"])) for f in case["factors"]}) < len(case["factors"]):
            tags.append("equal factors on one clique")
    if case.get("scaled"):
        tags.append("magnitudes: factors scaled by 2^e, |e|<=80, one state damped by 2^-40")
    if case.get("wide"):
        tags.append("9-variable factor")
    if case.get("rowstoch"):
        tags.append("damped state with a row-stochastic far factor")
    if 1 in cards:
        tags.append("cardinality-1 variable")
    cx = Ctx()
    cx.names, cx.sts, cx.sbn, cx.vid, cx.cards, cx.n, cx.kind = names, sts, sbn, vid, cards, n, kind
    cx.joint = brute_joint(case)
    cx.key, cx.tags, cx.rip, cx.drv = key, tags, rip, drv
    cx.sloppy = bool(case.get("sloppy"))
    cx.lite = bool(case.get("long"))
    if cx.sloppy:
        tags.append("CPD columns typed with two decimals (sums 0.99..1.01)")
    if case.get("long"):
        tags.append("9-12 node Bayesian network")
    if case.get("bigcard"):
        tags.append("variable with 257 states")
    joint = cx.joint
    snap0 = snapshot(m, kind, sbn)

    if kind == "jt":
        r = jt_guard_checks(m, cx, case, rng)
        if r is not None:
            return r

    bp = BeliefPropagation(m)
    r, cliques = cal_check(bp, cx)
    if r is not None:
        return r
    ncl = len(cliques)
    tags += ["cliques=%d" % ncl, "maxclique=%d" % max(len(c) for c in cliques)]
    multi = sum(1 for v in range(n) if sum(1 for c in cliques if names[v] in c) >= 2)
    if not rip:
        tags.append("non-RIP tree: model==pgmpy only")
        return ok(nontrivial=True, key=key, tags=tags)

    # ---- queries
    allv = list(range(n))
    qs = []
    if n <= 4:
        for lab in itertools.product((0, 1, 2), repeat=n):
            Q = [v for v in allv if lab[v] == 1]
            E = [v for v in allv if lab[v] == 2]
            if Q:
                qs.append((Q, E))
        tags.append("queries=all-subsets")
        cap = 6 if case.get("bigcard") else (24 if case.get("tier") == "quick" else 40)
        if len(qs) > cap:
            qs = rng.sample(qs, cap)
    else:
        for _ in range(2 if (case.get("wide") or case.get("long")) else (7 if case.get("tier") == "quick" else 10)):
            k = rng.randint(1, min(3, n))
            Q = rng.sample(allv, k)
            rest = [v for v in allv if v not in Q]
            E = rng.sample(rest, rng.randint(0, min(3, len(rest))))
            qs.append((Q, E))
        tags.append("queries=sample")
        # one variable private to each of (up to) three leaf cliques: the subtree must join >= 3 cliques
        deg = {c: 0 for c in cliques}
        for a, b in bp.junction_tree.edges():
            deg[tuple(a)] += 1
            deg[tuple(b)] += 1
        priv = []
        for c in cliques:
            if deg[c] == 1:
                own = [v for v in c if sum(1 for d in cliques if v in d) == 1]
                if own:
                    priv.append(vid[own[0]])
        if len(priv) >= 3:
            sel = rng.sample(priv, 3)
            qs.append((sel[:2], sel[2:]))
            qs.append((sel, []))
            tags.append("query joining >=3 leaf cliques")
    # reference VE: VariableElimination(FactorGraph).query raises AttributeError ('states') in the default
    # greedy path (observation reported to C01), so factor graphs are referred to their Markov network
    ve = VariableElimination(m.to_markov_model() if kind == "fg" else m)
    # decimal CPDs are not exactly normalised: VariableElimination's barren-node pruning assumes they are (C01's
    # domain), so it is not used as a reference there
    ve_ref = None if cx.sloppy else ve
    n_ev = 0
    n_multi_ev = 0
    pos = [a for a, p in joint.items() if p > 0]
    for qi, (Q, E) in enumerate(qs):
        full = None
        if pos and rng.random() < 0.9:
            full = rng.choice(pos)
        ev = {v: (full[v] if full else rng.randrange(cards[v])) for v in E}
        jointflag = (qi % 3 != 2)
        Q = list(Q)
        rng.shuffle(Q)
        r = query_check(bp, cx, Q, ev, jointflag, ve=ve_ref, label="query %d" % qi, evidence_none=(qi % 2 == 1),
                        container=["list", "tuple", "set"][qi % 3])
        if r == "zero":
            tags.append("zero-probability evidence (not compared)")
            continue
        if r is not None:
            return r
        if E:
            n_ev += 1
            if any(sum(1 for c in cliques if names[v] in c) >= 2 for v in E):
                n_multi_ev += 1
        tags.append("joint=%s" % jointflag)
        tags.append("evidence=%d" % len(E))
        if qi % 4 == 0:
            r = map_check(bp, cx, Q, ev, label="query %d" % qi)
            if r is not None:
                return r
            tags.append("map_query")
    # map_query() with the documented default variables=None (all variables), no evidence; Bayesian and Markov
    # networks only: for FactorGraph / JunctionTree engines model.nodes() are not the variables (left to C03)
    if n <= 6 and kind not in ("fg", "jt"):
        r = map_check(bp, cx, allv, {}, label="variables=None", variables_none=True)
        if r is not None:
            return r
        tags.append("map_query(variables=None)")

    # ---- virtual evidence (Bayesian networks), fresh engines: the full product joint x hard evidence for BP and VE,
    # with hard evidence on a root when there is one, and once through map_query
    if kind == "bn" and n >= 2:
        roots = [v for v in allv if not any(b == v for a, b in case["edges"])]
        for jf in (True, False):
            for we in (False, True):
                r = virtual_check(BeliefPropagation(m), cx, rng, label="virtual joint=%s evidence=%s" % (jf, we),
                                  jointflag=jf, with_ev=we, ve=(None if cx.sloppy else VariableElimination(m)),
                                  root_ev=(rng.choice(roots) if roots else None))
                if r is not None:
                    return r
        r = virtual_check(BeliefPropagation(m), cx, rng, label="virtual map", use_map=True)
        if r is not None:
            return r
        tags.append("virtual-evidence x joint x hard evidence")

    # nothing so far may have changed the caller's model
    if snapshot(m, kind, sbn) != snap0:
        return bad("impl!=spec:model-changed-by-inference", {}, key=key, tags=tags)

    if case.get("heur") and kind in ("mn", "bn", "fg") and not case.get("wide") and n >= 4:
        r = heuristic_checks(case, cx, rng)
        if r is not None:
            return r
    if case.get("session") and not case.get("wide"):
        r = session_checks(bp, m, cx, case, rng, ve)
        if r is not None:
            return r

    if multi:
        tags.append("variables in >=2 cliques")
    if n_multi_ev:
        tags.append("evidence on a variable in >=2 cliques")
    # last, so that a diagnosed finding here masks nothing: calls that must be refused (fresh engine on a
    # freshly built model: the session stream may have edited m)
    m4, _, _, _ = build(case)
    r = reject_checks(BeliefPropagation(m4), cx, rng, case)
    if r is not None:
        return r
    return ok(nontrivial=(ncl >= 2 and n_ev >= 1), key=key, tags=sorted(set(tags)))
