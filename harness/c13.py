"""C13 correspondence: BayesianNetwork.do / CausalInference (query, back-door, front-door, proper back-door
graph, adjustment-set tests, minimal adjustment set) vs the Coq model coq/C13/Model.v and the
specification coq/C13/Spec.v (truncated factorisation; back-door / front-door criteria evaluated on paths)."""
import itertools
import random
from fractions import Fraction

from harness import common
from harness.common import ok, bad

PROP = "C13"
LEVEL = "proof"
HASHSEEDS = {"quick": [0, 1, 2, 3], "thorough": list(range(16))}
BUDGET_S = {"quick": 400, "thorough": 3000}
EXHAUSTIVE = {"quick": True, "thorough": True}
RULE = ("graph stream (exhaustive): every DAG on <=4 labelled nodes (quick and thorough), without latents and with one "
        "random latent subset, x every ordered pair (X,Y) x every candidate Z: coded back-door test, "
        "is_valid_adjustment_set and the path-based back-door criterion for every Z among the non-descendants of X; "
        "coded tests vs model for every other Z; front-door test vs criterion for every Z; every enumerated "
        "back-door / front-door / minimal set checked against the path criterion; proper back-door graph; "
        "thorough adds every 5-node DAG with 4 sampled pairs each.  minadj stream: every 4-node DAG under every "
        "PYTHONHASHSEED of the tier (the minimal set depends on set order).  bn stream: exhaustive DAGs <=3 nodes "
        "and random DAGs of 3-5 nodes with cardinalities 2-3, dyadic CPDs (parents in shuffled axis order), "
        "optional latents, string/int state names: do() structure and CPDs for every node subset (<=4 nodes) "
        "and query for every single do-variable, every pair (incl. parent-child) and sampled triples, over "
        "admissible and refused query sets, both back-ends, default and every enumerated back-door set, "
        "compared with the as-coded model and with the truncated factorisation.  sess stream: m1 = model.do(S1), "
        "m1.do(S2, inplace=True) on nodes with parents, m2 = m1.do(S3), m2.do(S4, inplace=True), then in-place CPD "
        "edits (marginalize/reduce/normalize/value assignment), add_cpds replacement and remove_node on a fresh "
        "do() result: every do() result equals the model's chained do(), and the network each result was derived "
        "from still equals its snapshot (edges, latents, every CPD by named assignment, check_model) and still "
        "answers an interventional query as the model does.  A case is non-trivial when "
        "the graph has an edge and (bn) some query used a non-empty adjustment set / (graph) some pair has a "
        "back-door path; distinct = distinct canonical case.  "
        "GENERALISATION CLASSES: A sessions - 'sess' (do() results edited in place through do(inplace), CPD "
        "marginalize/reduce/normalize/value assignment, add_cpds replacement, remove_node: the source network keeps "
        "its snapshot), 'gsess' (ONE network object and engine: remove_edge, add_edge, remove_edges_from, "
        "add_edges_from, remove_node, add_node(+latent), clear-and-rebuild between rounds of every graph test / "
        "enumeration / minimal set / proper back-door graph, oracle = model on the CURRENT graph; the engine is "
        "rebuilt only after node-set edits because CausalInference records the observed variables at construction), "
        "'qsess' (ONE network and ONE CausalInference object: add_cpds replacement, remove_edge / add_edge with a "
        "replacement CPD, do(inplace=True) between queries); B argument purity - query's variables list / do dict / "
        "adjustment set / evidence dict, do()'s node list, the X, Y, Z lists of the validity tests, simulate's do "
        "dict are compared with deep snapshots, refused calls included, and the same argument objects are reused "
        "for a second call; C result independence - the first query result is wrecked (values, scope) and the "
        "query repeated with the same arguments, get_minimal_adjustment_set's set and get_proper_backdoor_graph's "
        "graph are edited and asked again, do() never returns self, CPDs are built from lists, C-contiguous float64 "
        "ndarrays, a reused buffer and another CPD's get_values() which are overwritten afterwards; D pandas - not "
        "applicable (no frame is an input; simulate's frame is read by column label only); E names - pool with "
        "substrings (x1/x10/x11, G/G2), keywords (do, evidence, variables, None), the empty string, '__X' (prefix of "
        "the virtual-evidence child), int / tuple / mixed unsortable names and ints >= 8 (set order not "
        "increasing) on do()/query; the graph-test API accepts strings only (pgmpy's set helper); F state names - "
        "ints, reversed ints, 1-based ints, booleans in both orders, strings, the same names across variables "
        "(disagreeing state lists between CPDs are C05/C15's rejection); G sizes - single-node and edgeless "
        "networks, cardinality-1 variables, do([]), do(node) / tuple / set / duplicate node, do=None vs {}, empty "
        "adjustment set vs None (an empty set must NOT fall back to the parents), node/state 0; a factor over >= 9 "
        "variables would need >= 9 parents of one do-variable (512+ inner queries per call): the non-monotone "
        "set-order effect it stands for is produced with ints >= 8 as node names instead; H magnitudes - CPD "
        "entries down to 2^-50 and joint masses down to ~1e-60 with exact-float inputs, every query value compared "
        "purely RELATIVELY (1e-9) with the model's exact rational; exact zeros: zero-probability conditioning is "
        "outside the property (tagged, skipped), other zeros must be exact; I backends - numpy and torch (bn and "
        "qsess cases under config.set_backend('torch')); J variants - inference_algo ve/bp, show_progress, "
        "evidence None/{}, adjustment set as set/list, inplace for do() and get_proper_backdoor_graph, Z as "
        "list/tuple/set/frozenset/single name/default for the tests, simulate(do=, include_latents=, "
        "virtual_intervention=); an Inference INSTANCE as inference_algo raises TypeError on the unchanged tree "
        "(reported, not exercised: the property names the two back-ends); K rejected calls - a LATER unknown node "
        "in do() (out of place and in place), query variables, get_proper_backdoor_graph(inplace=True): refused and "
        "the network equals its snapshot; latent X/Y refused by the enumerations; L orders - insertion order of "
        "nodes, edges and CPDs shuffled per case, add_edges_from vs add_edge, CPD parent axis order, do-dict order, "
        "hash seeds, set orders as model parameters; M budget - tools/check.py")
TRUSTED_BASE = ["inner VariableElimination/BeliefPropagation posteriors are modelled by their specification "
                "(conditional of the CPD-product joint; subject of C01/C02)",
                "d-connection oracle = C08 model (C08_is_dconnected_iff)",
                "networkx DiGraph storage, all_simple_paths / all_simple_edge_paths / descendants",
                "python set iteration order is an order parameter of the model (results compared as sets; "
                "minimal set must equal the model's result for SOME order)"]
ASSUMPTIONS = ["node names are strings (CausalInference's set helper rejects anything else), interned to nat ids",
               "query comparisons require every conditioning event to have positive probability "
               "(zero-probability conditioning makes pgmpy return nan / back-end dependent values; those cases are "
               "tagged and skipped)",
               "evidence argument of CausalInference.query is not exercised (the property is about P(Y | do(X)))"]

NAMEPOOL = ["A", "B", "C", "D", "E", "X", "Y", "Z", "U", "M", "W", "n0", "n1", "n2", "x y", "0", "1", "a-b", "Q", "T",
            "x1", "x10", "x11", "G", "G2", "do", "evidence", "variables", "None", "", "__X", "__A"]
SUBSTR = ["x", "x1", "x10", "x11", "x110", "G", "G2", "__x", "__x1"]
BIGINT = [8, 16, 9, 24, 1, 32, 17, 40, 0, 64, 257, 1000, 300]     # a set of these does not iterate in increasing order


# ------------------------------------------------------------------ case generation
def cases(tier, seed):
    rng = random.Random(seed)
    out = []
    thorough = tier == "thorough"
    # ---- graph stream
    for n in range(2, 5):
        for edges in common.all_dags(n):
            out.append({"kind": "graph", "n": n, "edges": edges, "lat": [], "nameseed": rng.randint(0, 10**9)})
            if n >= 3:
                k = rng.randint(1, n - 2)
                out.append({"kind": "graph", "n": n, "edges": edges, "lat": sorted(rng.sample(range(n), k)),
                            "nameseed": rng.randint(0, 10**9)})
    if thorough:
        for edges in common.all_dags(5):
            out.append({"kind": "graph", "n": 5, "edges": edges, "lat": [], "pairs": 4,
                        "nameseed": rng.randint(0, 10**9)})
    # ---- minimal adjustment set under every hash seed
    for k, edges in enumerate(common.all_dags(4)):
        if len(edges) < 3 or (not thorough and k % 2):
            continue
        for hs in HASHSEEDS[tier]:
            out.append({"kind": "minadj", "n": 4, "edges": edges, "lat": [], "hashseed": hs, "nameseed": 7})
    if thorough:
        for i in range(1500):
            n = 5
            nodes, edges = common.rand_dag(rng, n, p=rng.choice([0.35, 0.5, 0.7]))
            lat = sorted(rng.sample(range(n), rng.randint(0, 2)))
            out.append({"kind": "minadj", "n": n, "edges": edges, "lat": lat, "hashseed": rng.choice(HASHSEEDS[tier]),
                        "nameseed": rng.randint(0, 10**9)})
    # ---- bn stream
    for n in range(1, 4):
        for edges in common.all_dags(n):
            out.append(bn_case(rng, n, edges, []))       # includes the single-node and the edgeless networks
    nrand = 70 if not thorough else 1500
    for i in range(nrand):
        n = rng.choice([3, 4, 4, 4, 5] if not thorough else [3, 4, 4, 5, 5])
        nodes, edges = common.rand_dag(rng, n, p=rng.choice([0.35, 0.5, 0.7, 0.9]))
        lat = []
        if rng.random() < 0.4:
            lat = sorted(rng.sample(range(n), rng.randint(1, 2)))
        out.append(bn_case(rng, n, edges, lat))
    # the textbook witnesses
    out.append(bn_case(rng, 3, [(0, 1), (1, 2), (0, 2)], []))            # A->B, B->Y, A->Y : do(A,B)
    out.append(bn_case(rng, 4, [(1, 0), (1, 2), (2, 3), (0, 2)], []))    # X<-U->M->Y, X->M
    out.append(bn_case(rng, 4, [(1, 0), (1, 2), (2, 3), (0, 2)], [1]))
    out.append(bn_case(rng, 3, [(0, 1), (1, 2)], []))
    # ---- simulate(do=...) on deterministic networks
    for i in range(6 if not thorough else 40):
        n = rng.choice([3, 4])
        nodes, edges = common.rand_dag(rng, n, p=0.6)
        c = bn_case(rng, n, edges, [], deterministic=True)
        c["kind"] = "sim"
        out.append(c)
    # ---- magnitudes (numpy): CPD entries down to 2^-50, joint masses down to ~1e-60, compared RELATIVELY
    for i in range(8 if not thorough else 150):
        n = rng.choice([3, 4, 4]) if thorough else 3
        nodes, edges = common.rand_dag(rng, n, p=rng.choice([0.7, 0.9]))
        out.append(bn_case(rng, n, edges, [], mag=True, card1=False))
    # ---- torch backend
    for i in range(8 if not thorough else 120):
        n = rng.choice([3, 4])
        nodes, edges = common.rand_dag(rng, n, p=rng.choice([0.5, 0.7, 0.9]))
        out.append(bn_case(rng, n, edges, [], backend="torch"))
    # ---- O: every container type for node collections (do, query variables, test arguments), fresh objects (N)
    for i in range(24 if not thorough else 300):
        n = rng.choice([3, 4, 4])
        nodes, edges = common.rand_dag(rng, n, p=rng.choice([0.7, 0.9]))
        c = bn_case(rng, n, edges, [], card1=False)
        c["kind"] = "forms"
        out.append(c)
    # ---- P: mid-sized networks (9 and 12 nodes: chains, trees, sparse DAGs) and a variable with 257 states
    for i in range(4 if not thorough else 40):
        n = 12 if (thorough and i % 4 == 3) else 9
        shape = ["chain", "tree", "sparse"][i % 3]
        perm = list(range(n))
        rng.shuffle(perm)
        if shape == "chain":
            edges = [(perm[k], perm[k + 1]) for k in range(n - 1)]
        elif shape == "tree":
            edges = [(perm[rng.randrange(k)], perm[k]) for k in range(1, n)]
        else:
            edges = [(perm[rng.randrange(k)], perm[k]) for k in range(1, n)]
            extra = [(perm[a], perm[b]) for a in range(n) for b in range(a + 1, n) if (perm[a], perm[b]) not in edges]
            edges += rng.sample(extra, 3)
        c = bn_case(rng, n, edges, [], cards=[2] * n)
        c["kind"] = "mid"
        out.append(c)
        if i % 2 == 0 or thorough:
            out.append({"kind": "graph", "n": n if n == 9 else 10, "edges": [list(e) for e in edges if max(e) < (n if n == 9 else 10)],
                        "lat": sorted(rng.sample(range(9), rng.randint(0, 2))), "pairs": 2,
                        "nameseed": rng.randint(0, 10**9)})
    for i in range(1 if not thorough else 6):
        # A -> X -> Y, A -> Y, Y -> W with 257 states (beyond a one-byte code): W is summed out / intervened on
        c = bn_case(rng, 4, [(0, 1), (1, 2), (0, 2), (2, 3)], [], cards=[2, 2, 2, 257])
        c["kind"] = "mid"
        out.append(c)
    # ---- Q: tables typed with 2-3 decimals (column sums within check_model's tolerance, not exactly 1)
    for i in range(8 if not thorough else 100):
        n = rng.choice([3, 4])
        nodes, edges = common.rand_dag(rng, n, p=rng.choice([0.7, 0.9]))
        out.append(bn_case(rng, n, edges, [], approx=True))
    # ---- sessions on ONE model object + ONE engine: graph edits through every mutator between the calls
    for i in range(36 if not thorough else 400):
        n = rng.choice([3, 4, 4])
        nodes, edges = common.rand_dag(rng, n, p=rng.choice([0.5, 0.7]))
        lat = sorted(rng.sample(range(n), 1)) if rng.random() < 0.3 else []
        out.append({"kind": "gsess", "n": n, "edges": [list(e) for e in edges], "lat": lat,
                    "nameseed": rng.randint(0, 10**9), "qseed": rng.randint(0, 10**9)})
    # ---- sessions on ONE network + ONE CausalInference object: CPD / edge edits and do(inplace) between queries
    for i in range(30 if not thorough else 400):
        n = rng.choice([3, 4, 4])
        nodes, edges = common.rand_dag(rng, n, p=rng.choice([0.7, 0.9]))
        c = bn_case(rng, n, edges, [], card1=False, backend="torch" if i % 10 == 9 else "numpy")
        c["kind"] = "qsess"
        out.append(c)
    # ---- sessions: do() results edited in place must never change the network they were derived from
    sess = [bn_case(rng, 4, [(0, 1), (1, 2), (2, 3), (0, 3)], [])]            # Z -> A -> B -> C, Z -> C
    for i in range(45 if not thorough else 800):
        n = rng.choice([3, 4, 4, 5])
        nodes, edges = common.rand_dag(rng, n, p=rng.choice([0.5, 0.7, 0.9]))
        lat = sorted(rng.sample(range(n), 1)) if rng.random() < 0.2 else []
        sess.append(bn_case(rng, n, edges, lat))
    for c in sess:
        c["kind"] = "sess"
        out.append(c)
    return out


def tiny_column(rng, card):
    """an exact-float probability column with entries down to 2^-50 (products over a chain reach 1e-60)"""
    ks = sorted(rng.randint(20, 50) for _ in range(card - 1))
    small = [Fraction(1, 2 ** k) for k in ks]
    col = small + [1 - sum(small)]
    rng.shuffle(col)
    return col


def big_column(rng, card, den=1024):
    """a strictly positive dyadic column for a variable with many states"""
    parts = [1] * card
    for _ in range(den - card):
        parts[rng.randrange(card)] += 1
    return [Fraction(x, den) for x in parts]


def approx_column(rng, card):
    """a column typed with two or three decimals: within check_model's tolerance of 1 but not exactly normalised
    (the case stores the decimal itself; pgmpy gets the nearest float, 1e-17 away: far below every tolerance)"""
    while True:
        w = [rng.random() + 0.05 for _ in range(card)]
        t = sum(w)
        digits = rng.choice([2, 3])
        col = [round(x / t, digits) for x in w]
        k = rng.randrange(card)
        col[k] = round(col[k] + rng.choice([-0.004, -0.002, -0.001, 0.001, 0.003, 0.004]), 3)   # a typing slip
        dec = [Fraction(repr(c)) for c in col]
        if all(c > 0 for c in col) and abs(sum(dec) - 1) <= Fraction(5, 1000) and sum(dec) != 1:
            return dec


def bn_case(rng, n, edges, lat, deterministic=False, mag=False, backend="numpy", card1=None, cards=None, approx=False):
    edges = [tuple(e) for e in edges]
    fixed_cards = cards is not None
    cards = list(cards) if fixed_cards else [rng.choice([2, 2, 3]) for _ in range(n)]
    if fixed_cards or approx:
        card1 = False
    if card1 is None:
        card1 = (not deterministic) and rng.random() < 0.12
    if card1:
        cards[rng.randrange(n)] = 1                       # a variable with a single state
    zeros = rng.random() < 0.15
    cpds = []
    for v in range(n):
        ps = [u for (u, w) in edges if w == v]
        rng.shuffle(ps)
        ncol = 1
        for p in ps:
            ncol *= cards[p]
        cols = []
        for _ in range(ncol):
            if deterministic:
                k = rng.randrange(cards[v])
                cols.append([Fraction(1 if i == k else 0) for i in range(cards[v])])
            elif mag and cards[v] > 1 and rng.random() < 0.7:
                cols.append(tiny_column(rng, cards[v]))
            elif approx and cards[v] > 1:
                cols.append(approx_column(rng, cards[v]))
            elif cards[v] > 8:
                cols.append(big_column(rng, cards[v]))
            else:
                cols.append(common.rand_column(rng, cards[v], zeros=zeros))
        # table[i][j] = P(v = i | column j)
        table = [[[c[i].numerator, c[i].denominator] for c in cols] for i in range(cards[v])]
        cpds.append({"v": v, "ps": ps, "table": table})
    return {"kind": "bn", "n": n, "edges": [list(e) for e in edges], "lat": list(lat), "cards": cards, "cpds": cpds,
            "style": "str" if deterministic else rng.choice(["str", "str", "int", "tuple", "mixed", "bigint", "substr"]),
            "backend": backend, "mag": bool(mag), "approx": bool(approx),
            "nameseed": rng.randint(0, 10**9), "qseed": rng.randint(0, 10**9)}


def shrink(case):
    if case["kind"] in ("graph", "minadj"):
        for i in range(len(case["edges"])):
            c = dict(case)
            c["edges"] = case["edges"][:i] + case["edges"][i + 1:]
            yield c
        for i in range(len(case["lat"])):
            c = dict(case)
            c["lat"] = case["lat"][:i] + case["lat"][i + 1:]
            yield c
    elif case["kind"] in ("bn", "sess", "qsess", "forms", "mid"):
        for i in range(len(case["lat"])):
            c = dict(case)
            c["lat"] = case["lat"][:i] + case["lat"][i + 1:]
            yield c


# ------------------------------------------------------------------ helpers
def fresh(x):
    """an equal but not identical object (class N): names / states handed to pgmpy are rebuilt at run time"""
    if isinstance(x, bool):
        return x
    if isinstance(x, str):
        return "".join(list(x)) if len(x) > 1 else x
    if isinstance(x, int):
        return int(str(x))
    if isinstance(x, tuple):
        return tuple(fresh(y) for y in x)
    return x


def names_for(case):
    if "names" in case:
        return list(case["names"])
    rng = random.Random(case["nameseed"])
    style = case.get("style", "str")
    def _fit(pool, extra):
        # pools are sized for the small cases; mid-sized cases (9-12 nodes) extend them deterministically
        pool = list(pool)
        i = 0
        while len(pool) < case["n"]:
            cand = extra(i)
            i += 1
            if cand not in pool:
                pool.append(cand)
        return pool
    if style == "substr":
        pool = _fit(SUBSTR, lambda i: "x1%d" % i)
        rng.shuffle(pool)
        return pool[:case["n"]]
    if style == "bigint":
        pool = _fit(BIGINT, lambda i: 5000 + 257 * i)
        rng.shuffle(pool)
        return pool[:case["n"]]
    if style != "str":
        # CausalInference.query / BayesianNetwork.do accept any hashable node name (b0e2b86); the graph tests
        # (set helper) accept strings only, so only the bn stream uses these
        return common.node_names(rng, case["n"], style)
    pool = _fit(NAMEPOOL, lambda i: "node%d" % i)
    rng.shuffle(pool)
    return pool[:case["n"]]


def state_names_for(case, names):
    rng = random.Random(case["nameseed"] + 1)
    sn = {}
    for v, c in enumerate(case["cards"]):
        style = rng.choice(["int", "str"] if case["kind"] == "sim" else ["int", "str", "revint", "onebased", "bool", "same", "bigstate"])
        if style == "bool" and c != 2:
            style = "onebased"
        if style == "same" and c > 3:
            style = "str"
        if style == "int":
            sn[v] = list(range(c))
        elif style == "str":
            sn[v] = ["s%d" % i for i in range(c)]
        elif style == "onebased":
            sn[v] = list(range(1, c + 1))
        elif style == "bool":
            sn[v] = [False, True] if rng.random() < 0.5 else [True, False]
        elif style == "bigstate":
            sn[v] = [1000 + 257 * i for i in range(c)]    # ints above CPython's small-int cache
        elif style == "same":
            sn[v] = ["lo", "mid", "hi"][:c]          # the same names across variables
        else:
            sn[v] = list(range(c))[::-1]
    return sn


def build_graph(case):
    from pgmpy.models import BayesianNetwork
    names = names_for(case)
    m = BayesianNetwork()
    orng = random.Random(case.get("nameseed", 0) + 3)
    order = list(range(case["n"]))
    orng.shuffle(order)                                  # insertion order of nodes and edges is not an input
    for v in order:
        m.add_node(names[v], latent=(v in case["lat"]))
    es = [(names[u], names[v]) for u, v in case["edges"]]
    orng.shuffle(es)
    if orng.random() < 0.5:
        m.add_edges_from(es)
    else:
        for e in es:
            m.add_edge(*e)
    return m, names


def build_bn(case):
    from pgmpy.factors.discrete import TabularCPD
    import numpy as np
    m, names = build_graph(case)
    sn = state_names_for(case, names)
    orng = random.Random(case.get("nameseed", 0) + 4)
    cl = list(case["cpds"])
    orng.shuffle(cl)                                     # insertion order of the CPDs is not an input
    built = []
    buf = None
    for c in cl:
        v, ps = c["v"], c["ps"]
        vals = [[float(Fraction(a, b)) for a, b in row] for row in c["table"]]
        st = {names[v]: list(sn[v])}
        for p in ps:
            st[names[p]] = list(sn[p])
        form = orng.choice(["list", "ndarray", "buffer", "other"])
        wreck = None
        if form == "ndarray":
            vals = np.ascontiguousarray(np.array(vals, dtype="float64"))
        elif form == "buffer":
            vals = np.array(vals, dtype="float64")
            wreck = vals
        elif form == "other":
            tmp = TabularCPD(names[v], case["cards"][v], vals, evidence=[names[p] for p in ps] or None,
                             evidence_card=[case["cards"][p] for p in ps] or None, state_names=st)
            vals = tmp.get_values()
            wreck = tmp
        cpd = TabularCPD(names[v], case["cards"][v], vals, evidence=[names[p] for p in ps] or None,
                         evidence_card=[case["cards"][p] for p in ps] or None, state_names=st)
        if wreck is not None and case.get("backend", "numpy") == "numpy":
            # the caller's buffer / the source CPD is overwritten after construction: the new CPD keeps its values
            if hasattr(wreck, "values"):
                wreck.values[...] = 0.5
            else:
                wreck[...] = 0.5
        built.append(cpd)
    if orng.random() < 0.5:
        m.add_cpds(*built)
    else:
        for cpd in built:
            m.add_cpds(cpd)
    return m, names, sn


def model_bn(case):
    cards = [[v, c] for v, c in enumerate(case["cards"])]
    cp = []
    for c in case["cpds"]:
        flat = [Fraction(a, b) for row in c["table"] for a, b in row]
        cp.append([c["v"], list(c["ps"]), flat])
    return [list(range(case["n"])), [list(e) for e in case["edges"]], list(case["lat"]), cards, cp]


def gargs(case):
    return [list(range(case["n"])), [list(e) for e in case["edges"]]]


def idx_tuples(cards):
    return list(itertools.product(*[range(c) for c in cards]))


def descendants(case, x):
    ch = {}
    for u, v in case["edges"]:
        ch.setdefault(u, []).append(v)
    seen, stack = set(), [x]
    while stack:
        u = stack.pop()
        for w in ch.get(u, []):
            if w not in seen:
                seen.add(w)
                stack.append(w)
    return seen


def connected(case):
    n = case["n"]
    adj = {i: set() for i in range(n)}
    for u, v in case["edges"]:
        adj[u].add(v)
        adj[v].add(u)
    seen, stack = {0}, [0]
    while stack:
        u = stack.pop()
        for w in adj[u]:
            if w not in seen:
                seen.add(w)
                stack.append(w)
    return len(seen) == n


def subsets(xs):
    xs = list(xs)
    for r in range(len(xs) + 1):
        for s in itertools.combinations(xs, r):
            yield list(s)


class Findings:
    """collect known-finding instances without hiding an unlisted disagreement found later in the same case"""

    def __init__(self):
        self.hits = []

    def add(self, kind, detail, key):
        self.hits.append((kind, detail, key))

    def result(self, **kw):
        if self.hits:
            kind, detail, key = self.hits[0]
            detail = dict(detail)
            detail["instances_in_case"] = len(self.hits)
            return bad(kind, detail, finding=key, **kw)
        return None


# ------------------------------------------------------------------ graph stream
ZFORMS = ["list", "tuple", "set", "frozenset", "single", "default"]


def zarg(Zn, k):
    """the candidate set in one of the accepted container forms (rotating)"""
    form = ZFORMS[k % len(ZFORMS)]
    if form == "single" and len(Zn) != 1:
        form = "list"
    if form == "default" and Zn:
        form = "tuple"
    if form == "list":
        return form, list(Zn)
    if form == "tuple":
        return form, tuple(Zn)
    if form == "set":
        return form, set(Zn)
    if form == "frozenset":
        return form, frozenset(Zn)
    if form == "single":
        return form, Zn[0]
    return form, None


def run_graph(case, drv):
    from pgmpy.inference import CausalInference
    m, names = build_graph(case)
    ci = CausalInference(m)
    n = case["n"]
    lat = case["lat"]
    fnd = Findings()
    tags = ["graph n=%d" % n, "latents=%d" % len(lat), "edges=%d" % len(case["edges"])]
    pairs = [(x, y) for x in range(n) for y in range(n) if x != y]
    if case.get("pairs"):
        pairs = random.Random(case["nameseed"]).sample(pairs, case["pairs"])
    b, any_backdoor = graph_checks(case, drv, m, ci, names, pairs, fnd, tags)
    if b:
        return b
    kb = fnd.result(key=common.canon_key(["graph", n, sorted(map(tuple, case["edges"])), lat]), tags=tags)
    if kb:
        return kb
    return ok(nontrivial=len(case["edges"]) > 0 and any_backdoor,
              key=common.canon_key(["graph", n, sorted(map(tuple, case["edges"])), lat]), tags=tags)


def graph_checks(case, drv, m, ci, names, pairs, fnd, tags, multi=True):
    """every coded test / enumeration for the given pairs on the CURRENT graph `case` of the model object m
    -> (bad | None, some pair has an open back-door path)"""
    n = case["n"]
    idx = {nm: i for i, nm in enumerate(names)}
    lat = case["lat"]
    G = gargs(case)
    any_backdoor = False
    zk = case.get("nameseed", 0)
    for x, y in pairs:
        X, Y = fresh(names[x]), fresh(names[y])
        desc = descendants(case, x)
        others = [v for v in range(n) if v not in (x, y)]
        zsets = subsets(others)
        if n > 6:
            zr = random.Random(case.get("nameseed", 0) + 17 * x + y)
            zsets = [[]] + [sorted(zr.sample(others, zr.randint(1, min(4, len(others))))) for _ in range(10)]
        for Z in zsets:
            t = drv.call("c13_tests", G + [x, y, Z])
            m_bd, m_adj, m_fd, crit_bd, crit_fd, has_dp, nodesc = t
            Zn = [fresh(names[z]) for z in Z]
            zk += 1
            f1, a1 = zarg(Zn, zk)
            f2, a2 = zarg(Zn, zk + 2)
            i_bd = ci.is_valid_backdoor_adjustment_set(X, Y) if a1 is None else ci.is_valid_backdoor_adjustment_set(X, Y, a1)
            Xl, Yl, Zl = [X], [Y], list(Zn)
            i_adj = ci.is_valid_adjustment_set(Xl, Yl, Zl)
            i_fd = ci.is_valid_frontdoor_adjustment_set(X, Y) if a2 is None else ci.is_valid_frontdoor_adjustment_set(X, Y, a2)
            if (Xl, Yl, Zl) != ([X], [Y], list(Zn)) or (a1 is not None and f1 != "single" and sorted(a1, key=repr) != sorted(Zn, key=repr)):
                return bad("mutated-argument:validity-tests", {"x": x, "y": y, "Z": Z}), any_backdoor
            d = {"x": x, "y": y, "Z": Z}
            if i_bd != bool(m_bd):
                return bad("impl!=model:is_valid_backdoor_adjustment_set", dict(d, impl=i_bd, model=m_bd)), any_backdoor
            if m_adj == [] or i_adj != bool(m_adj[0]):
                return bad("impl!=model:is_valid_adjustment_set", dict(d, impl=i_adj, model=m_adj)), any_backdoor
            if i_fd != bool(m_fd):
                return bad("impl!=model:is_valid_frontdoor_adjustment_set", dict(d, impl=i_fd, model=m_fd)), any_backdoor
            if not (set(Z) & desc):
                if not nodesc:
                    return bad("model-inconsistent:descendants", d), any_backdoor
                if i_bd != bool(crit_bd):
                    return bad("impl!=spec:backdoor-test-vs-path-criterion", dict(d, impl=i_bd, criterion=crit_bd)), any_backdoor
                if i_adj != bool(crit_bd):
                    return bad("impl!=spec:is_valid_adjustment_set-vs-path-criterion", dict(d, impl=i_adj, criterion=crit_bd)), any_backdoor
                if not crit_bd:
                    any_backdoor = True
            if i_fd != bool(crit_fd and has_dp):
                return bad("impl!=spec:frontdoor-test-vs-path-criterion", dict(d, impl=i_fd, criterion=crit_fd, has_directed_path=has_dp)), any_backdoor
        # enumerations
        order = list(range(n))
        mb, mf = drv.call("c13_enum", G + [lat, x, y, order])
        try:
            r = ci.get_all_backdoor_adjustment_sets(X, Y)
            ib = ("sets", {frozenset(idx[u] for u in s) for s in r})
        except AssertionError:
            ib = ("assert", None)
        except ValueError:
            ib = ("value", None)
        if mb == []:
            mbc = ("assert", None)
        elif mb[0] == []:
            mbc = ("value", None)
        else:
            mbc = ("sets", {frozenset(s) for s in mb[0][0]})
        if ib != mbc:
            return bad("impl!=model:get_all_backdoor_adjustment_sets", {"x": x, "y": y, "impl": str(ib), "model": str(mbc), "lat": lat}), any_backdoor
        tags.append("backdoor-enum=" + ib[0] + ("" if ib[0] != "sets" else (":empty" if not ib[1] else ":nonempty")))
        if ib[0] == "sets":
            sets_ = ib[1] or {frozenset()}   # an empty frozenset result means "the empty set is valid" (as coded)
            for s in sets_:
                t = drv.call("c13_tests", G + [x, y, sorted(s)])
                if not t[3]:
                    return bad("impl!=spec:enumerated-backdoor-set-violates-criterion", {"x": x, "y": y, "set": sorted(s), "lat": lat}), any_backdoor
                if set(s) & set(lat):
                    return bad("impl!=spec:enumerated-backdoor-set-has-latent", {"x": x, "y": y, "set": sorted(s), "lat": lat}), any_backdoor
        try:
            r = ci.get_all_frontdoor_adjustment_sets(X, Y)
            if_ = ("sets", {frozenset(idx[u] for u in s) for s in r})
        except AssertionError:
            if_ = ("assert", None)
        mfc = ("assert", None) if mf == [] else ("sets", {frozenset(s) for s in mf[0]})
        if if_ != mfc:
            return bad("impl!=model:get_all_frontdoor_adjustment_sets", {"x": x, "y": y, "impl": str(if_), "model": str(mfc), "lat": lat}), any_backdoor
        if if_[0] == "sets":
            for s in if_[1]:
                t = drv.call("c13_tests", G + [x, y, sorted(s)])
                if not t[4]:
                    return bad("impl!=spec:enumerated-frontdoor-set-violates-criterion", {"x": x, "y": y, "set": sorted(s)}), any_backdoor
            if if_[1]:
                tags.append("frontdoor-enum:nonempty")
        b = check_minadj(case, drv, ci, names, idx, x, y, fnd, tags)
        if b:
            return b, any_backdoor
    # proper back-door graph with several sources / targets
    rng = random.Random(case["nameseed"] + 5)
    for _ in range(3 if multi else 1):
        if n < 3:
            break
        k = rng.randint(1, n - 1)
        Xs = rng.sample(range(n), k)
        rest = [v for v in range(n) if v not in Xs]
        Ys = rng.sample(rest, rng.randint(1, len(rest)))
        Zs = [v for v in rest if v not in Ys and rng.random() < 0.5]
        pe, va = drv.call("c13_pbd", G + [Xs, Ys, Zs])
        pg = ci.get_proper_backdoor_graph([names[v] for v in Xs], [names[v] for v in Ys])
        ie = sorted((idx[a], idx[b]) for a, b in pg.edges())
        if ie != sorted(map(tuple, pe)) or sorted(idx[v] for v in pg.nodes()) != list(range(n)):
            return bad("impl!=model:get_proper_backdoor_graph", {"X": Xs, "Y": Ys, "impl": ie, "model": sorted(pe)}), any_backdoor
        if sorted(m.edges()) != sorted((names[u], names[v]) for u, v in case["edges"]):
            return bad("mutated-argument:get_proper_backdoor_graph", {"X": Xs, "Y": Ys}), any_backdoor
        # the returned graph is the caller's: wreck it, ask again
        pg.remove_edges_from(list(pg.edges()))
        pg2 = ci.get_proper_backdoor_graph([names[v] for v in Xs], [names[v] for v in Ys])
        if pg2 is pg or sorted((idx[a], idx[b]) for a, b in pg2.edges()) != ie:
            return bad("result-independence:get_proper_backdoor_graph", {"X": Xs, "Y": Ys}), any_backdoor
        if sorted(m.edges()) != sorted((names[u], names[v]) for u, v in case["edges"]):
            return bad("mutated-argument:get_proper_backdoor_graph", {"X": Xs, "Y": Ys, "after": "editing the result"}), any_backdoor
        # inplace=True on a copy of the network: the copy becomes the proper back-door graph
        from pgmpy.inference import CausalInference as _CI
        mc_ = m.copy()
        r_ = _CI(mc_).get_proper_backdoor_graph([names[v] for v in Xs], [names[v] for v in Ys], inplace=True)
        if sorted((idx[a], idx[b]) for a, b in mc_.edges()) != ie or r_ is not mc_:
            return bad("impl!=model:get_proper_backdoor_graph-inplace", {"X": Xs, "Y": Ys}), any_backdoor
        # a LATER unknown node is refused and nothing is removed, in place too
        mc2 = m.copy()
        try:
            _CI(mc2).get_proper_backdoor_graph([names[v] for v in Xs], [names[Ys[0]], "__nope__"], inplace=True)
            return bad("impl!=model:get_proper_backdoor_graph-accepts-unknown-node", {"X": Xs}), any_backdoor
        except ValueError:
            pass
        if sorted(mc2.edges(), key=repr) != sorted(m.edges(), key=repr):
            return bad("rejected-call-changed-state:get_proper_backdoor_graph", {"X": Xs, "Y": Ys}), any_backdoor
        iv = ci.is_valid_adjustment_set([names[v] for v in Xs], [names[v] for v in Ys], [names[v] for v in Zs])
        if iv != bool(va):
            return bad("impl!=model:is_valid_adjustment_set-multi", {"X": Xs, "Y": Ys, "Z": Zs, "impl": iv, "model": va}), any_backdoor
    return None, any_backdoor


def check_minadj(case, drv, ci, names, idx, x, y, fnd, tags):
    """get_minimal_adjustment_set(X, Y): equals the model's result for some set-iteration order; a returned set
    must satisfy the path-based back-door criterion"""
    n = case["n"]
    G = gargs(case)
    lat = case["lat"]
    try:
        r = ci.get_minimal_adjustment_set(names[x], names[y])
        impl = ("none", None) if r is None else ("set", frozenset(idx[u] for u in r))
        if r is not None:
            r.add("__w__")                                  # the returned set is the caller's
            r2 = ci.get_minimal_adjustment_set(names[x], names[y])
            if r2 is r or r2 is None or frozenset(idx.get(u, -1) for u in r2) != impl[1]:
                return bad("result-independence:get_minimal_adjustment_set", {"x": x, "y": y, "second": repr(r2)})
    except ValueError:
        impl = ("value", None)

    def model(order):
        st, mr = drv.call_e("c13_minadj", G + [lat, x, y, list(order)])
        if st == "err":
            return ("value", None)
        return ("none", None) if mr == [] else ("set", frozenset(mr[0]))

    cand = {model(list(range(n)))}
    if impl not in cand:
        if n <= 6:
            perms = itertools.permutations(range(n))
        else:
            pr = random.Random(n * 100 + x * 10 + y)
            perms = (pr.sample(range(n), n) for _ in range(300))
        for perm in perms:
            cand.add(model(perm))
            if impl in cand:
                break
    if impl not in cand and n > 6:
        tags.append("minimal-set: order not found among 300 sampled orders (undecided)")
        return None
    if impl not in cand:
        return bad("impl!=model:get_minimal_adjustment_set", {"x": x, "y": y, "lat": lat, "impl": str(impl),
                                                              "model_any_order": sorted(map(str, cand))})
    tags.append("minimal-set=" + impl[0])
    if impl[0] == "set":
        s = sorted(impl[1])
        t = drv.call("c13_tests", G + [x, y, s])
        if not t[3]:
            d = {"x": x, "y": y, "lat": lat, "edges": case["edges"], "returned": s,
                 "descendants_of_x": sorted(descendants(case, x))}
            if set(s) & descendants(case, x):
                fnd.add("impl!=spec:minimal-adjustment-set-violates-backdoor-criterion", d, "minimal-adjustment-descendant")
                tags.append("minimal-set:descendant-of-X")
            else:
                return bad("impl!=spec:minimal-adjustment-set-violates-backdoor-criterion", d)
    return None


def run_minadj(case, drv):
    from pgmpy.inference import CausalInference
    m, names = build_graph(case)
    ci = CausalInference(m)
    n = case["n"]
    idx = {nm: i for i, nm in enumerate(names)}
    fnd = Findings()
    tags = ["minadj n=%d" % n, "latents=%d" % len(case["lat"])]
    for x in range(n):
        for y in range(n):
            if x != y:
                b = check_minadj(case, drv, ci, names, idx, x, y, fnd, tags)
                if b:
                    return b
    key = common.canon_key(["minadj", n, sorted(map(tuple, case["edges"])), case["lat"], case.get("hashseed")])
    kb = fnd.result(key=key, tags=tags)
    if kb:
        return kb
    return ok(nontrivial=True, key=key, tags=tags)


# ------------------------------------------------------------------ bn stream
def cpd_canon_impl(cpd, names, sn, idx):
    """{(child state index, ((parent id, state index), ...sorted)) -> float}"""
    vs = list(cpd.variables)
    v = idx[vs[0]]
    ps = [idx[u] for u in vs[1:]]
    out = {}
    for tup in itertools.product(*[range(len(cpd.state_names[u])) for u in vs]):
        st = {u: cpd.state_names[u][i] for u, i in zip(vs, tup)}
        val = cpd.values[tup]          # axis k of .values is variable vs[k], index i is state cpd.state_names[vs[k]][i]
        key = (sn[v].index(st[vs[0]]), tuple(sorted((p, sn[p].index(st[names[p]])) for p in ps)))
        out[key] = float(val)
    return v, sorted(ps), out


def cpd_canon_model(c, cards):
    v, ps, tab = c
    out = {}
    scope = [v] + list(ps)
    for k, tup in enumerate(itertools.product(*[range(cards[u]) for u in scope])):
        out[(tup[0], tuple(sorted(zip(ps, tup[1:]))))] = common.frac(tab[k])
    return v, sorted(ps), out


def check_do(case, drv, m, names, sn, idx, Xs, inplace):
    n = case["n"]
    st, r = drv.call_e("c13_do", model_bn(case) + [list(Xs)])
    if st == "err":
        return bad("model-error:do", {"X": Xs})
    me, mc = r
    before_edges = sorted(m.edges(), key=repr)
    target = m.copy() if inplace else m
    res = target.do([names[v] for v in Xs], inplace=inplace)
    d = target if inplace else res
    if not inplace and sorted(m.edges(), key=repr) != before_edges:
        return bad("mutated-argument:do", {"X": Xs})
    ie = sorted((idx[a], idx[b]) for a, b in d.edges())
    if ie != sorted(map(tuple, me)) or sorted(idx[u] for u in d.nodes()) != list(range(n)):
        return bad("impl!=model:do-edges", {"X": Xs, "inplace": inplace, "impl": ie, "model": sorted(me)})
    exp_edges = sorted((u, v) for u, v in map(tuple, case["edges"]) if v not in Xs)
    if ie != exp_edges:
        return bad("impl!=spec:do-edges", {"X": Xs, "impl": ie, "spec": exp_edges})
    mcs = {}
    for c in mc:
        v, ps, tab = cpd_canon_model(c, case["cards"])
        mcs[v] = (ps, tab)
    if len(d.get_cpds()) != n:
        return bad("impl!=model:do-cpd-count", {"X": Xs, "impl": len(d.get_cpds())})
    for cpd in d.get_cpds():
        v, ps, tab = cpd_canon_impl(cpd, names, sn, idx)
        mps, mtab = mcs[v]
        if ps != mps or set(tab) != set(mtab) or any(not common.approx(tab[k], mtab[k]) for k in tab):
            return bad("impl!=model:do-cpd", {"X": Xs, "node": v, "inplace": inplace, "impl_parents": ps,
                                              "model_parents": mps, "impl": sorted(tab.items()),
                                              "model": sorted((k, float(q)) for k, q in mtab.items())})
        if v in Xs and ps != []:
            return bad("impl!=spec:do-cpd-not-parent-free", {"X": Xs, "node": v, "parents": ps})
    if set(d.latents) != {names[v] for v in case["lat"]}:
        return bad("impl!=model:do-latents", {"X": Xs})
    try:
        d.check_model()
    except Exception as e:
        return bad("impl!=spec:do-result-fails-check_model", {"X": Xs, "error": repr(e)[:200]})
    if not inplace:
        # the original CPDs are untouched
        for c in case["cpds"]:
            if len(m.get_cpds(names[c["v"]]).variables) != 1 + len(c["ps"]):
                return bad("mutated-argument:do-cpd", {"X": Xs, "node": c["v"]})
    return None


def relclose(a, b, tol=1e-9):
    """|a-b| <= tol*|b| (purely relative to the model's exact value; exact zeros must be zeros)"""
    a, b = float(a), float(b)
    if a != a:
        return False
    return abs(a - b) <= tol * abs(b) + 1e-300


def tofloat(x):
    return float(x.item()) if hasattr(x, "item") else float(x)


def impl_query(ci, names, sn, Y, dov, adj, algo, probe=0):
    """-> ('ok', {idx tuple over Y: float}) | ('value', msg) | ('attr', msg) | ('purity'|'independence'|'scope', detail)
    probe: 0 plain call; 1 also argument purity, reuse of the same argument objects for a second call, mutation
    of the first result (result independence)"""
    import copy as _c
    do = {fresh(names[v]): fresh(sn[v][i]) for v, i in dov}
    variables = [fresh(names[v]) for v in Y]
    vform = case_form = None
    kw = {}
    if adj is not None:
        # documented forms: a set or a list (a frozenset breaks BeliefPropagation.query(variables=frozenset),
        # which is C02's ground, not exercised here)
        aset = {fresh(names[z]) for z in adj}
        kw["adjustment_set"] = aset if (len(adj) + len(Y) + len(dov)) % 2 == 0 else [fresh(names[z]) for z in adj]
    if (len(Y) + len(dov)) % 2:
        kw["evidence"] = {}
    snap = (_c.deepcopy(variables), _c.deepcopy(do), _c.deepcopy(kw))

    def call():
        if not dov and len(Y) % 2:
            return ci.query(variables, inference_algo=algo, show_progress=False, **kw)       # do=None
        return ci.query(variables, do=do, inference_algo=algo, show_progress=bool(probe), **kw)

    def table(r):
        out = {}
        for tup in itertools.product(*[range(len(sn[v])) for v in Y]):
            want = {names[v]: sn[v][i] for v, i in zip(Y, tup)}
            out[tup] = tofloat(r.values[tuple(list(r.state_names[u]).index(want[u]) for u in r.variables)])
        return out

    try:
        r = call()
    except ValueError as e:
        if (variables, do, kw) != snap:
            return ("purity", "arguments changed by a refused call")
        return ("value", str(e)[:80])
    except AttributeError as e:
        return ("attr", str(e)[:120])
    if (variables, do, kw) != snap:
        return ("purity", {"before": repr(snap)[:300], "after": repr((variables, do, kw))[:300]})
    if sorted(map(repr, r.variables)) != sorted(repr(names[v]) for v in Y):
        return ("scope", sorted(map(repr, r.variables)))
    out = table(r)
    if probe:
        # wreck the first result, call again with the SAME argument objects
        r.values[...] = 7.0
        r.variables.append("__w__")
        r2 = call()
        if r2 is r:
            return ("independence", "the same object is returned twice")
        if sorted(map(repr, r2.variables)) != sorted(repr(names[v]) for v in Y):
            return ("independence", "scope of the second result: %r" % (r2.variables,))
        out2 = table(r2)
        if any(out2[t] != out[t] for t in out):
            return ("independence", {"first": [out[t] for t in sorted(out)], "second": [out2[t] for t in sorted(out2)]})
    return ("ok", out)


def check_query(case, drv, ci, names, sn, Y, dov, adj, algo, fnd, tags, stats, probe=0, spec_off=False):
    MB = model_bn(case)
    st, mr = drv.call_e("c13_query", MB + [list(Y), [list(p) for p in dov], [] if adj is None else [list(adj)]])
    d = {"Y": list(Y), "do": [list(p) for p in dov], "adjustment_set": adj, "algo": algo}
    if st == "err" and mr == 3:
        tags.append("query:zero-probability-conditioning(skipped)")
        return None
    kind, ir = impl_query(ci, names, sn, Y, dov, adj, algo, probe)
    if kind in ("purity", "independence"):
        return bad("mutated-argument:query" if kind == "purity" else "result-independence:query", dict(d, detail=ir))
    if kind == "attr":
        return bad("impl-raises:query", dict(d, error=ir))
    if kind == "value" and algo == "bp" and not connected(case) and not (st == "err"):
        tags.append("query:bp-refuses-disconnected-model")
        return None
    if st == "err":
        if kind != "value":
            return bad("impl!=model:query-accepted-where-model-refuses", dict(d, impl=str(ir)[:200]))
        tags.append("query:refused")
        return None
    if kind != "ok":
        return bad("impl!=model:query-refused-or-wrong-scope", dict(d, impl=[kind, ir]))
    tups = idx_tuples([case["cards"][v] for v in Y])
    model = {t: common.frac(q) for t, q in zip(tups, mr)}
    spec = {t: common.frac(q) for t, q in zip(tups, drv.call("c13_trunc", MB + [list(Y), [list(p) for p in dov]]))}
    if case.get("approx"):
        # not exactly normalised CPDs: pgmpy's VE/BP prune and marginalise CPDs as if they summed to one, the model's
        # posteriors are conditionals of the full product; they agree up to the tables' own slack (<= 0.5% per column)
        if not all(abs(ir[t] - float(model[t])) <= 0.03 for t in tups) or abs(sum(ir.values()) - 1) > 1e-9:
            return bad("impl!=model:query-on-approximately-normalised-tables", dict(d, impl=[ir[t] for t in tups],
                                                                                     model=[float(model[t]) for t in tups]))
        tags.append("query:approx-normalised tables (loose comparison)")
        return None
    same_model = all(relclose(ir[t], model[t]) for t in tups)
    same_spec = all(relclose(ir[t], spec[t]) for t in tups) or spec_off
    d2 = dict(d, impl=[ir[t] for t in tups], model=[float(model[t]) for t in tups], truncated=[float(spec[t]) for t in tups])
    if not same_model:
        return bad("impl!=model:query", d2)
    stats["queries"] += 1
    pa = {u for (u, w) in map(tuple, case["edges"]) if w in [v for v, _ in dov]}
    if (adj is None and pa) or adj:
        stats["adjusted"] += 1
    tags.append("query:%s do=%d %s" % (algo, len(dov), "default" if adj is None else "given-set"))
    if not same_spec:
        if adj is None and len(dov) >= 2:
            # D8a: the default adjustment set of a multi-variable intervention (union of the parents of the do
            # variables) contains do variables / mediators; the model reproduces the coded value
            fnd.add("impl!=spec:multi-do-default-adjustment-not-truncated-factorisation", d2, "multi-do-default-adjustment")
            tags.append("query:multi-do-default!=truncated")
            return None
        return bad("impl!=spec:query-not-truncated-factorisation", d2)
    return None


def run_bn(case, drv):
    from pgmpy.inference import CausalInference
    m, names, sn = build_bn(case)
    n = case["n"]
    idx = {nm: i for i, nm in enumerate(names)}
    lat = case["lat"]
    rng = random.Random(case["qseed"])
    fnd = Findings()
    tags = ["bn n=%d" % n, "latents=%d" % len(lat), "cards=%s" % "".join(map(str, sorted(case["cards"]))),
            "names=" + case.get("style", "str"), "backend=" + case.get("backend", "numpy")]
    if case.get("mag"):
        tags.append("magnitudes: entries down to 2^-50")
    if 1 in case["cards"]:
        tags.append("cardinality-1 variable")
    if not case["edges"]:
        tags.append("edgeless network")
    stats = {"queries": 0, "adjusted": 0}
    # ---- do(): structure and CPDs
    xsets = [s for s in subsets(range(n)) if s] if n <= 4 else [rng.sample(range(n), rng.randint(1, n)) for _ in range(8)]
    for Xs in xsets:
        order = list(Xs)
        rng.shuffle(order)
        b = check_do(case, drv, m, names, sn, idx, order, inplace=(rng.random() < 0.25))
        if b:
            return b
    tags.append("do-sets=%d" % len(xsets))
    # argument forms of do(): a single node, tuple, set, the empty list; the caller's list is not changed
    v0 = rng.randrange(n)
    snap_m = snapshot(m, names, sn, idx)
    for form in ("single", "tuple", "set", "empty", "dup"):
        arg = {"single": names[v0], "tuple": (names[v0],), "set": {names[v0]}, "empty": [], "dup": [names[v0], names[v0]]}[form]
        if form == "single" and not isinstance(arg, (str, int)):
            continue                                      # a bare tuple name is read as a list of nodes (documented: str/int)
        keep = list(arg) if isinstance(arg, list) else None
        d = m.do(arg)
        st_ = state_do(drv, model_bn(case), [] if form == "empty" else [v0])
        dd = cmp_state(d, st_, case, names, sn, idx)
        if dd:
            return bad("impl!=model:do-argument-form", dict(dd, form=form, node=v0))
        if keep is not None and list(arg) != keep:
            return bad("mutated-argument:do-nodes-list", {"form": form})
        if d is m:
            return bad("result-independence:do-returns-self", {"form": form})
    # rejected calls: a LATER unknown node, out of place and in place; the network stays as it was
    for inplace in (False, True):
        try:
            m.do([names[v0], "__nope__"], inplace=inplace)
            return bad("impl!=model:do-accepts-unknown-node", {"inplace": inplace})
        except ValueError:
            pass
        dd = snapshot_diff(snap_m, snapshot(m, names, sn, idx))
        if dd:
            return bad("rejected-call-changed-state:do", dict(dd, inplace=inplace))
    # ---- queries
    ci = CausalInference(m)
    probe = [1]
    if n >= 2:
        # no intervention (do=None / {}): plain inference, the model's dov = []
        yv = rng.randrange(n)
        for algo in ("ve", "bp"):
            b = check_query(case, drv, ci, names, sn, [yv], [], None, algo, fnd, tags, stats)
            if b:
                return b
        try:
            ci.query([names[yv], "__nope__"], do={names[(yv + 1) % n]: sn[(yv + 1) % n][0]}, show_progress=False)
            return bad("impl!=model:query-accepts-unknown-variable", {})
        except ValueError:
            pass
    pa = lambda v: [u for (u, w) in map(tuple, case["edges"]) if w == v]
    dosets = [[x] for x in range(n)] + [list(p) for p in itertools.combinations(range(n), 2)]
    if n >= 4:
        dosets += [sorted(rng.sample(range(n), 3)) for _ in range(2)]
    if len(dosets) > 14:
        keep = [d for d in dosets if len(d) == 1]
        rest = [d for d in dosets if len(d) > 1]
        # parent-child pairs first
        rest.sort(key=lambda d: (0 if any((a, b) in set(map(tuple, case["edges"])) for a in d for b in d) else 1, rng.random()))
        dosets = keep + rest[:9]
    for X in dosets:
        dov = [(x, rng.randrange(case["cards"][x])) for x in X]
        rng.shuffle(dov)
        blocked = set(X)
        for x in X:
            blocked |= set(pa(x))
        adm = [v for v in range(n) if v not in blocked]
        ysets = []
        if adm:
            ysets.append([rng.choice(adm)])
            if len(adm) >= 2:
                ysets.append(rng.sample(adm, 2))
            if len(adm) >= 3 and rng.random() < 0.3:
                ysets.append(list(adm))
        refused = [v for v in blocked]
        if refused and rng.random() < 0.3:
            ysets.append([rng.choice(refused)] + ([rng.choice(adm)] if adm and rng.random() < 0.5 else []))
        for Y in ysets:
            for algo in ("ve", "bp"):
                pr = probe.pop() if (probe and len(X) == 1 and pa(X[0])) else 0
                b = check_query(case, drv, ci, names, sn, Y, dov, None, algo, fnd, tags, stats, probe=pr)
                if b:
                    return b
                if pr:
                    tags.append("query:purity+result-independence probe")
        # every enumerated back-door set (single X, single observed Y)
        if len(X) == 1 and X[0] not in lat:
            x = X[0]
            for y in range(n):
                if y == x or y in lat:
                    continue
                mb = drv.call("c13_enum", gargs(case) + [lat, x, y, list(range(n))])[0]
                if mb == [] or mb[0] == []:
                    tags.append("backdoor-sets:none")
                    continue
                sets_ = [sorted(s) for s in mb[0][0]] or [[]]
                if case.get("style", "str") in ("str", "substr"):
                    try:
                        own = ci.get_all_backdoor_adjustment_sets(names[x], names[y])
                    except ValueError:
                        own = None
                    if own is None or {frozenset(idx[u] for u in s) for s in own} != {frozenset(s) for s in mb[0][0]}:
                        return bad("impl!=model:get_all_backdoor_adjustment_sets", {"x": x, "y": y, "lat": lat})
                for s in sets_:
                    algo = rng.choice(["ve", "bp"])
                    b = check_query(case, drv, ci, names, sn, [y], dov, s, algo, fnd, tags, stats)
                    if b:
                        return b
                    tags.append("query:enumerated-backdoor-set size=%d" % len(s))
    key = common.canon_key(["bn", n, case["edges"], lat, case["cards"], case["cpds"], case["qseed"]])
    kb = fnd.result(key=key, tags=tags)
    if kb:
        return kb
    return ok(nontrivial=len(case["edges"]) > 0 and stats["adjusted"] > 0, key=key, tags=tags)


# ------------------------------------------------------------------ simulate(do=...) on deterministic networks
def run_sim(case, drv):
    m, names, sn = build_bn(case)
    n = case["n"]
    rng = random.Random(case["qseed"])
    tags = ["sim n=%d" % n]
    MB = model_bn(case)
    for _ in range(3):
        X = rng.sample(range(n), rng.randint(1, 2))
        # a do-value that the marginalised CPD gives positive mass (rejection sampling needs it)
        _, mc = drv.call("c13_do", MB + [X])
        dov = []
        for c in mc:
            if c[0] in X:
                # any value, also one of zero natural probability (bd5ba97 clamps the do-value)
                dov.append((c[0], rng.randrange(len(c[2]))))
        Y = [v for v in range(n) if v not in X]
        spec = [common.frac(q) for q in drv.call("c13_trunc", MB + [Y, [list(p) for p in dov]])]
        tups = idx_tuples([case["cards"][v] for v in Y])
        point = [t for t, q in zip(tups, spec) if q == 1]
        if len(point) != 1 or sum(spec) != 1:
            return bad("model-inconsistent:deterministic-truncation-not-a-point-mass", {"X": X})
        dod = {names[v]: sn[v][i] for v, i in dov}
        keep = dict(dod)
        variant = rng.choice(["do", "do+latents", "virtual", "do+virtual"])
        zero_mass = {v for c in mc for (v, i) in dov if c[0] == v and common.frac(c[2][i]) == 0}
        if variant == "do+virtual" and (len(dov) != 2 or dov[1][0] in zero_mass):
            variant = "do"
        if variant == "virtual" and zero_mass:
            variant = "do"        # a soft intervention is sampled by rejection: the value needs positive natural mass
        before = snapshot(m, names, sn, {nm: i for i, nm in enumerate(names)})
        from pgmpy.factors.discrete import TabularCPD

        def pmass(v, i):
            # a degenerate virtual intervention (all mass on the do-value) is the same hard intervention
            return TabularCPD(names[v], case["cards"][v], [[1.0 if k == i else 0.0] for k in range(case["cards"][v])],
                              state_names={names[v]: list(sn[v])})

        if variant == "virtual":
            df = m.simulate(n_samples=4, virtual_intervention=[pmass(v, i) for v, i in dov], show_progress=False,
                            seed=rng.randint(0, 10**6))
        elif variant == "do+virtual":
            # two optional features together: a hard intervention on one node, a virtual one on another
            dod = {names[dov[0][0]]: sn[dov[0][0]][dov[0][1]]}
            keep = dict(dod)
            df = m.simulate(n_samples=4, do=dod, virtual_intervention=[pmass(*dov[1])], show_progress=False,
                            seed=rng.randint(0, 10**6))
        else:
            df = m.simulate(n_samples=4, do=dod, include_latents=(variant == "do+latents"), show_progress=False,
                            seed=rng.randint(0, 10**6))
        if dod != keep:
            return bad("mutated-argument:simulate-do-dict", {"do": dov})
        dd = snapshot_diff(before, snapshot(m, names, sn, {nm: i for i, nm in enumerate(names)}))
        if dd:
            return bad("mutated-original:simulate", dict(dd, variant=variant))
        tags.append("sim variant=" + variant)
        for _, row in df.iterrows():
            for v, i in dov:
                if row[names[v]] != sn[v][i]:
                    return bad("impl!=spec:simulate-do-value-not-clamped", {"do": dov})
            got = tuple(sn[v].index(row[names[v]]) for v in Y)
            if got != point[0]:
                return bad("impl!=spec:simulate-do-not-truncated-factorisation", {"do": dov, "impl": got, "spec": point[0]})
        tags.append("sim do=%d" % len(X))
    return ok(nontrivial=len(case["edges"]) > 0,
              key=common.canon_key(["sim", n, case["edges"], case["cpds"], case["qseed"]]), tags=tags)


# ------------------------------------------------------------------ sessions: do() results edited in place
def snapshot(m, names, sn, idx):
    """observable state of a network: sorted edges, latents, every CPD's scope and values by named assignment"""
    cp = {}
    for cpd in m.get_cpds():
        v, ps, tab = cpd_canon_impl(cpd, names, sn, idx)
        cp.setdefault(v, []).append((ps, tab))
    return {"edges": sorted((idx[a], idx[b]) for a, b in m.edges()), "nodes": sorted(idx[u] for u in m.nodes()),
            "lat": sorted(idx[u] for u in m.latents), "cpds": cp}


def snapshot_diff(a, b):
    for k in ("edges", "nodes", "lat"):
        if a[k] != b[k]:
            return {"what": k, "before": a[k], "after": b[k]}
    if set(a["cpds"]) != set(b["cpds"]):
        return {"what": "cpd-set", "before": sorted(a["cpds"]), "after": sorted(b["cpds"])}
    for v in a["cpds"]:
        if a["cpds"][v] != b["cpds"][v]:
            pa, pb = a["cpds"][v][0], b["cpds"][v][0]
            return {"what": "cpd", "node": v, "parents_before": pa[0], "parents_after": pb[0],
                    "values_before": sorted(pa[1].items())[:8], "values_after": sorted(pb[1].items())[:8]}
    return None


def state_of(case):
    return model_bn(case)


def state_do(drv, state, Xs):
    """the model's do() applied to a tracked state [nodes, edges, lat, cards, cpds]"""
    me, mc = drv.call("c13_do", state + [list(Xs)])
    cp = [[c[0], list(c[1]), [common.frac(q) for q in c[2]]] for c in mc]
    return [state[0], [list(e) for e in me], state[2], state[3], cp]


def cmp_state(d, state, case, names, sn, idx):
    """does the pgmpy network d equal the tracked model state?  -> None | detail"""
    n = case["n"]
    ie = sorted((idx[a], idx[b]) for a, b in d.edges())
    if ie != sorted(map(tuple, state[1])) or sorted(idx[u] for u in d.nodes()) != list(range(n)):
        return {"what": "edges", "impl": ie, "model": sorted(map(tuple, state[1]))}
    mcs = {}
    for c in state[4]:
        v, ps, tab = cpd_canon_model([c[0], c[1], [[q.numerator, q.denominator] for q in c[2]]], case["cards"])
        mcs[v] = (ps, tab)
    if len(d.get_cpds()) != n:
        return {"what": "cpd-count", "impl": len(d.get_cpds())}
    for cpd in d.get_cpds():
        v, ps, tab = cpd_canon_impl(cpd, names, sn, idx)
        mps, mtab = mcs[v]
        if ps != mps or set(tab) != set(mtab) or any(not common.approx(tab[k], mtab[k]) for k in tab):
            return {"what": "cpd", "node": v, "impl_parents": ps, "model_parents": mps,
                    "impl": sorted(tab.items())[:8], "model": sorted((k, float(q)) for k, q in mtab.items())[:8]}
    if sorted(idx[u] for u in d.latents) != sorted(case["lat"]):
        return {"what": "latents"}
    try:
        d.check_model()
    except Exception as e:
        return {"what": "check_model", "error": repr(e)[:200]}
    return None


def run_sess(case, drv):
    """m1 = model.do(S1) (a NEW network), then in-place operations on m1 and on networks derived from it.  After
    every step the network each result was derived from must still equal its snapshot (edges, latents, every CPD
    by named assignment, check_model), the results of the do() chain must equal the model's, and at the end an
    interventional query on the original must still be the model's answer."""
    from pgmpy.inference import CausalInference
    m, names, sn = build_bn(case)
    n = case["n"]
    idx = {nm: i for i, nm in enumerate(names)}
    rng = random.Random(case["qseed"])
    eset = [tuple(e) for e in case["edges"]]
    has_pa = [v for v in range(n) if any(w == v for (_, w) in eset)]
    tags = ["sess n=%d" % n, "names=" + case.get("style", "str")]
    snap0 = snapshot(m, names, sn, idx)
    s0 = state_of(case)
    d0 = cmp_state(m, s0, case, names, sn, idx)
    if d0:
        return bad("harness:built-network!=model-state", d0)

    def orig_ok(step):
        d = snapshot_diff(snap0, snapshot(m, names, sn, idx))
        if d:
            return bad("mutated-original:do-session", dict(d, after_step=step))
        try:
            m.check_model()
        except Exception as e:
            return bad("mutated-original:do-session", {"what": "check_model", "error": repr(e)[:200], "after_step": step})
        return None

    def nm(vs):
        return [names[v] for v in vs]

    # S1 leaves (when possible) a node with parents un-intervened
    pool = list(range(n))
    rng.shuffle(pool)
    keep = rng.choice(has_pa) if has_pa else None
    S1 = [v for v in pool if v != keep][:rng.randint(1, 2)] or [pool[0]]
    # ---- step A: m1 = model.do(S1)
    m1 = m.do(nm(S1))
    s1 = state_do(drv, s0, S1)
    d = cmp_state(m1, s1, case, names, sn, idx)
    if d:
        return bad("impl!=model:session-do", dict(d, step="A do(%s)" % S1))
    b = orig_ok("A: m1 = model.do(%s)" % S1)
    if b:
        return b
    # ---- step B: m1.do(S2, inplace=True) on nodes that still have parents in m1
    pa1 = sorted({w for (_, w) in map(tuple, s1[1])})
    S2 = rng.sample(pa1, min(len(pa1), rng.randint(1, 2))) if pa1 else [rng.randrange(n)]
    r = m1.do(nm(S2), inplace=True)
    s2 = state_do(drv, s1, S2)
    d = cmp_state(m1, s2, case, names, sn, idx)
    if d:
        return bad("impl!=model:session-do", dict(d, step="B do(%s).do(%s, inplace)" % (S1, S2)))
    b = orig_ok("B: m1 = model.do(%s); m1.do(%s, inplace=True)" % (S1, S2))
    if b:
        return b
    tags.append("sess:do-inplace-on-node-with-parents" if pa1 else "sess:do-inplace-on-root")
    # ---- step C: m2 = m1.do(S3) ; m1 is now the source and must stay as it is
    snap1 = snapshot(m1, names, sn, idx)
    S3 = rng.sample(range(n), rng.randint(1, 2))
    m2 = m1.do(nm(S3))
    s3 = state_do(drv, s2, S3)
    d = cmp_state(m2, s3, case, names, sn, idx)
    if d:
        return bad("impl!=model:session-do", dict(d, step="C do.do(inplace).do(%s)" % S3))
    # ---- step D: in-place do on m2 (a node with parents if there is one)
    pa3 = sorted({w for (_, w) in map(tuple, s3[1])})
    S4 = [rng.choice(pa3)] if pa3 else [rng.randrange(n)]
    m2.do(nm(S4), inplace=True)
    s4 = state_do(drv, s3, S4)
    d = cmp_state(m2, s4, case, names, sn, idx)
    if d:
        return bad("impl!=model:session-do", dict(d, step="D ...do(%s, inplace)" % S4))
    d = snapshot_diff(snap1, snapshot(m1, names, sn, idx))
    if d:
        return bad("mutated-original:do-session", dict(d, after_step="D: m2 = m1.do(%s); m2.do(%s, inplace=True) changed m1" % (S3, S4)))
    b = orig_ok("D: chain do -> do(inplace) -> do -> do(inplace)")
    if b:
        return b
    # ---- step E: destructive in-place edits on a fresh do() result
    S5 = [v for v in pool if v != keep][:1] or [pool[0]]
    m3 = m.do(nm(S5))
    s5 = state_do(drv, s0, S5)
    with_pa = [c for c in s5[4] if c[1]]
    ops = ["marginalize", "reduce", "setvalue", "replace", "remove_node", "normalize"]
    rng.shuffle(ops)
    for op in ops:
        desc = op
        if op in ("marginalize", "reduce", "setvalue", "normalize"):
            cands = [c for c in (with_pa or s5[4]) if names[c[0]] in m3.nodes()]
            cands = [c for c in cands if m3.get_cpds(names[c[0]]) is not None]
            if not cands:
                continue
            c = rng.choice(cands)
            cpd = m3.get_cpds(names[c[0]])
            others = list(cpd.variables[1:])
            if op == "marginalize" and others:
                cpd.marginalize([rng.choice(others)], inplace=True)
            elif op == "reduce" and others:
                u = rng.choice(others)
                cpd.reduce([(u, cpd.state_names[u][0])], inplace=True)
            elif op == "setvalue":
                cpd.values[tuple([0] * cpd.values.ndim)] = 0.015625
            elif op == "normalize":
                cpd.values[tuple([0] * cpd.values.ndim)] = 0.5
                cpd.normalize(inplace=True)
            else:
                continue
            desc = "%s on the CPD of node %d" % (op, c[0])
        elif op == "replace":
            v = rng.randrange(n)
            if names[v] not in m3.nodes() or m3.get_cpds(names[v]) is None:
                continue
            new = m3.get_cpds(names[v]).copy()
            new.values[tuple([0] * new.values.ndim)] = 0.25
            new.normalize(inplace=True)
            m3.add_cpds(new)
            desc = "add_cpds replacement for node %d" % v
        elif op == "remove_node":
            ch = [u for (u, w) in map(tuple, s5[1]) if names[u] in m3.nodes() and names[w] in m3.nodes()]
            if not ch:
                continue
            u = rng.choice(ch)
            m3.remove_node(names[u])
            desc = "remove_node(%d) (a node with children)" % u
        b = orig_ok("E: m3 = model.do(%s); in place on m3: %s" % (S5, desc))
        if b:
            return b
        tags.append("sess:" + op)
    # ---- a query on the original still gives the model's answer
    ci = CausalInference(m)
    xs = has_pa or list(range(n))
    x = rng.choice(xs)
    blocked = {x} | {u for (u, w) in eset if w == x}
    adm = [v for v in range(n) if v not in blocked]
    if adm:
        fnd = Findings()
        stats = {"queries": 0, "adjusted": 0}
        b = check_query(case, drv, ci, names, sn, [rng.choice(adm)], [(x, rng.randrange(case["cards"][x]))], None,
                        "ve", fnd, tags, stats)
        if b:
            b["kind"] = "after-session:" + b["kind"]
            return b
    return ok(nontrivial=bool(has_pa), key=common.canon_key(["sess", n, case["edges"], case["lat"], case["cards"],
                                                             case["cpds"], case["qseed"]]), tags=tags)


# ------------------------------------------------------------------ sessions on one model object / one engine
def acyclic_with(edges, n, e):
    es = [tuple(x) for x in edges] + [tuple(e)]
    ch = {}
    for u, v in es:
        ch.setdefault(u, []).append(v)
    seen, stack = set(), [e[1]]
    while stack:
        u = stack.pop()
        if u == e[0]:
            return False
        for w in ch.get(u, []):
            if w not in seen:
                seen.add(w)
                stack.append(w)
    return True


def run_gsess(case, drv):
    """ONE network object: graph tests / enumerations, then an edit through a mutator (remove_edge, add_edge,
    remove_edges_from, add_edges_from, remove_node, add_node(+latent), clear and rebuild), then the same calls again;
    the oracle is the Coq model on the CURRENT graph.  The CausalInference object is kept across edge edits and
    rebuilt after node-set edits (it snapshots the observed variables when constructed)."""
    from pgmpy.inference import CausalInference
    m, names = build_graph(case)
    rng = random.Random(case["qseed"])
    cur = {"n": case["n"], "edges": [list(e) for e in case["edges"]], "lat": list(case["lat"]),
           "names": list(names), "nameseed": case["nameseed"]}
    ci = CausalInference(m)
    fnd = Findings()
    tags = ["gsess n=%d" % case["n"]]
    spare = [nm for nm in NAMEPOOL if nm not in names]

    def checks(step):
        n = cur["n"]
        pairs = [(x, y) for x in range(n) for y in range(n) if x != y]
        rng.shuffle(pairs)
        b, _ = graph_checks(cur, drv, m, ci, cur["names"], pairs[:4], fnd, tags, multi=False)
        if b:
            b["kind"] = "session:" + b["kind"]
            b["detail"] = dict(b["detail"], after_step=step, graph=[cur["n"], cur["edges"], cur["lat"]])
        return b

    b = checks("start")
    if b:
        return b
    ops = ["remove_edge", "add_edge", "remove_edges_from", "add_edges_from", "remove_node", "add_node", "clear"]
    for step in range(rng.randint(3, 5)):
        op = rng.choice(ops)
        nm_ = cur["names"]
        n = cur["n"]
        eset = [tuple(e) for e in cur["edges"]]
        nonedges = [(u, v) for u in range(n) for v in range(n) if u != v and (u, v) not in eset and (v, u) not in eset
                    and acyclic_with(eset, n, (u, v))]
        if op == "remove_edge" and eset:
            u, v = rng.choice(eset)
            m.remove_edge(nm_[u], nm_[v])
            cur["edges"] = [list(e) for e in eset if e != (u, v)]
        elif op == "add_edge" and nonedges:
            u, v = rng.choice(nonedges)
            m.add_edge(nm_[u], nm_[v])
            cur["edges"] = [list(e) for e in eset] + [[u, v]]
        elif op == "remove_edges_from" and len(eset) >= 2:
            rm = rng.sample(eset, 2)
            m.remove_edges_from([(nm_[u], nm_[v]) for u, v in rm])
            cur["edges"] = [list(e) for e in eset if e not in rm]
        elif op == "add_edges_from" and nonedges:
            u, v = rng.choice(nonedges)
            m.add_edges_from([(nm_[u], nm_[v])])
            cur["edges"] = [list(e) for e in eset] + [[u, v]]
        elif op == "remove_node" and n >= 3:
            r = rng.randrange(n)
            m.remove_node(nm_[r])
            ren = {v: (v if v < r else v - 1) for v in range(n) if v != r}
            cur["edges"] = [[ren[u], ren[v]] for u, v in eset if r not in (u, v)]
            cur["lat"] = sorted(ren[v] for v in cur["lat"] if v != r)
            cur["names"] = [x for k, x in enumerate(nm_) if k != r]
            cur["n"] = n - 1
            ci = CausalInference(m)
        elif op == "add_node" and n <= 4 and spare:
            new = spare.pop()
            latent = rng.random() < 0.3
            m.add_node(new, latent=latent)
            par = rng.randrange(n)
            if rng.random() < 0.5:
                m.add_edge(nm_[par], new)
                cur["edges"] = [list(e) for e in eset] + [[par, n]]
            else:
                m.add_edge(new, nm_[par])
                cur["edges"] = [list(e) for e in eset] + [[n, par]]
            cur["names"] = nm_ + [new]
            if latent:
                cur["lat"] = sorted(cur["lat"] + [n])
            cur["n"] = n + 1
            ci = CausalInference(m)
        elif op == "clear":
            m.clear()
            m.latents = set()
            keep = eset[:max(1, len(eset) // 2)] if eset else []
            for v in range(n):
                m.add_node(nm_[v], latent=(v in cur["lat"]))
            m.add_edges_from([(nm_[u], nm_[v]) for u, v in keep])
            cur["edges"] = [list(e) for e in keep]
            ci = CausalInference(m)
        else:
            continue
        tags.append("gsess:" + op)
        if sorted(ci.model.latents, key=repr) != sorted((cur["names"][v] for v in cur["lat"]), key=repr):
            return bad("session:latents-out-of-date", {"after_step": op, "impl": repr(ci.model.latents), "model": cur["lat"]})
        b = checks("%d: %s" % (step, op))
        if b:
            return b
    key = common.canon_key(["gsess", case["n"], case["edges"], case["lat"], case["qseed"]])
    kb = fnd.result(key=key, tags=tags)
    if kb:
        return kb
    return ok(nontrivial=True, key=key, tags=tags)


def rand_table(rng, card, pcards, mag=False):
    ncol = 1
    for c in pcards:
        ncol *= c
    cols = [common.rand_column(rng, card, zeros=False) for _ in range(ncol)]
    return [[[c[i].numerator, c[i].denominator] for c in cols] for i in range(card)]


def run_qsess(case, drv):
    """ONE network + ONE CausalInference object: queries, then an edit of the network (add_cpds replacement,
    remove_edge + replacement CPD, add_edge + replacement CPD, do(inplace=True)), then queries again through the
    SAME engine; the oracle is the Coq model on the CURRENT network."""
    from pgmpy.inference import CausalInference
    from pgmpy.factors.discrete import TabularCPD
    m, names, sn = build_bn(case)
    n = case["n"]
    rng = random.Random(case["qseed"])
    cur = dict(case)
    cur["edges"] = [list(e) for e in case["edges"]]
    cur["cpds"] = [dict(c) for c in case["cpds"]]
    ci = CausalInference(m)
    fnd = Findings()
    tags = ["qsess n=%d" % n, "backend=" + case.get("backend", "numpy")]
    stats = {"queries": 0, "adjusted": 0}

    def mk_cpd(c):
        v, ps = c["v"], c["ps"]
        vals = [[float(Fraction(a, b)) for a, b in row] for row in c["table"]]
        st = {names[v]: list(sn[v])}
        for p_ in ps:
            st[names[p_]] = list(sn[p_])
        return TabularCPD(names[v], cur["cards"][v], vals, evidence=[names[p_] for p_ in ps] or None,
                          evidence_card=[cur["cards"][p_] for p_ in ps] or None, state_names=st)

    def queries(step):
        eset = [tuple(e) for e in cur["edges"]]
        for _ in range(3):
            x = rng.randrange(n)
            blocked = {x} | {u for (u, w) in eset if w == x}
            adm = [v for v in range(n) if v not in blocked]
            if not adm:
                continue
            b = check_query(cur, drv, ci, names, sn, [rng.choice(adm)], [(x, rng.randrange(cur["cards"][x]))], None,
                            rng.choice(["ve", "bp"]), fnd, tags, stats)
            if b:
                b["kind"] = "session:" + b["kind"]
                b["detail"] = dict(b["detail"], after_step=step)
                return b
        return None

    b = queries("start")
    if b:
        return b
    for step in range(rng.randint(3, 4)):
        eset = [tuple(e) for e in cur["edges"]]
        op = rng.choice(["replace_cpd", "remove_edge", "add_edge", "do_inplace"])
        if op == "replace_cpd":
            k = rng.randrange(n)
            c = cur["cpds"][k]
            c["table"] = rand_table(rng, cur["cards"][c["v"]], [cur["cards"][p_] for p_ in c["ps"]])
            m.add_cpds(mk_cpd(c))
        elif op == "remove_edge" and eset:
            u, v = rng.choice(eset)
            m.remove_edge(names[u], names[v])
            cur["edges"] = [list(e) for e in eset if e != (u, v)]
            c = [c for c in cur["cpds"] if c["v"] == v][0]
            c["ps"] = [p_ for p_ in c["ps"] if p_ != u]
            c["table"] = rand_table(rng, cur["cards"][v], [cur["cards"][p_] for p_ in c["ps"]])
            m.add_cpds(mk_cpd(c))
        elif op == "add_edge":
            non = [(u, v) for u in range(n) for v in range(n) if u != v and (u, v) not in eset and (v, u) not in eset
                   and acyclic_with(eset, n, (u, v))]
            if not non:
                continue
            u, v = rng.choice(non)
            m.add_edge(names[u], names[v])
            cur["edges"] = [list(e) for e in eset] + [[u, v]]
            c = [c for c in cur["cpds"] if c["v"] == v][0]
            c["ps"] = c["ps"] + [u]
            c["table"] = rand_table(rng, cur["cards"][v], [cur["cards"][p_] for p_ in c["ps"]])
            m.add_cpds(mk_cpd(c))
        elif op == "do_inplace":
            X = [rng.randrange(n)]
            st_ = state_do(drv, model_bn(cur), X)
            m.do([names[X[0]]], inplace=True)
            cur["edges"] = [list(e) for e in st_[1]]
            newc = []
            for c in st_[4]:
                card = cur["cards"][c[0]]
                ncol = len(c[2]) // card
                newc.append({"v": c[0], "ps": list(c[1]),
                             "table": [[[c[2][i * ncol + j].numerator, c[2][i * ncol + j].denominator] for j in range(ncol)]
                                       for i in range(card)]})
            cur["cpds"] = newc
        else:
            continue
        tags.append("qsess:" + op)
        if ci.model is not m:
            return bad("session:engine-lost-its-model", {"after_step": op})
        try:
            m.check_model()
        except Exception as e:
            return bad("session:edited-network-fails-check_model", {"after_step": op, "error": repr(e)[:200]})
        b = queries("%d: %s" % (step, op))
        if b:
            return b
    key = common.canon_key(["qsess", n, case["edges"], case["cards"], case["cpds"], case["qseed"]])
    kb = fnd.result(key=key, tags=tags)
    if kb:
        return kb
    return ok(nontrivial=stats["adjusted"] > 0, key=key, tags=tags)


# ------------------------------------------------------------------ O: container types of node collections
ONESHOT = ("gen", "iter", "map", "filter")
CONTAINERS = ("list", "tuple", "set", "frozenset", "dictkeys", "ndarray", "index") + ONESHOT


def container(form, items):
    import numpy as np
    import pandas as pd
    items = [fresh(x) for x in items]
    if form == "list":
        return list(items)
    if form == "tuple":
        return tuple(items)
    if form == "set":
        return set(items)
    if form == "frozenset":
        return frozenset(items)
    if form == "dictkeys":
        return dict.fromkeys(items).keys()
    if form == "ndarray":
        return np.array(items)
    if form == "index":
        return pd.Index(items)
    if form == "gen":
        return (x for x in items)
    if form == "iter":
        return iter(items)
    if form == "map":
        return map(lambda x: x, items)
    if form == "filter":
        return filter(lambda x: True, items)
    raise ValueError(form)


def forms_for(names):
    """ndarray / pandas Index keep the names only when they are all str or all int"""
    plain = all(isinstance(x, str) for x in names) or all(isinstance(x, int) and not isinstance(x, bool) for x in names)
    return [f for f in CONTAINERS if plain or f not in ("ndarray", "index")]


def run_forms(case, drv):
    """the node collections of do(), query(variables=), the Z / X / Y arguments of the validity tests and of
    get_proper_backdoor_graph in every container type (list, tuple, set, frozenset, dict view, numpy array, pandas
    Index, generator, iterator, map, filter), with run-time rebuilt (equal, not identical) names; oracle = the model"""
    from pgmpy.inference import CausalInference
    m, names, sn = build_bn(case)
    n = case["n"]
    idx = {nm: i for i, nm in enumerate(names)}
    rng = random.Random(case["qseed"])
    fnd = Findings()
    forms = forms_for(names)
    tags = ["forms n=%d" % n, "names=" + case.get("style", "str")]
    eset = [tuple(e) for e in case["edges"]]
    has_pa = [v for v in range(n) if any(w == v for (_, w) in eset)]
    s0 = model_bn(case)
    snap0 = snapshot(m, names, sn, idx)
    # ---- do(): every container, out of place and in place
    S = rng.sample(has_pa, min(len(has_pa), rng.randint(1, 2))) if has_pa else [rng.randrange(n)]
    s1 = state_do(drv, s0, S)
    for form in forms:
        for inplace in (False, True):
            target = m.copy() if inplace else m
            r = target.do(container(form, [names[v] for v in S]), inplace=inplace)
            d = target if inplace else r
            dd = cmp_state(d, s1, case, names, sn, idx)
            if dd:
                return bad("impl!=model:do-container-form", dict(dd, form=form, inplace=inplace, nodes=S))
        tags.append("do(" + form + ")")
    dd = snapshot_diff(snap0, snapshot(m, names, sn, idx))
    if dd:
        return bad("mutated-original:do-container-form", dd)
    # ---- query(variables=<container>)
    ci = CausalInference(m)
    xs = has_pa or list(range(n))
    x = rng.choice(xs)
    blocked = {x} | {u for (u, w) in eset if w == x}
    adm = [v for v in range(n) if v not in blocked]
    if adm:
        Y = rng.sample(adm, min(len(adm), rng.randint(1, 2)))
        dov = [(x, rng.randrange(case["cards"][x]))]
        st, mr = drv.call_e("c13_query", s0 + [list(Y), [list(p_) for p_ in dov], []])
        if st == "ok":
            tups = idx_tuples([case["cards"][v] for v in Y])
            model = {t: common.frac(q) for t, q in zip(tups, mr)}
            for form in forms:
                det = {"form": form, "Y": Y, "do": dov}
                try:
                    r = ci.query(container(form, [names[v] for v in Y]), do={fresh(names[x]): fresh(sn[x][dov[0][1]])},
                                 show_progress=False)
                    okscope = hasattr(r, "variables") and len(r.variables) == len(Y) and set(r.variables) == {names[v] for v in Y}
                except (ValueError, TypeError, AttributeError) as e:
                    r, okscope = None, False
                    det["error"] = repr(e)[:120]
                good = False
                if okscope:
                    good = True
                    for t in tups:
                        want = {names[v]: sn[v][i] for v, i in zip(Y, t)}
                        val = tofloat(r.values[tuple(list(r.state_names[u]).index(want[u]) for u in r.variables)])
                        good = good and relclose(val, model[t])
                if not good:
                    if form in ONESHOT:
                        tags.append("REPORTED, not flagged: query(variables=<one-shot iterable>) is consumed by the membership check")
                        continue
                    return bad("impl!=model:query-variables-container-form", det)
                tags.append("query(variables=%s)" % form)
    # ---- the validity tests and the proper back-door graph (string names only: pgmpy's set helper)
    if all(isinstance(nm, str) for nm in names) and n >= 3:
        G = gargs(case)
        pairs = [(a, b) for a in range(n) for b in range(n) if a != b]
        rng.shuffle(pairs)
        for (a, b) in pairs[:2]:
            others = [v for v in range(n) if v not in (a, b)]
            Z = rng.sample(others, rng.randint(1, len(others)))
            m_bd, m_adj, m_fd = drv.call("c13_tests", G + [a, b, Z])[:3]
            pe, _ = drv.call("c13_pbd", G + [[a], [b], Z])
            X_, Y_, Zn = names[a], names[b], [names[z] for z in Z]
            for form in forms:
                det = {"form": form, "x": a, "y": b, "Z": Z}
                # Z in every container
                try:
                    i_bd = ci.is_valid_backdoor_adjustment_set(fresh(X_), fresh(Y_), container(form, Zn))
                    i_fd = ci.is_valid_frontdoor_adjustment_set(fresh(X_), fresh(Y_), container(form, Zn))
                except (ValueError, TypeError) as e:
                    return bad("impl-raises:validity-test-container-form", dict(det, error=repr(e)[:120]))
                if i_bd != bool(m_bd) or i_fd != bool(m_fd):
                    if form in ONESHOT:
                        tags.append("REPORTED, not flagged: Z=<one-shot iterable> is consumed by the set helper of the validity tests")
                    else:
                        return bad("impl!=model:validity-test-container-form", dict(det, impl=[i_bd, i_fd], model=[m_bd, m_fd]))
                try:
                    i_adj = ci.is_valid_adjustment_set([fresh(X_)], [fresh(Y_)], container(form, Zn))
                    if i_adj != bool(m_adj[0]):
                        return bad("impl!=model:is_valid_adjustment_set-Z-container-form", dict(det, impl=i_adj, model=m_adj))
                except (ValueError, TypeError) as e:
                    tags.append("REPORTED, not flagged: is_valid_adjustment_set rejects adjustment_set=%s" % form)
                # X and Y in every container (Z a list)
                try:
                    i_adj2 = ci.is_valid_adjustment_set(container(form, [X_]), container(form, [Y_]), list(Zn))
                    pg = ci.get_proper_backdoor_graph(container(form, [X_]), container(form, [Y_]))
                    ie = sorted((idx[u], idx[w]) for u, w in pg.edges())
                except (ValueError, TypeError) as e:
                    return bad("impl-raises:proper-backdoor-graph-container-form", dict(det, error=repr(e)[:120]))
                if i_adj2 != bool(m_adj[0]) or ie != sorted(map(tuple, pe)):
                    if form in ONESHOT:
                        tags.append("REPORTED, not flagged: get_proper_backdoor_graph(X, Y = one-shot iterables) consumes them while validating")
                    else:
                        return bad("impl!=model:proper-backdoor-graph-container-form", dict(det, impl=[i_adj2, ie], model=[m_adj, sorted(pe)]))
            tags.append("tests: %d container forms" % len(forms))
    # ---- R: several do-variables together with an explicit adjustment set (model of the code; no theorem applies)
    if n >= 4 and len(eset) >= 2:
        X2 = rng.sample(range(n), 2)
        dov2 = [(v, rng.randrange(case["cards"][v])) for v in X2]
        rest = [v for v in range(n) if v not in X2]
        Yq = [rng.choice(rest)]
        Zq = [v for v in rest if v not in Yq][:1]
        stats = {"queries": 0, "adjusted": 0}
        b = check_query(case, drv, ci, names, sn, Yq, dov2, Zq, rng.choice(["ve", "bp"]), fnd, tags, stats, spec_off=True)
        if b:
            return b
        tags.append("multi-do x explicit adjustment set")
    key = common.canon_key(["forms", n, case["edges"], case["cards"], case["cpds"], case["qseed"]])
    if fnd.hits:
        # several distinct findings can occur in one case: let the reported one rotate over the cases
        ks = sorted({h[2] for h in fnd.hits})
        pick = ks[case["qseed"] % len(ks)]
        fnd.hits.sort(key=lambda h: h[2] != pick)
    kb = fnd.result(key=key, tags=tags)
    if kb:
        return kb
    return ok(nontrivial=bool(has_pa), key=key, tags=tags)


# ------------------------------------------------------------------ P: mid-sized networks, many states
def run_mid(case, drv):
    from pgmpy.inference import CausalInference
    m, names, sn = build_bn(case)
    n = case["n"]
    idx = {nm: i for i, nm in enumerate(names)}
    rng = random.Random(case["qseed"])
    fnd = Findings()
    tags = ["mid n=%d" % n, "max-card=%d" % max(case["cards"])]
    stats = {"queries": 0, "adjusted": 0}
    eset = [tuple(e) for e in case["edges"]]
    for _ in range(3):
        Xs = rng.sample(range(n), rng.randint(1, min(n, 4)))
        b = check_do(case, drv, m, names, sn, idx, Xs, inplace=(rng.random() < 0.3))
        if b:
            return b
    ci = CausalInference(m)
    has_pa = [v for v in range(n) if any(w == v for (_, w) in eset)]
    for _ in range(3 if n <= 9 else 2):
        x = rng.choice(has_pa)
        blocked = {x} | {u for (u, w) in eset if w == x}
        adm = [v for v in range(n) if v not in blocked]
        if not adm:
            continue
        desc = descendants(case, x)
        adm = [v for v in adm if case["cards"][v] <= 16]      # the model recomputes the normaliser per table entry
        if not adm:
            continue
        ys = [v for v in adm if v in desc] or adm
        Y = [rng.choice(ys)]
        dov = [(x, rng.randrange(case["cards"][x]))]
        for algo in ("ve", "bp"):
            b = check_query(case, drv, ci, names, sn, Y, dov, None, algo, fnd, tags, stats)
            if b:
                return b
    key = common.canon_key(["mid", n, case["edges"], case["cards"], case["qseed"]])
    kb = fnd.result(key=key, tags=tags)
    if kb:
        return kb
    return ok(nontrivial=stats["adjusted"] > 0, key=key, tags=tags)


def run_case(case, drv):
    if case.get("backend") == "torch":
        from pgmpy import config
        config.set_backend("torch")
        try:
            return run_case_(case, drv)
        finally:
            config.set_backend("numpy")
    return run_case_(case, drv)


def run_case_(case, drv):
    k = case["kind"]
    if k == "graph":
        return run_graph(case, drv)
    if k == "minadj":
        return run_minadj(case, drv)
    if k == "bn":
        return run_bn(case, drv)
    if k == "sim":
        return run_sim(case, drv)
    if k == "sess":
        return run_sess(case, drv)
    if k == "gsess":
        return run_gsess(case, drv)
    if k == "forms":
        return run_forms(case, drv)
    if k == "mid":
        return run_mid(case, drv)
    if k == "qsess":
        return run_qsess(case, drv)
    return bad("harness:unknown-kind", {"kind": k})
