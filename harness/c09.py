"""C09 correspondence: real text round trips through pgmpy's BIF / XMLBIF / UAI / NET reader and writer
classes and BayesianNetwork.save/load, compared by NAMED assignment, and the written text compared with
the abstract document of the Coq layout model (coq/C09/Model.v, round trips proved in coq/C09/Props.v)."""
import itertools
import os
import random
import re

from harness import common
from harness.common import ok, bad

PROP = "C09"
LEVEL = "proof"
HASHSEEDS = {"quick": [0, 1, 2, 3], "thorough": list(range(16))}
BUDGET_S = {"quick": 120, "thorough": 1200}
EXHAUSTIVE = {"quick": False, "thorough": False}
RULE = ("random discrete Bayesian networks with 1..6 variables, cardinalities 1..5 (and 10..12 for the UAI string "
        "sort), 0..4 parents per CPD in shuffled declared order with mostly UNEQUAL cardinalities; identifier names for "
        "variables AND states that equal a format keyword (node, table, variable, probability, default, potential, "
        "data, states, net, network, property, type), contain one (xvariable, table1, defaulted, xnode, ...) or are "
        "plain, state names shared between variables; CPD entries from {0, 1, exact dyadics, thirds, 1e-12..1e-3 "
        "magnitudes}; fixed structures for every input class on which an earlier reader/writer version failed "
        "(one-value UAI tables, one variable of cardinality >= 10, *node as non-last NET parent, table/default followed "
        "by number characters, probability headers ending in *variable, isolated Markov nodes, tables > 1000 entries); "
        "every case is written and read through the reader/writer classes (XMLBIF, UAI, NET always, BIF on 40% of the "
        "cases because constructing a BIFReader costs 2 s) and through save/load on a temp file, BIF with n_jobs 1 "
        "or 2; Markov networks (UAI) with random factor scopes and unnormalised potentials from 5e-324 to 1.8e308 "
        "(values >= 1e16, printed as <mantissa>e+NN, as the last number of the file, elsewhere, or absent), compared "
        "exactly; all kinds of cases are mixed in one shuffled order so a budget cut drops no kind as a block.  Compared: nodes, edges, state names as "
        "strings, the value of EVERY named assignment (exact float equality for BIF/XMLBIF/UAI, numpy round(4) for "
        "NET), parent order and flat table against the model's read-back, and the written text (variable order, "
        "parent order, number list) against the model's abstract document.  Generalisation classes: (A) one writer object str() twice + write_*, one reader "
        "object's getters and get_model() twice, save / edit (add_cpds replacement, remove_node, add_node+edge, remove_edge) / "
        "save again to the same path against a freshly built model; (B) the model given to writers and save is unchanged "
        "(nodes, attributes, edges, every CPD; the ORDER of model.cpds is excluded: UAIWriter/XMLBIFWriter sort that list in "
        "place); (C) two get_model() results share no objects and scribbling over the first does not change the next; (D) "
        "pandas: not applicable, no frames in the readwrite API; (E) names equal to / containing keywords and substrings of each "
        "other (x1/x10, table/tablex/table1); non-string names are outside the statement (identifiers); (F) state names: "
        "identifiers, default integers, integers that are not their positions, booleans, shared between variables (compared as "
        "strings); (G) 8..10 parents in one CPD, cardinality 1, single-node, edgeless and empty networks (empty: BIF/XMLBIF/NET; "
        "UAIReader rejects the UAI text of an empty network -- reported), round_values=0 vs None; (H) 5e-324 .. 1 in CPDs "
        "incl. denormals and entries 1e-9..1e-15 apart, 5e-324 .. 1.8e308 in Markov potentials; (I) numpy and torch (float32-"
        "exact values under torch); (J) n_jobs 1 / 2 / -1, include_properties, prettyprint=False, round_values, string= and "
        "path= routes, comments in each format's syntax, save/load for every extension x filetype pair; (K) writers given "
        "another model type, readers given no input, texts with a number (BIF: a row) removed must raise; (L) node / edge / CPD / "
        "evidence / factor orders and hash seeds; (M) all kinds shuffled together; (N) every name and state handed to pgmpy is a freshly built, equal but "
        "not identical str; (O) the readwrite API has no iterable arguments (model, path/string, filetype, n_jobs, "
        "state_name_type=int is exercised) -- not applicable; (P) networks of sizes 8, 9, 16, 17, 24, 25, 32, 33, 34 "
        "(every size 1..34 in the thorough tier) through BIF with n_jobs omitted / 2 / 1 by string, path and load, the "
        "other formats at the same sizes, a variable with 257..1000 states; (Q) columns typed with three decimals whose "
        "sum is not 1 come back verbatim; (R) options are drawn independently and the BIF pairs are listed.  Any exception of a reader or writer on "
        "these valid models is a violation.  Non-trivial: some CPD has a parent; distinct = distinct canonical case")
TRUSTED_BASE = ["pyparsing / xml.etree tokenisation of the text (the harness parses the written text independently "
                "with regular expressions to obtain the abstract document)",
                "numpy array printing (NET) and float repr round trip",
                "TabularCPD / DiscreteFactor storage of values in C order of (child, parents...)"]
ASSUMPTIONS = ["variable names are interned to nat by their rank in python's string order (the writers sort by name); "
               "state names are interned injectively",
               "the model moves table POSITIONS around (it is parametric in the value type); the harness maps positions "
               "back to the floats it gave pgmpy",
               "state names of one variable are distinct (the BIF reader looks rows up by state-name tuple)"]

TMP = "/var/tmp/c09"

# names EQUAL to a keyword of some format, names containing one, and names on which earlier reader versions failed
# (table1/defaulted: 'table'/'default' prefix + number characters; *variable at the end of a probability header;
#  *node as a non-last NET parent) -- all are ordinary identifiers and must round trip
KW_EQUAL = ["node", "table", "variable", "probability", "default", "potential", "data", "states", "net", "network",
            "property", "type", "discrete"]
KW_NAMES = KW_EQUAL + ["variable_a", "xvariable", "my_variable", "my_probability_x", "xprobability", "networkx",
                       "tablex", "a_table", "table1", "tablee", "default_q", "default2", "defaulted", "property_b",
                       "nodex", "xnode", "anode", "xdata", "netx", "xnet", "name", "xpotential", "statesx"]
PLAIN_NAMES = ["A", "B", "C", "D", "E", "F", "rain", "sprinkler", "wet_grass", "x1", "x2", "x10", "y_0", "Zz", "e", "E1",
               "alpha", "beta", "_u", "gamma"]
STATE_POOLS = [["yes", "no"], ["true", "false"], ["low", "mid", "high", "vhigh", "top"],
               ["s0", "s1", "s2", "s3", "s4", "s5", "s6", "s7", "s8", "s9", "s10", "s11", "s12"],
               ["node", "table", "variable", "probability", "default", "potential", "data", "states", "net",
                "network", "property", "type", "discrete"],
               ["table1", "defaulted", "xnode", "xvariable", "my_probability", "tablee", "default2", "nodes",
                "xdata", "netx", "e1", "E", "e"],
               ["a", "b", "c", "d", "e", "E", "f", "g", "h", "i", "j", "k", "l"]]



def worker_init():
    os.makedirs(TMP, exist_ok=True)


# ------------------------------------------------------------------ case generation
def gen_column(rng, k, mode):
    if k == 1:
        return [1.0]
    if mode == "dyadic":
        return [float(x) for x in common.rand_column(rng, k)]
    if mode == "dyadic16":
        # multiples of 1/16: exact in float32 and unchanged by rounding to 4 decimals (torch backend: the tensor
        # constructor rounds to float32, an open finding recorded under C03)
        den = rng.choice([4, 8, 16])
        cuts = sorted(rng.randint(0, den) for _ in range(k - 1))
        return [(b_ - a_) / den for a_, b_ in zip([0] + cuts, cuts + [den])]
    if mode == "onehot":
        i = rng.randrange(k)
        return [1.0 if j == i else 0.0 for j in range(k)]
    if mode == "thirds":
        w = [rng.choice([0, 1, 2, 4, 7]) for _ in range(k)]
        if sum(w) == 0:
            w[0] = 1
        s = sum(w)
        return [x / s for x in w]
    if mode == "unnorm":
        # typed with 2..3 decimals: the column sum is within check_model's 0.01 of 1 but is not 1; nothing may
        # renormalise it on the way through a file
        base = round(1.0 / k, 3)
        col = [base] * k
        j = rng.randrange(k)
        col[j] = round(col[j] + rng.choice([-0.004, 0.003, 0.002, -0.002]), 3)
        return col
    if mode == "near":
        # entries that differ by 1e-9 .. 1e-15 (only full-precision printing keeps them apart)
        dlt = rng.choice([1e-9, 1e-12, 1e-15])
        col = [1.0 / k] * k
        col[0] += dlt
        col[-1] -= dlt
        return col
    # tiny: k-1 small magnitudes (down to denormals), the rest goes to one entry
    small = [rng.choice([1e-12, 3e-11, 1e-9, 2.5e-7, 1e-5, 1e-4, 9.9e-4, 1e-3, 0.0, 5e-324, 1e-300,
                         2.2250738585072014e-308, 1e-100]) for _ in range(k - 1)]
    rest = 1.0 - sum(small)
    col = small + [rest]
    rng.shuffle(col)
    return col


def gen_bn(rng, n, big=False, uai_big_cards=False, forced=None, wide=False, states_kind="ident", modes=None):
    """forced = (names, cards, parents, state pool index or None): a fixed structure with random tables"""
    pool = KW_NAMES + PLAIN_NAMES
    r = rng.random()
    if r < 0.3:
        pool = KW_NAMES
    elif r < 0.45:
        pool = KW_EQUAL
    names = rng.sample(pool, n)
    order = list(range(n))
    rng.shuffle(order)  # hidden topological order
    cards = {}
    for v in names:
        r = rng.random()
        cards[v] = 1 if r < 0.08 else rng.choice([2, 2, 3, 3, 4, 5])
    if uai_big_cards:
        for v in rng.sample(names, min(n, rng.randint(1, 2))):
            cards[v] = rng.choice([10, 11, 12])
    states = {}
    for v in names:
        sp = rng.choice([p for p in STATE_POOLS if len(p) >= cards[v]])
        states[v] = sp[:cards[v]] if rng.random() < 0.5 else rng.sample(sp, cards[v])
    parents = {}
    for pos, i in enumerate(order):
        v = names[i]
        cand = [names[j] for j in order[:pos]]
        k = min(len(cand), rng.choice([0, 1, 1, 2, 2, 3, 4]))
        ps = rng.sample(cand, k)
        # bound the table size
        while ps and cards[v] * _prod(cards[p] for p in ps) > 700:
            ps.pop()
        parents[v] = ps
    if forced:
        names, fc, fp, spi = forced
        names = list(names)
        cards = dict(fc)
        parents = {v: list(fp.get(v, [])) for v in names}
        for v in names:
            if cards[v] > 13:
                states[v] = ["st%d" % i for i in range(cards[v])]
                continue
            sp = STATE_POOLS[spi] if spi is not None else rng.choice([q for q in STATE_POOLS if len(q) >= cards[v]])
            states[v] = rng.sample(sp, cards[v])
    if wide:
        # one CPD with 8..10 parents (>= 9 variables in one table), cardinalities mostly 2, one 3, sometimes a 1
        k = 8 if wide == 8 else rng.choice([8, 9, 10])
        names = ["p%d" % i for i in range(k)] + [rng.choice(["c", "table", "node"])]
        cards = {v: 2 for v in names}
        cards[names[rng.randrange(k)]] = 3
        if rng.random() < 0.5:
            cards[names[rng.randrange(k)]] = 1
        states = {v: ["s%d" % i for i in range(cards[v])] for v in names}
        pl = names[:k]
        rng.shuffle(pl)
        parents = {v: [] for v in names}
        parents[names[-1]] = pl
        parents[names[1]] = [names[0]]
    if big:
        # one CPD with more than 1000 entries
        names = ["a", "b", "c", "d"][:4]
        cards = {"a": rng.choice([10, 12]), "b": rng.choice([9, 10]), "c": rng.choice([6, 10]), "d": rng.choice([2, 3, 8])}
        states = {v: ["s%d" % i for i in range(cards[v])] for v in names}
        pl = ["a", "b", "c"]
        rng.shuffle(pl)
        parents = {"a": [], "b": [], "c": [], "d": pl}
    mode = rng.choice(modes or ["dyadic", "onehot", "thirds", "tiny", "mixed", "near", "unnorm"])
    if states_kind == "big_ident":
        states = {v: ["st%d" % i for i in range(cards[v])] for v in names}
        states_kind = "ident"
    if states_kind == "default_int":      # TabularCPD without state_names: 0..k-1
        states = {v: list(range(cards[v])) for v in names}
    elif states_kind == "int_perm":       # integers that are not their positions
        states = {}
        for v in names:
            st = list(range(cards[v])) if rng.random() < 0.5 else list(range(1, cards[v] + 1))
            rng.shuffle(st)
            if cards[v] > 1 and st == sorted(st):
                st.reverse()
            states[v] = st
    elif states_kind == "bool":
        states = {v: ([True, False] if rng.random() < 0.5 else [False, True]) if cards[v] == 2 else states[v] for v in names}
    values = {}
    for v in names:
        P = _prod(cards[p] for p in parents[v])
        cols = []
        for _ in range(P):
            md = mode if mode != "mixed" else rng.choice(["dyadic", "onehot", "thirds", "tiny", "near", "unnorm"])
            cols.append(gen_column(rng, cards[v], md))
        # values2d[c][j]
        values[v] = [[cols[j][c] for j in range(P)] for c in range(cards[v])]
    # node insertion order, edge insertion order, CPD list order and each CPD's evidence order (= parents[v]) are
    # shuffled INDEPENDENTLY: the graph's parent order (edge insertion) need not be the CPD's evidence order
    node_order = list(names)
    rng.shuffle(node_order)
    edge_order = [[p, v] for v in names for p in parents[v]]
    rng.shuffle(edge_order)
    cpd_order = list(names)
    rng.shuffle(cpd_order)
    return {"names": names, "node_order": node_order, "edge_order": edge_order, "cpd_order": cpd_order,
            "nodes_first": rng.random() < 0.7, "states_kind": states_kind, "states": states, "parents": parents, "values": values, "mode": mode}


def gen_sparse(rng, n):
    """a network of n variables, small cardinalities, at most two parents each (cheap at any size)"""
    pool = KW_NAMES + PLAIN_NAMES + ["n%d" % i for i in range(40)] + ["zz_last", "zzz"]
    names = rng.sample(pool, n)
    cards = {v: rng.choice([2, 2, 2, 3, 1]) for v in names}
    states = {v: ["s%d" % i for i in range(cards[v])] for v in names}
    order = list(names)
    rng.shuffle(order)
    parents = {}
    for i, v in enumerate(order):
        k = min(i, rng.choice([0, 1, 1, 2]))
        parents[v] = rng.sample(order[max(0, i - 6):i], min(k, len(order[max(0, i - 6):i])))
    values = {}
    for v in names:
        P = _prod(cards[p] for p in parents[v])
        cols = [gen_column(rng, cards[v], rng.choice(["dyadic", "thirds", "tiny"])) for _ in range(P)]
        values[v] = [[cols[j][c] for j in range(P)] for c in range(cards[v])]
    node_order = list(names)
    rng.shuffle(node_order)
    edge_order = [[p, v] for v in names for p in parents[v]]
    rng.shuffle(edge_order)
    cpd_order = list(names)
    rng.shuffle(cpd_order)
    return {"names": names, "node_order": node_order, "edge_order": edge_order, "cpd_order": cpd_order,
            "nodes_first": rng.random() < 0.7, "states_kind": "ident", "states": states, "parents": parents,
            "values": values, "mode": "sparse"}


def _prod(it):
    r = 1
    for x in it:
        r *= x
    return r


# unnormalised potentials over the whole float range, in both directions; str(numpy.float64) prints every value
# >= 1e16 as '<mantissa>e+NN' and values < 1e-4 as '<mantissa>e-NN'
MN_SMALL = [0.0, 1.0, 2.5, 0.1, 7.0, 123456.789, 0.5, 9007199254740992.0, 1e15, 0.0001]
MN_TINY = [1e-5, 3e-12, 2.5e-7, 1e-100, 2.2250738585072014e-308, 5e-324, 7.3e-300, 1e-300, 4.9e-101]
MN_HUGE = [1e16, 8.659340042399374e+16, 1.5e22, 1e100, 1e300, 1.7976931348623157e+308, 3.3e+205, 2e+16, 1.2345678901234567e+19]


def gen_mn(rng, isolated=False, large="any"):
    """large: where values >= 1e16 go: 'last' (last entry of the last factor = last number of the file, no other),
    'last+' (last and elsewhere), 'inner' (elsewhere only), 'none', 'any' (random)"""
    n = rng.randint(2, 6)
    names = rng.sample(KW_NAMES + PLAIN_NAMES, n)
    cards = {v: rng.choice([1, 2, 2, 3, 4, 10, 11]) if rng.random() < 0.3 else rng.choice([2, 3, 4]) for v in names}
    factors = []
    nf = rng.randint(1, 5)
    pool = MN_SMALL * 2 + MN_TINY + (MN_HUGE if large in ("any", "last+", "inner") else [])
    for _ in range(nf):
        k = rng.randint(2, min(3, n))
        sc = rng.sample(names, k)
        size = _prod(cards[v] for v in sc)
        vals = [rng.choice(pool) for _ in range(size)]
        factors.append([sc, vals])
    # single-variable factors on variables that are in some larger factor
    covered = sorted({v for sc, _ in factors for v in sc})
    for v in covered:
        if rng.random() < 0.3:
            factors.append([[v], [rng.choice([0.5, 2.0, 1e-7, 3.0] + (MN_HUGE[:3] if large in ("any", "last+", "inner") else []))
                                  for _ in range(cards[v])]])
    names = covered
    if isolated:
        v = "lonely"
        cards[v] = 2
        names = names + [v]
        factors.append([[v], [0.25, 4.0]])
    rng.shuffle(factors)
    # the writer emits the tables in factor order: the last number of the file is the last entry of the last factor
    if large in ("last", "last+"):
        factors[-1][1][-1] = rng.choice(MN_HUGE)
    elif large == "inner":
        if factors[-1][1][-1] >= 1e16:
            factors[-1][1][-1] = rng.choice(MN_SMALL + MN_TINY)
        if not any(x >= 1e16 for _, vals in factors for x in vals):
            factors[0][1][0] = rng.choice(MN_HUGE)
            if len(factors) == 1 and len(factors[0][1]) == 1:
                factors[0][1][0] = 2.5
    return {"names": names, "cards": {v: cards[v] for v in names}, "factors": factors}


REGRESSION_STRUCTURES = [
    # (names, cards, parents, state pool index)
    (["x"], {"x": 1}, {}, None),                                           # UAI: one-value table
    (["x", "y"], {"x": 1, "y": 1}, {"y": ["x"]}, None),                    # UAI: one-value table with a parent
    (["rain"], {"rain": 12}, {}, 3),                                       # UAI: one variable, two-digit cardinality
    (["xnode", "node", "b", "c"], {"xnode": 2, "node": 3, "b": 2, "c": 2},
     {"c": ["xnode", "node", "b"], "b": ["node"]}, 4),                     # NET: *node as non-last parent
    (["table1", "default2", "defaulted", "tablee", "c"],
     {"table1": 2, "default2": 3, "defaulted": 2, "tablee": 2, "c": 2},
     {"c": ["table1", "default2"], "defaulted": ["tablee"]}, 5),          # BIF: table/default + number characters
    (["xvariable", "variable", "my_variable", "probability", "z"],
     {"xvariable": 2, "variable": 3, "my_variable": 2, "probability": 2, "z": 2},
     {"probability": ["z", "xvariable"], "z": ["my_variable", "variable"]}, 4),   # BIF: header ends in *variable
    (["node", "table", "variable", "probability", "default"],
     {"node": 2, "table": 3, "variable": 2, "probability": 4, "default": 2},
     {"table": ["node"], "probability": ["table", "node", "variable"], "default": ["probability", "variable"]}, 4),
    (["potential", "data", "states", "net", "network"],
     {"potential": 3, "data": 2, "states": 4, "net": 2, "network": 3},
     {"data": ["potential"], "net": ["states", "data", "potential"], "network": ["net", "states"]}, 4),
]


SL_EXTS = ["bif", "xmlbif", "uai", "net", "txt", "", "XMLBIF"]
SL_FTS = [None, "bif", "xmlbif", "uai", "net"]
FMT_CODE = {"bif": 0, "uai": 1, "xmlbif": 2, "net": 3}
CODE_FMT = {0: "bif", 1: "uai", 2: "xmlbif"}


def cases(tier, seed):
    rng = random.Random(seed)
    out = []
    # every BIFReader construction costs ~2 s (pyparsing Word over pp.unicode.alphanums), n_jobs=2 ~10 s:
    # BIF is exercised on 40% of the cases, the other three formats on all
    nb = 150 if tier == "quick" else 2400
    for i in range(nb):
        n = rng.choice([1, 2, 3, 3, 4, 4, 5, 6])
        bif = (i % 15 == 0) if tier == "quick" else (i % 5 in (0, 2))
        c = {"kind": "bn", "bn": gen_bn(rng, n, uai_big_cards=(i % 5 == 0)), "njobs": 2 if i % 100 == 12 and tier != "quick" else 1,
             "saveload": i % 3 == 0 and i % 10 != 0, "formats": ["bif", "xmlbif", "uai", "net"] if bif else ["xmlbif", "uai", "net"]}
        out.append(c)
    # variants: one object used several times (sessions), file route, comments, properties, writer options, state-name
    # kinds, torch backend -- each option drawn independently
    def variant(opts, kind, bif, njobs=1, n=None):
        o = {"session": False, "route": "string", "decorate": False, "props": False, "include_properties": False,
             "xml_pretty": None, "round_values": None, "backend": "numpy", "state_name_type": None}
        o.update(opts)
        torch_ = o["backend"] == "torch"
        if torch_ and o["round_values"] == 3:
            o["round_values"] = 4        # torch: values must stay float32-exact after rounding
        forced = None
        if n == "fixed":      # listed variants: a structure on which every option is observable
            nm = rng.sample(KW_NAMES + PLAIN_NAMES, 3)
            forced = (nm, {nm[0]: 2, nm[1]: 3, nm[2]: rng.choice([2, 4])}, {nm[2]: [nm[1], nm[0]], nm[1]: [nm[0]]}, None)
            n = 3
        if n == "fixed-property":   # include_properties with variables and states called property / property_b
            nm = ["property", "property_b", rng.choice(KW_NAMES[2:])]
            forced = (nm, {nm[0]: 2, nm[1]: 3, nm[2]: 4}, {nm[2]: [nm[1], nm[0]], nm[1]: [nm[0]]}, 4)
            n = 3
        return {"kind": "bn", "bn": gen_bn(rng, n or rng.choice([1, 2, 3, 4, 5]), states_kind=kind, forced=forced,
                                           modes=["dyadic16"] if torch_ else (["thirds", "dyadic", "near"] if forced else None)),
                "njobs": njobs, "saveload": rng.random() < 0.15, "opts": o,
                "formats": ["bif", "xmlbif", "uai", "net"] if bif else ["xmlbif", "uai", "net"]}

    # BIF with each BIF-relevant option (a BIFReader costs 2 s, so these are listed, not drawn)
    for rep in range(1 if tier == "quick" else 6):
        for opts, kind, nj in [({"round_values": 0}, "ident", 1), ({"round_values": 3, "session": True}, "ident", 1),
                               ({"props": True, "include_properties": True}, "ident", 1),
                               ({"props": True, "include_properties": True, "session": True}, "ident-property", 1),
                               ({"decorate": True, "route": "path"}, "ident", 1),
                               ({"backend": "torch", "session": True, "round_values": 3}, "ident", 1),
                               ({"session": True, "state_name_type": "int"}, "int_perm", 1),
                               ({"props": True, "include_properties": True, "route": "path", "state_name_type": "int",
                                 "round_values": 3}, "default_int", 1),
                               ({"round_values": 12, "decorate": True}, "bool", 1)]:
            if kind == "ident-property":
                out.append(variant(opts, "ident", True, nj, n="fixed-property"))
                continue
            out.append(variant(opts, kind, True, nj, n="fixed"))
    # every option drawn independently
    for i in range(36 if tier == "quick" else 500):
        opts = {"session": rng.random() < 0.5, "route": rng.choice(["string", "path"]), "decorate": rng.random() < 0.3,
                "props": rng.random() < 0.35, "include_properties": rng.random() < 0.5,
                "xml_pretty": rng.choice([None, None, False]), "round_values": rng.choice([None, None, None, 0, 3, 12]),
                "backend": rng.choice(["numpy", "numpy", "torch"])}
        kind_ = rng.choice(["ident", "default_int", "int_perm", "bool"])
        if kind_ in ("default_int", "int_perm") and rng.random() < 0.5:
            opts["state_name_type"] = "int"
        out.append(variant(opts, kind_,
                           tier != "quick" and rng.random() < 0.3, -1 if i % 60 == 0 else (2 if i % 20 == 1 else 1)))
    # wide CPDs: 8..10 parents (>= 9 variables in one table; long rows / deep nesting in the NET array text)
    for i in range(3 if tier == "quick" else 30):
        out.append({"kind": "bn", "bn": gen_bn(rng, 10, wide=8 if tier == "quick" or i % 3 == 0 else True), "njobs": 1, "saveload": i % 2 == 0,
                    "opts": {"session": i % 2 == 1}, "formats": ["xmlbif", "uai", "net"] + (["bif"] if i % 3 == 0 else [])})
    # sizes: around the batch sizes 8 / 16 / 32 (and 1 mod 8), every size 1..34 in the thorough tier
    if tier == "quick":
        # (n_jobs omitted = the default -1 costs ~25 s per worker process: in the quick tier it is exercised by the
        #  corpus case seed-C09-I-sizes17-default.json only)
        size_cases = [([9, 17, 25, 33, 8, 16, 32, 34], 2, ["bif"], False), ([9, 33, 24], 1, ["bif"], True),
                      ([8, 9, 16, 17], 1, ["xmlbif", "uai", "net"], True), ([32, 33], 1, ["xmlbif", "net"], False)]
    else:
        size_cases = []
        allsz = list(range(1, 35))
        for nj in (2, None, 1):
            for j in range(0, 34, 6):
                size_cases.append((allsz[j:j + 6], nj, ["bif"], True))
        for j in range(0, 34, 9):
            size_cases.append((allsz[j:j + 9], 1, ["xmlbif", "net"] + (["uai"] if j < 18 else []), True))
        size_cases.append(([9, 17, 25, 33, 41, 49], 2, ["bif"], False))
    for sizes, nj, fm, ld in size_cases:
        out.append({"kind": "sizes", "sizes": sizes, "njobs": nj, "formats": fm, "load": ld, "seed": rng.randint(0, 10**6)})
    # a variable with more than 256 states (root and parent of a child)
    for i in range(1 if tier == "quick" else 6):
        big_card = rng.choice([257, 300, 1000][: 2 if tier == "quick" else 3])
        nm = rng.sample(KW_NAMES + PLAIN_NAMES, 2)
        out.append({"kind": "bn", "bn": gen_bn(rng, 2, forced=(nm, {nm[0]: big_card, nm[1]: 2}, {nm[1]: [nm[0]]}, None),
                                               modes=["thirds", "tiny"], states_kind="default_int" if i % 2 else "big_ident"),
                    "njobs": 1, "saveload": False, "opts": {"session": i % 2 == 1},
                    "formats": ["xmlbif", "uai", "net"] + (["bif"] if i % 2 == 0 else [])})
    # the empty network (UAI text of an empty network is not readable by UAIReader: reported, not exercised)
    out.append({"kind": "empty"})
    # edits between two saves to the same path (the second file must be that of a freshly built model)
    for i in range(8 if tier == "quick" else 80):
        out.append({"kind": "edit", "bn": gen_bn(rng, rng.choice([3, 4, 5])), "fmt": ["xmlbif", "uai", "net", "bif"][i % 4],
                    "op": ["replace", "remove_leaf", "add_node", "remove_edge"][(i // 4 + i) % 4], "seed": rng.randint(0, 10**9)})
    # calls that must be rejected
    for what in ["writer-type", "reader-noarg", "truncated"]:
        for fmt in ["bif", "xmlbif", "uai", "net"]:
            if not (what != "writer-type" and fmt == "bif" and tier == "quick" and False):
                out.append({"kind": "reject", "what": what, "fmt": fmt})
    # fixed structures: the input classes on which earlier reader/writer versions failed, and keyword-equal names
    # for variables and states together (every one of them is an ordinary round trip now)
    for rep in range(1 if tier == "quick" else 6):
        for names, fc, fp, spi in REGRESSION_STRUCTURES:
            out.append({"kind": "bn", "fixed": True, "bn": gen_bn(rng, len(names), forced=(names, fc, fp, spi)), "njobs": 1,
                        "saveload": rep % 2 == 1, "formats": ["bif", "xmlbif", "uai", "net"]})
    for i in range(3 if tier == "quick" else 40):
        out.append({"kind": "bn", "bn": gen_bn(rng, 4, big=True), "njobs": 1, "saveload": i % 2 == 1,
                    "opts": {"session": i % 3 == 1},
                    "formats": ["xmlbif", "uai", "net"] + (["bif"] if i % 3 == 0 else [])})
    # save/load dispatch: every (extension, filetype) pair, consistent or contradictory
    for rep in range(1 if tier == "quick" else 5):
        for ext in SL_EXTS:
            for ft in SL_FTS:
                out.append({"kind": "sl", "bn": gen_bn(rng, rng.choice([2, 3, 4])), "ext": ext, "ft": ft})
    for i in range(70 if tier == "quick" else 900):
        out.append({"kind": "mn", "mn": gen_mn(rng, isolated=(i % 10 == 9),
                                               large=["last", "inner", "last+", "any", "none", "last", "inner"][i % 7])})
    # when the wall budget runs out the remaining cases are skipped: keep the fixed structures first and mix all
    # the other kinds (cheap Markov / dispatch cases, 2-second BIF cases) so that no kind is dropped as a block
    head = [c for c in out if c.get("fixed")]
    rest = [c for c in out if not c.get("fixed")]
    rng.shuffle(rest)
    return head + rest


def shrink(case):
    if case["kind"] not in ("bn", "sl"):
        return
    b = case["bn"]
    children = {p for v in b["names"] for p in b["parents"][v]}
    for v in b["names"]:
        if v not in children and len(b["names"]) > 1:
            nb = {"names": [x for x in b["names"] if x != v], "node_order": [x for x in b["node_order"] if x != v],
                  "edge_order": [e for e in (b.get("edge_order") or []) if v not in e] or None,
                  "cpd_order": [x for x in (b.get("cpd_order") or b["names"]) if x != v],
                  "nodes_first": b.get("nodes_first", True), "states_kind": b.get("states_kind", "ident"),
                  "states": {x: s for x, s in b["states"].items() if x != v},
                  "parents": {x: s for x, s in b["parents"].items() if x != v},
                  "values": {x: s for x, s in b["values"].items() if x != v}, "mode": b["mode"]}
            c = dict(case)
            c["bn"] = nb
            yield c


# ------------------------------------------------------------------ pgmpy side
def build_bn(b):
    import numpy as np
    from pgmpy.models import BayesianNetwork
    from pgmpy.factors.discrete import TabularCPD
    def fr(x):
        """an equal but not identical object for every use of a name (a fresh str each time)"""
        return "".join(list(x)) if isinstance(x, str) and len(x) > 1 else x

    m = BayesianNetwork()
    if b.get("nodes_first", True):
        m.add_nodes_from([fr(v) for v in b["node_order"]])
    for p, v in b.get("edge_order") or [[p, v] for v in b["names"] for p in b["parents"][v]]:
        m.add_edge(fr(p), fr(v))
    m.add_nodes_from([fr(v) for v in b["node_order"]])  # isolated nodes when the edges came first
    for v in b.get("cpd_order") or b["names"]:
        ps = [fr(p) for p in b["parents"][v]]
        card = len(b["states"][v])
        arr = np.array(b["values"][v], dtype=float).reshape(card, -1)
        sn = {} if b.get("states_kind") == "default_int" else {fr(x): [fr(st) for st in b["states"][x]] for x in [v] + ps}
        v = fr(v)
        m.add_cpds(TabularCPD(v, card, arr, evidence=ps or None,
                              evidence_card=[len(b["states"][p]) for p in ps] or None, state_names=sn))
    return m


def named(m, var_map=None, state_map=None):
    """{(child, ((var, state), ...) sorted by var): value} over every CPD and every assignment"""
    out = {}
    for cpd in m.get_cpds():
        vs = list(cpd.variables)
        card = [int(x) for x in cpd.cardinality]
        vals = cpd.values
        for idx in itertools.product(*[range(c) for c in card]):
            items = []
            for v, i in zip(vs, idx):
                vn = var_map[v] if var_map else v
                st = cpd.state_names[v][i]
                sn = state_map[vn][st] if state_map else str(st)
                items.append((vn, sn))
            key = (items[0][0], tuple(sorted(items)))
            out[key] = float(vals[idx])
    return out


def model_request(b, m, var_id, state_id):
    req = []
    flats = {}
    for cpd in m.get_cpds():
        v = cpd.variable
        ps = list(cpd.variables[1:])
        flat = [float(x) for x in cpd.values.ravel()]
        flats[v] = flat
        req.append([var_id[v], [state_id[s] for s in b["states"][v]],
                    [[var_id[p], [state_id[str(s)] for s in cpd.state_names[p]]] for p in ps],
                    list(range(len(flat)))])
    return req, flats


# ------------------------------------------------------------------ minimal text parsers (independent of pgmpy)
def parse_bif(text):
    vars_ = [(mm.group(1), mm.group(3).split(", ")) for mm in
             re.finditer(r"^variable (\S+) \{\n    type discrete \[ (\d+) \] \{ (.*) \};", text, re.M)]
    probs = []
    for mm in re.finditer(r"^probability \( (.*?) \) \{\n(.*?)\n\}\n", text, re.M | re.S):
        head, body = mm.group(1), mm.group(2)
        if " | " in head:
            ch, ps = head.split(" | ")
            ps = ps.split(", ")
        else:
            ch, ps = head, []
        lines = [ln for ln in body.split("\n") if ln.strip()]
        if len(lines) == 1 and lines[0].startswith("    table "):
            probs.append((ch, ps, 0, [float(x) for x in lines[0][len("    table "):].rstrip(" ;").split(", ")]))
        else:
            rows = []
            for ln in lines:
                r = re.match(r"^    \( (.*) \) (.*);$", ln)
                rows.append((r.group(1).split(", "), [float(x) for x in r.group(2).split(", ")]))
            probs.append((ch, ps, 1, rows))
    return vars_, probs


def parse_xmlbif(text):
    import xml.etree.ElementTree as etree
    net = etree.fromstring(text.encode("utf-8")).find("NETWORK")
    vars_ = [(v.find("NAME").text, [o.text for o in v.findall("OUTCOME")]) for v in net.findall("VARIABLE")]
    defs = [(dd.find("FOR").text, [g.text for g in dd.findall("GIVEN")], [float(x) for x in dd.find("TABLE").text.split()])
            for dd in net.findall("DEFINITION")]
    return vars_, defs


def parse_net(text):
    vars_ = [(mm.group(1), [s.strip('"') for s in mm.group(2).split()]) for mm in
             re.finditer(r"^node (\S+)\{\n    states = \((.*?)\);", text, re.M)]
    pots = []
    for mm in re.finditer(r"^potential \((.*?)\)\{\n data = (.*?);\n\}\n", text, re.M | re.S):
        head, data = mm.group(1), mm.group(2)
        ch, _, ps = head.partition(" |")
        toks = data.replace("(", " ").replace(")", " ").split()
        pots.append((ch.strip(), ps.split(), toks))
    return vars_, pots


def parse_uai(text):
    toks = text.split()
    kind = toks[0]
    n = int(toks[1])
    dom = [int(x) for x in toks[2:2 + n]]
    pos = 2 + n
    nf = int(toks[pos])
    pos += 1
    scopes = []
    for _ in range(nf):
        k = int(toks[pos])
        scopes.append([int(x) for x in toks[pos + 1:pos + 1 + k]])
        pos += 1 + k
    tables = []
    for _ in range(nf):
        k = int(toks[pos])
        tables.append([float(x) for x in toks[pos + 1:pos + 1 + k]])
        pos += 1 + k
    return kind, dom, scopes, tables, pos == len(toks)


# ------------------------------------------------------------------ comparison helpers
def rnd4(x):
    import numpy as np
    return float(np.round(x, 4))


def same_val(fmt, got, orig):
    if fmt == "net":
        return abs(got - rnd4(orig)) <= 1e-9 and abs(got - orig) <= 0.5e-4 + 1e-9
    return got == orig


def check_doc(fmt, text, doc, b, id_var, id_state, flats):
    """written text (parsed independently) == the model's abstract document"""
    def names_states(vs):
        return [(id_var[v], [id_state[s] for s in ss]) for v, ss in vs]

    def vals(child, poss):
        return [flats[child][p] for p in poss]

    if fmt == "bif":
        tv, tp = parse_bif(text)
        mv, mp = doc
        if tv != names_states(mv):
            return {"what": "variable blocks", "text": tv, "model": names_states(mv)}
        if len(tp) != len(mp):
            return {"what": "number of probability blocks", "text": len(tp), "model": len(mp)}
        for (ch, ps, kind, body), (mch, mps, mkind, mbody) in zip(tp, mp):
            c = id_var[mch]
            if ch != c or ps != [id_var[p] for p in mps] or kind != mkind:
                return {"what": "probability header", "text": [ch, ps, kind], "model": [c, [id_var[p] for p in mps], mkind]}
            if kind == 0:
                if body != vals(c, mbody):
                    return {"what": "table line", "child": c, "text": body, "model": vals(c, mbody)}
            else:
                mrows = [([id_state[s] for s in r[0]], vals(c, r[1])) for r in mbody]
                if [(r[0], r[1]) for r in body] != mrows:
                    return {"what": "rows", "child": c, "text": body[:4], "model": mrows[:4]}
        return None
    if fmt in ("xmlbif", "net"):
        tv, td = parse_xmlbif(text) if fmt == "xmlbif" else parse_net(text)
        mv, md = doc
        if tv != names_states(mv):
            return {"what": "variable blocks", "text": tv, "model": names_states(mv)}
        if len(td) != len(md):
            return {"what": "number of definitions", "text": len(td), "model": len(md)}
        for (ch, ps, tvals), (mch, mps, mposs) in zip(td, md):
            c = id_var[mch]
            if ch != c or ps != [id_var[p] for p in mps]:
                return {"what": "definition header", "text": [ch, ps], "model": [c, [id_var[p] for p in mps]]}
            mvals = vals(c, mposs)
            if fmt == "net":
                tvals = [float(x) for x in tvals]
                if len(tvals) != len(mvals) or not all(same_val("net", a, o) for a, o in zip(tvals, mvals)):
                    return {"what": "data", "child": c, "text": tvals[:12], "model": [rnd4(x) for x in mvals[:12]]}
            elif tvals != mvals:
                return {"what": "TABLE", "child": c, "text": tvals[:12], "model": mvals[:12]}
        return None
    raise ValueError(fmt)


def check_readback(fmt, m2, rb, id_var, id_state, flats, uai_names=None):
    """pgmpy's read model == the model's read-back: parent ORDER and flat table, CPD by CPD"""
    if rb == []:
        return {"what": "model reader rejects its own writer's document"}
    rb = rb[0]
    if len(rb) != len(m2.get_cpds()):
        return {"what": "number of cpds", "impl": len(m2.get_cpds()), "model": len(rb)}
    for ch, cs, ps, tab in rb:
        if uai_names is None:
            c = id_var[ch]
            name2 = c
            pnames2 = [id_var[p] for p, _ in ps]
        else:
            c = uai_names[ch]
            name2 = "var_%d" % ch
            pnames2 = ["var_%d" % p for p, _ in ps]
        cpd = m2.get_cpds(name2)
        if cpd is None:
            return {"what": "missing cpd", "child": name2}
        if list(cpd.variables[1:]) != pnames2:
            return {"what": "parent order", "child": name2, "impl": list(cpd.variables[1:]), "model": pnames2}
        if uai_names is None:
            st_i = [[str(s) for s in cpd.state_names[v]] for v in cpd.variables]
            st_m = [[id_state[s] for s in cs]] + [[id_state[s] for s in ss] for _, ss in ps]
        else:
            st_i = [list(cpd.state_names[v]) for v in cpd.variables]
            st_m = [list(cs)] + [list(ss) for _, ss in ps]
        if st_i != st_m:
            return {"what": "state names", "child": name2, "impl": st_i, "model": st_m}
        got = [float(x) for x in cpd.values.ravel()]
        exp = [flats[c][p] for p in tab]
        if len(got) != len(exp) or not all(same_val(fmt, g, e) for g, e in zip(got, exp)):
            return {"what": "flat table", "child": name2, "impl": got[:12], "model": exp[:12]}
    return None


def compare_named(fmt, ref, got):
    if set(ref) != set(got):
        d1 = sorted(set(ref) - set(got), key=str)[:2]
        d2 = sorted(set(got) - set(ref), key=str)[:2]
        return {"what": "assignment keys", "missing": d1, "extra": d2}
    for k in ref:
        if not same_val(fmt, got[k], ref[k]):
            return {"what": "value", "assignment": k, "written": ref[k], "read": got[k]}
    return None


# ------------------------------------------------------------------ run: Bayesian networks
def run_bn(case, drv):
    opts = case.get("opts") or {}
    if opts.get("backend") == "torch":
        from pgmpy import config
        config.set_backend("torch")
        try:
            return run_bn_inner(case, drv, opts)
        finally:
            config.set_backend("numpy")
    return run_bn_inner(case, drv, opts)


def snapshot(m):
    """everything a writer could change in the model it is given, except the order of the CPD list"""
    import numpy as np
    cp = sorted(((repr(c.variable), [repr(v) for v in c.variables], [int(x) for x in c.cardinality],
                  np.asarray(c.values, dtype=float).tobytes().hex(), repr(sorted((repr(k), repr(v)) for k, v in c.state_names.items())))
                 for c in m.get_cpds()), key=lambda t: t[0])
    return [repr(list(m.nodes(data=True))), repr(list(m.edges())), cp, repr(getattr(m, "name", None)),
            repr(sorted(getattr(m, "latents", set()), key=repr))]


def decorate(fmt, text):
    """the same file with comments added in the format's own comment syntax (the comments mention keywords)"""
    if fmt in ("bif", "net"):
        out = []
        for ln in text.split("\n"):
            if ln.startswith(("variable ", "probability ", "node ", "potential ")):
                out.append("// variable fake { probability ( fake ) table 0.5 ; node fake{ potential (fake |){ data = (1.0);")
                out.append("/* block comment")
                out.append("   network x { } */")
            out.append(ln)
        return "\n".join(out)
    if fmt == "uai":
        lines = text.split("\n")
        return "\n".join([lines[0]] + ["# 7 7 7 a comment line 1e+16"] + [ln + (" # c 3 3" if ln.strip() else "") for ln in lines[1:]])
    if fmt == "xmlbif":
        return text.replace("<NETWORK>", "<NETWORK><!-- a comment <VARIABLE> -->", 1).replace(
            "<DEFINITION>", "<!-- DEFINITION 0.5 0.5 --><DEFINITION>")
    return text


GETTERS = ["get_variables", "get_states", "get_parents", "get_edges", "get_values", "get_tables", "get_domain",
           "get_network_name", "get_property"]


def run_bn_inner(case, drv, opts):
    import numpy as np
    from pgmpy.models import BayesianNetwork
    from pgmpy.readwrite import (BIFReader, BIFWriter, XMLBIFReader, XMLBIFWriter, UAIReader, UAIWriter,
                                 NETReader, NETWriter)
    b = case["bn"]
    names = b["names"]
    m = build_bn(b)
    if opts.get("props"):
        for i, v in enumerate(b["node_order"]):
            m.nodes[v]["position"] = "(%d, %d)" % (10 * i, 7 * i + 1)
            if i % 2 == 0:
                m.nodes[v]["label"] = ["probability", "variable", "table", "node", "x"][i % 5]
    if m.check_model() is not True:
        return bad("harness:invalid-model", {})
    b = dict(b, states={v: [str(x) for x in b["states"][v]] for v in names})   # state names as the strings written
    rv = opts.get("round_values")
    route = opts.get("route", "string")
    snap0 = snapshot(m) if opts.get("session") else None
    svars = sorted(names)
    var_id = {v: i for i, v in enumerate(svars)}
    id_var = {i: v for v, i in var_id.items()}
    all_states = sorted({s for v in names for s in b["states"][v]})
    state_id = {s: i for i, s in enumerate(all_states)}
    id_state = {i: s for s, i in state_id.items()}
    req, flats0 = model_request(b, m, var_id, state_id)
    ref0 = named(m)
    ref_edges = sorted(m.edges())
    sizes = [len(b["values"][v]) * len(b["values"][v][0]) for v in names]
    maxpar = max(len(b["parents"][v]) for v in names)
    unequal = any(len({len(b["states"][p]) for p in b["parents"][v]}) > 1 for v in names)
    tags = ["bn vars=%d" % len(names), "max parents=%d" % maxpar, "values=" + b["mode"],
            "unequal parent cards" if unequal else "equal/no parent cards",
            "table>1000" if max(sizes) > 1000 else "table<=1000"]
    if "bif" in case.get("formats", ["bif"]):
        tags.append("bif n_jobs=%s" % ("default" if case["njobs"] is None else case["njobs"]))
    if any(len(b["states"][v]) >= 10 for v in names):
        tags.append("card>=10")
    if any(len(b["states"][v]) == 1 for v in names):
        tags.append("card=1")
    if any(v in KW_NAMES for v in names):
        tags.append("variable name contains keyword")
    if any(v in KW_EQUAL for v in names):
        tags.append("variable name == keyword")
    if any(st in KW_EQUAL for v in names for st in b["states"][v]):
        tags.append("state name == keyword")
    if any(sz == 1 for sz in sizes):
        tags.append("one-value table")
    if len(names) == 1 and len(b["states"][names[0]]) >= 10:
        tags.append("one variable, card>=10")
    if any(p.endswith("node") for v in names for p in b["parents"][v][:-1]):
        tags.append("*node as non-last parent")
    if any(re.search(r"(table|default)[0-9eE]", v) for v in names):
        tags.append("name table/default+[0-9eE]")
    if any((b["parents"][v][-1] if b["parents"][v] else v).endswith("variable") for v in names):
        tags.append("probability header ends in *variable")
    if any(len(b["parents"][v]) >= 2 and list(m.get_parents(v)) != list(b["parents"][v]) for v in names):
        tags.append("graph parent order != CPD evidence order")
    if [c.variable for c in m.get_cpds()] != list(m.nodes()):
        tags.append("CPD list order != node order")
    if list(m.nodes()) != sorted(m.nodes()):
        tags.append("node order != sorted")
    for k_, v_ in sorted(opts.items()):
        if v_ is not None and v_ is not False and v_ not in ("string", "numpy") or k_ == "xml_pretty" and v_ is False:
            tags.append("opt %s=%s" % (k_, v_))
    if b.get("states_kind", "ident") != "ident":
        tags.append("state names " + b["states_kind"])
    if maxpar >= 8:
        tags.append("wide CPD (>= 8 parents)")
    key = common.canon_key(["bn", b["names"], b["node_order"], b.get("edge_order"), b.get("cpd_order"),
                            b.get("nodes_first"), b["states"], b["parents"], b["values"],
                            case["njobs"], case["saveload"], case.get("formats"), sorted(opts.items())])
    fmts = [("bif", BIFWriter, BIFReader), ("xmlbif", XMLBIFWriter, XMLBIFReader),
            ("uai", UAIWriter, UAIReader), ("net", NETWriter, NETReader)]
    for fmt, W, R in fmts:
        if fmt not in case.get("formats", ["bif", "xmlbif", "uai", "net"]):
            continue
        tags.append("format=" + fmt)
        text = None
        # writer options: rounding (BIF, UAI), XML indentation
        wkw = {}
        if rv is not None and fmt in ("bif", "uai"):
            wkw["round_values"] = rv
            flats = {v: [float(np.round(x, rv)) for x in fl] for v, fl in flats0.items()}
            ref = {k_: float(np.round(x, rv)) for k_, x in ref0.items()}
        else:
            flats, ref = flats0, ref0
        if fmt == "xmlbif" and opts.get("xml_pretty") is False:
            wkw["prettyprint"] = False
        rkw = {"n_jobs": case["njobs"]} if fmt == "bif" and case["njobs"] is not None else {}
        gkw = {}
        if opts.get("state_name_type") == "int" and fmt != "uai":
            gkw["state_name_type"] = int
        if opts.get("props") and opts.get("include_properties") and fmt in ("bif", "net"):
            rkw["include_properties"] = True
        path = os.path.join(TMP, "r_%d_%s_%s" % (os.getpid(), key, fmt))
        try:
            w = W(m, **wkw)
            text = str(w)
            if opts.get("session"):
                # the same writer object again: str() twice, then the file written by the same object
                if str(w) != text:
                    return bad("session:%s-writer-str-twice-differs" % fmt, {}, key=key, tags=tags)
                getattr(w, "write_" + fmt)(path)
                with open(path) as fh:
                    if fh.read() != text:
                        return bad("session:%s-write-after-str-differs" % fmt, {}, key=key, tags=tags)
                if str(W(m, **wkw)) != text:
                    return bad("session:%s-second-writer-differs" % fmt, {}, key=key, tags=tags)
            rtext = decorate(fmt, text) if opts.get("decorate") else text
            if route == "path":
                with open(path, "w") as fh:
                    fh.write(rtext)
                r = R(path=path, **rkw)
            else:
                r = R(string=rtext, **rkw)
            if opts.get("session"):
                for g_ in GETTERS:      # the public getters again, before the model is built
                    if hasattr(r, g_) and not (g_ == "get_property" and fmt == "net" and "include_properties" not in rkw):
                        getattr(r, g_)()
            m2 = r.get_model(**gkw) if gkw else r.get_model()
            if gkw and not all(isinstance(st, int) and not isinstance(st, bool)
                               for c_ in m2.get_cpds() for st in c_.state_names[c_.variable]):
                return bad("impl!=spec:%s-state_name_type-int-ignored" % fmt, {}, key=key, tags=tags)
            if opts.get("session"):
                # the same reader object again; results are independent objects
                m2b = r.get_model(**gkw)
                if m2b is m2 or any(c1 is c2 for c1 in m2.get_cpds() for c2 in m2b.get_cpds()):
                    return bad("session:%s-get_model-twice-shares-objects" % fmt, {}, key=key, tags=tags)
                for c_ in m2.get_cpds():
                    c_.values[...] = 0.125      # scribble over the first result
                m2c = r.get_model(**gkw)
                if named(m2c) != named(m2b):
                    return bad("session:%s-get_model-result-aliases-reader-state" % fmt, {}, key=key, tags=tags)
                m2 = m2c
        except Exception as e:  # a writer or reader that cannot handle a valid model violates the property
            return bad("roundtrip-raises:%s:%s" % (fmt, type(e).__name__), {"error": str(e)[:300], "names": names,
                       "parents": b["parents"], "cards": {v: len(b["states"][v]) for v in names}, "opts": opts},
                       key=key, tags=tags)
        finally:
            if os.path.exists(path):
                os.remove(path)
        entry = "c09_" + fmt
        reply = drv.call(entry, req)
        doc, rb = reply[0], reply[1]
        # ---- written text vs abstract document of the model
        if fmt == "uai":
            kind, dom, scopes, tables, complete = parse_uai(text)
            mdom, mscopes, mtabs = doc
            num = {id_var[v]: i for v, i in reply[2]}
            order = [cpd.variable for cpd in sorted(m.get_cpds(), key=lambda c: c.variable)]
            mtables = [[flats[c][p] for p in t] for c, t in zip(order, mtabs)]
            if kind != "BAYES" or not complete or dom != mdom or scopes != mscopes or tables != mtables:
                return bad("impl!=model:uai-document", {"text": [kind, dom, scopes], "model": [mdom, mscopes],
                                                         "tables_equal": tables == mtables}, key=key, tags=tags)
            uai_names = {i: v for v, i in num.items()}
            if sorted(uai_names) != list(range(len(names))):
                return bad("model:numbering-not-bijective", {"num": num}, key=key, tags=tags)
        else:
            dd = check_doc(fmt, text, doc, b, id_var, id_state, flats)
            if dd:
                return bad("impl!=model:%s-document" % fmt, dd, key=key, tags=tags)
            uai_names = None
        # ---- read-back vs the model's reader (parent order, flat layout)
        dd = check_readback(fmt, m2, rb, id_var, id_state, flats, uai_names)
        if dd:
            return bad("impl!=model:%s-readback" % fmt, dd, key=key, tags=tags)
        # ---- the property itself: nodes, edges, state names, every named assignment
        if fmt == "uai":
            vmap = {"var_%d" % i: v for i, v in uai_names.items()}
            smap = {v: {i: s for i, s in enumerate(b["states"][v])} for v in names}
            got = named(m2, vmap, smap)
            nodes2 = sorted(vmap[x] for x in m2.nodes())
            edges2 = sorted((vmap[a], vmap[c]) for a, c in m2.edges())
        else:
            got = named(m2)
            nodes2 = sorted(m2.nodes())
            edges2 = sorted(m2.edges())
        if nodes2 != sorted(names) or edges2 != ref_edges:
            return bad("impl!=spec:%s-graph" % fmt, {"nodes": nodes2, "edges": edges2, "expected_edges": ref_edges},
                       key=key, tags=tags)
        dd = compare_named(fmt, ref, got)
        if dd:
            return bad("impl!=spec:%s-named-assignment" % fmt, dd, key=key, tags=tags)
        # ---- save / load agree with the classes
        if case["saveload"] and fmt != "net" and not wkw and not opts.get("decorate"):
            path = os.path.join(TMP, "m_%d_%s.%s" % (os.getpid(), key, fmt))
            try:
                m.save(path) if fmt == "bif" else m.save(path, filetype=fmt)
                with open(path) as fh:
                    ftext = fh.read()
                if fmt == "bif":
                    m3 = BayesianNetwork.load(path, **({} if case["njobs"] is None else {"n_jobs": case["njobs"]}))
                else:
                    m3 = BayesianNetwork.load(path, filetype=fmt)
            finally:
                if os.path.exists(path):
                    os.remove(path)
            if ftext != text:
                return bad("impl!=spec:%s-save-text-differs" % fmt, {"len_file": len(ftext), "len_str": len(text)},
                           key=key, tags=tags)
            if fmt == "uai":
                got3 = named(m3, vmap, smap)
                e3 = sorted((vmap[a], vmap[c]) for a, c in m3.edges())
            else:
                got3 = named(m3)
                e3 = sorted(m3.edges())
            if got3 != got or e3 != edges2:
                return bad("impl!=spec:%s-load-differs-from-reader" % fmt, {}, key=key, tags=tags)
            tags.append("save/load " + fmt)
    if snap0 is not None and snapshot(m) != snap0:
        return bad("purity:writers-or-save-changed-the-model", {"before": snap0[:2], "after": snapshot(m)[:2]},
                   key=key, tags=tags)
    return ok(nontrivial=maxpar >= 1, key=key, tags=tags)


# ------------------------------------------------------------------ run: Markov networks (UAI)
def run_mn(case, drv):
    from pgmpy.models import MarkovNetwork
    from pgmpy.factors.discrete import DiscreteFactor
    from pgmpy.readwrite import UAIReader, UAIWriter
    g = case["mn"]
    names = g["names"]
    cards = g["cards"]
    m = MarkovNetwork()
    m.add_nodes_from(names)
    for sc, _ in g["factors"]:
        for a, c in itertools.combinations(sc, 2):
            m.add_edge(a, c)
    facs = [DiscreteFactor(sc, [cards[v] for v in sc], vals) for sc, vals in g["factors"]]
    m.add_factors(*facs)
    if m.check_model() is not True:
        return bad("harness:invalid-model", {})
    key = common.canon_key(["mn", names, cards, g["factors"]])
    svars = sorted(names)
    var_id = {v: i for i, v in enumerate(svars)}
    id_var = {i: v for v, i in var_id.items()}
    mfacs = m.get_factors()
    req = [[[[var_id[v], int(c)] for v, c in zip(f.variables, f.cardinality)], list(range(int(f.values.size)))]
           for f in mfacs]
    flats = [[float(x) for x in f.values.ravel()] for f in mfacs]
    connected = {v for sc, _ in g["factors"] if len(sc) >= 2 for v in sc}
    isolated = [v for v in names if v not in connected]
    tags = ["mn vars=%d" % len(names), "factors=%d" % len(mfacs), "isolated=%d" % len(isolated)]
    if any(c >= 10 for c in cards.values()):
        tags.append("card>=10")
    if any(len(fl) == 1 for fl in flats):
        tags.append("one-value factor")
    allv = [x for fl in flats for x in fl]
    if allv and allv[-1] >= 1e16:
        tags.append("mn value>=1e16 is the last number of the file")
    if any(x >= 1e16 for x in allv[:-1]):
        tags.append("mn value>=1e16 not last")
    if any(x >= 1e100 for x in allv):
        tags.append("mn value>=1e100")
    if any(0 < x <= 1e-100 for x in allv):
        tags.append("mn value<=1e-100")
    if any(0 < x < 2.3e-308 for x in allv):
        tags.append("mn denormal value")
    if any(v in KW_EQUAL for v in names):
        tags.append("variable name == keyword")
    text = None
    try:
        text = str(UAIWriter(m))
        m2 = UAIReader(string=text).get_model()
    except Exception as e:
        return bad("roundtrip-raises:uai-markov:%s" % type(e).__name__, {"error": str(e)[:300],
                   "factors": [sc for sc, _ in g["factors"]], "cards": cards}, key=key, tags=tags)
    reply = drv.call("c09_uai_mn", req)
    (mdom, mscopes, mtabs), rb, numl = reply
    kind, dom, scopes, tables, complete = parse_uai(text)
    mtables = [[flats[i][p] for p in t] for i, t in enumerate(mtabs)]
    if kind != "MARKOV" or not complete or dom != mdom or scopes != mscopes or tables != mtables:
        return bad("impl!=model:uai-markov-document", {"text": [kind, dom, scopes], "model": [mdom, mscopes],
                                                        "tables_equal": tables == mtables}, key=key, tags=tags)
    num = {id_var[v]: i for v, i in numl}
    back = {"var_%d" % i: v for v, i in num.items()}
    if sorted(num.values()) != list(range(len(names))):
        return bad("model:numbering-not-bijective", {"num": num}, key=key, tags=tags)
    if rb == []:
        return bad("impl!=model:uai-markov-readback", {"what": "model rejects"}, key=key, tags=tags)
    f2 = m2.get_factors()
    if len(f2) != len(rb[0]):
        return bad("impl!=model:uai-markov-readback", {"what": "factor count"}, key=key, tags=tags)
    for i, (f, (msc, mt)) in enumerate(zip(f2, rb[0])):
        if list(f.variables) != ["var_%d" % v for v, _ in msc] or [int(c) for c in f.cardinality] != [c for _, c in msc] \
                or [float(x) for x in f.values.ravel()] != [flats[i][p] for p in mt]:
            return bad("impl!=model:uai-markov-readback", {"factor": i, "impl": [list(f.variables), list(map(int, f.cardinality))],
                                                            "model": msc}, key=key, tags=tags)
        # the property: same scope (renamed), same cardinalities, same value for every assignment
        if [back[v] for v in f.variables] != list(mfacs[i].variables) or \
                [int(c) for c in f.cardinality] != [int(c) for c in mfacs[i].cardinality] or \
                [float(x) for x in f.values.ravel()] != flats[i]:
            return bad("impl!=spec:uai-markov-factor", {"factor": i}, key=key, tags=tags)
    n2 = sorted(back[v] for v in m2.nodes())
    e2 = sorted(tuple(sorted((back[a], back[c]))) for a, c in m2.edges())
    e1 = sorted(tuple(sorted(e)) for e in m.edges())
    if n2 != sorted(names) or e2 != e1:
        return bad("impl!=spec:uai-markov-graph", {"nodes": n2, "edges": e2, "expected": e1}, key=key, tags=tags)
    return ok(nontrivial=True, key=key, tags=tags)


def sniff(text):
    if text.startswith("network "):
        return 0
    if text.startswith("BAYES") or text.startswith("MARKOV"):
        return 1
    if text.startswith("<?xml"):
        return 2
    return 9


def run_sl(case, drv):
    """BayesianNetwork.save(path, [filetype]) then BayesianNetwork.load(path, [filetype]) with IDENTICAL arguments,
    for one (extension, filetype) pair: which format is written / parsed must be what the dispatch model says
    (a recognised extension overrides the filetype in both), the file must be the writer class's text, and the
    loaded model must equal the original by named assignment (or nothing is written and None is returned)."""
    from pgmpy.models import BayesianNetwork
    from pgmpy.readwrite import BIFWriter, XMLBIFWriter, UAIWriter
    b = case["bn"]
    names = b["names"]
    ext, ft = case["ext"], case["ft"]
    m = build_bn(b)
    if m.check_model() is not True:
        return bad("harness:invalid-model", {})
    key = common.canon_key(["sl", b["names"], b["node_order"], b.get("edge_order"), b.get("cpd_order"), b["states"],
                            b["parents"], b["values"], ext, ft])
    ecode = FMT_CODE.get(ext.lower(), 4)
    fcode = FMT_CODE.get(ft, 4) if ft is not None else 0
    msave, mload = drv.call("c09_dispatch", [ecode, fcode])
    exp_save = msave[0] if msave else None
    exp_load = mload[0] if mload else None
    consistent = ft is None or ecode > 2 or ecode == fcode
    tags = ["save/load ext=%s filetype=%s" % (ext or "<none>", ft or "<default>"),
            "save/load resolves to " + CODE_FMT.get(exp_save, "nothing"),
            "save/load " + ("consistent pair" if consistent else "extension contradicts filetype")]
    path = os.path.join(TMP, "sl_%d_%s%s" % (os.getpid(), key, ("." + ext) if ext else ""))
    kw = {} if ft is None else {"filetype": ft}
    detail = {"ext": ext, "filetype": ft, "model_save": exp_save, "model_load": exp_load}
    try:
        if os.path.exists(path):
            os.remove(path)
        m.save(path, **kw)
        written = None
        if os.path.exists(path):
            with open(path) as fh:
                ftext = fh.read()
            written = sniff(ftext)
        if written != exp_save:
            return bad("impl!=model:save-format", dict(detail, written=written), key=key, tags=tags)
        if written is not None:
            W = {0: BIFWriter, 1: UAIWriter, 2: XMLBIFWriter}[written]
            if ftext != str(W(m)):
                return bad("impl!=spec:save-text-differs-from-writer", detail, key=key, tags=tags)
        m3 = BayesianNetwork.load(path, n_jobs=1, **kw)
    except Exception as e:
        return bad("saveload-raises:%s" % type(e).__name__, dict(detail, error=str(e)[:300]), key=key, tags=tags)
    finally:
        if os.path.exists(path):
            os.remove(path)
    if exp_load is None:
        if m3 is not None:
            return bad("impl!=model:load-format", dict(detail, loaded=str(type(m3))), key=key, tags=tags)
        return ok(nontrivial=True, key=key, tags=tags)
    if m3 is None:
        return bad("impl!=model:load-format", dict(detail, loaded=None), key=key, tags=tags)
    ref = named(m)
    if exp_load == 1:
        svars = sorted(names)
        var_id = {v: i for i, v in enumerate(svars)}
        state_id = {st: i for i, st in enumerate(sorted({x for v in names for x in b["states"][v]}))}
        req, _ = model_request(b, m, var_id, state_id)
        num = {svars[v]: i for v, i in drv.call("c09_uai", req)[2]}
        vmap = {"var_%d" % i: v for v, i in num.items()}
        smap = {v: {i: st for i, st in enumerate(b["states"][v])} for v in names}
        got = named(m3, vmap, smap)
        nodes3 = sorted(vmap.get(x, x) for x in m3.nodes())
        edges3 = sorted((vmap.get(a, a), vmap.get(c, c)) for a, c in m3.edges())
    else:
        got = named(m3)
        nodes3 = sorted(m3.nodes())
        edges3 = sorted(m3.edges())
    if nodes3 != sorted(names) or edges3 != sorted(m.edges()):
        return bad("impl!=spec:saveload-graph", dict(detail, nodes=nodes3, edges=edges3), key=key, tags=tags)
    dd = compare_named("bif", ref, got)
    if dd:
        return bad("impl!=spec:saveload-named-assignment", dict(detail, **dd), key=key, tags=tags)
    return ok(nontrivial=True, key=key, tags=tags)


FMT_CLASSES = None


def fmt_classes():
    from pgmpy.readwrite import (BIFReader, BIFWriter, XMLBIFReader, XMLBIFWriter, UAIReader, UAIWriter,
                                 NETReader, NETWriter)
    return {"bif": (BIFWriter, BIFReader), "xmlbif": (XMLBIFWriter, XMLBIFReader), "uai": (UAIWriter, UAIReader),
            "net": (NETWriter, NETReader)}


def uai_back(m, m2):
    """rename var_i / positional states of a UAI result back through the documented (str(card), name) sort"""
    cards = {c.variable: int(c.variable_card) for c in m.get_cpds()}
    order = sorted(cards, key=lambda v: (str(cards[v]), v))
    vmap = {"var_%d" % i: v for i, v in enumerate(order)}
    smap = {c.variable: {i: str(st) for i, st in enumerate(c.state_names[c.variable])} for c in m.get_cpds()}
    return named(m2, vmap, smap), sorted((vmap[a], vmap[c]) for a, c in m2.edges())


def run_sizes(case, drv):
    """networks of the listed sizes (around batch sizes 8 / 16 / 32 and every size 1..34 in the thorough tier):
    BIF through string= or path= and load, with n_jobs omitted (default), 2 or 1 -- one worker process keeps its joblib
    pool, so the sizes of one n_jobs value share a case -- and the other formats at the same sizes; every variable
    must come back with its CPD"""
    rng = random.Random(case["seed"])
    tags = ["sizes n_jobs=%s" % ("default" if case["njobs"] is None else case["njobs"])]
    for i, n in enumerate(case["sizes"]):
        b = gen_sparse(rng, n)
        sub = {"kind": "bn", "bn": b, "njobs": case["njobs"], "saveload": case.get("load", False) and i % 2 == 0,
               "formats": case["formats"], "opts": {"route": ["string", "path"][(i + case["seed"]) % 2]}}
        o = run_bn_inner(sub, drv, sub["opts"])
        tags.append("size=%d (%d mod 8)" % (n, n % 8))
        tags += [t for t in o.get("tags", []) if t.startswith(("format=", "save/load ", "opt route"))]
        if not o["ok"]:
            o["tags"] = tags
            o["detail"] = dict(o.get("detail") or {}, size=n, n_jobs=case["njobs"])
            return o
    return ok(nontrivial=True, key=common.canon_key(["sizes", case["sizes"], case["njobs"], case["formats"], case["seed"]]),
              tags=sorted(set(tags)))


def run_empty(case, drv):
    from pgmpy.models import BayesianNetwork
    cl = fmt_classes()
    for fmt in ("bif", "xmlbif", "net"):
        W, R = cl[fmt]
        try:
            m2 = R(string=str(W(BayesianNetwork())), **({"n_jobs": 1} if fmt == "bif" else {})).get_model()
        except Exception as e:
            return bad("roundtrip-raises:%s:%s" % (fmt, type(e).__name__), {"error": str(e)[:200], "model": "empty"},
                       key="empty", tags=["empty network"])
        if list(m2.nodes()) or list(m2.edges()) or m2.get_cpds():
            return bad("impl!=spec:%s-empty-network" % fmt, {"nodes": list(m2.nodes())}, key="empty", tags=["empty network"])
    return ok(nontrivial=False, key="empty", tags=["empty network"])


def run_edit(case, drv):
    """save, edit the SAME model object through a mutator, save to the SAME path again: the second file is the
    text of a freshly built model of the current state and loads back to it"""
    import copy
    from pgmpy.models import BayesianNetwork
    from pgmpy.factors.discrete import TabularCPD
    b = case["bn"]
    fmt, op = case["fmt"], case["op"]
    rng = random.Random(case["seed"])
    W, R = fmt_classes()[fmt]
    key = common.canon_key(["edit", b["names"], b["parents"], b["values"], b["states"], fmt, op, case["seed"]])
    tags = ["edit op=" + op, "edit format=" + fmt]
    m = build_bn(b)
    path = os.path.join(TMP, "e_%d_%s.%s" % (os.getpid(), key, fmt))
    rkw = {"n_jobs": 1} if fmt == "bif" else {}

    def save_and_load(model):
        if fmt == "net":
            W(model).write_net(path)
            back = R(path=path).get_model()
        else:
            model.save(path, filetype=fmt)
            back = BayesianNetwork.load(path, filetype=fmt, **rkw)
        with open(path) as fh:
            return fh.read(), back

    def same(model, back):
        if fmt == "uai":
            got, edges = uai_back(model, back)
        else:
            got, edges = named(back), sorted(back.edges())
        if edges != sorted(model.edges()):
            return {"what": "edges", "read": edges, "expected": sorted(model.edges())}
        return compare_named(fmt, named(model), got)

    try:
        t1, back1 = save_and_load(m)
        dd = same(m, back1)
        if dd:
            return bad("impl!=spec:edit-first-roundtrip", dd, key=key, tags=tags)
        # ---- the edit, on the object and on the description
        nb = copy.deepcopy(b)
        for k_ in ("edge_order", "cpd_order"):
            nb.pop(k_, None)
        children = {p for v in b["names"] for p in b["parents"][v]}
        if op == "remove_leaf" and (len(b["names"]) < 2):
            op = "replace"
        if op == "remove_edge" and not any(b["parents"][v] for v in b["names"]):
            op = "replace"

        def new_cpd(v, ps):
            card = len(nb["states"][v])
            P = _prod(len(nb["states"][q]) for q in ps)
            cols = [gen_column(rng, card, rng.choice(["dyadic", "thirds", "tiny"])) for _ in range(P)]
            nb["values"][v] = [[cols[j][c] for j in range(P)] for c in range(card)]
            nb["parents"][v] = list(ps)
            import numpy as np
            return TabularCPD(v, card, np.array(nb["values"][v], dtype=float).reshape(card, -1), evidence=list(ps) or None,
                              evidence_card=[len(nb["states"][q]) for q in ps] or None,
                              state_names={x: list(nb["states"][x]) for x in [v] + list(ps)})

        if op == "replace":
            v = rng.choice(b["names"])
            m.add_cpds(new_cpd(v, b["parents"][v]))       # in-place replacement of an existing variable's CPD
        elif op == "remove_leaf":
            v = rng.choice([x for x in b["names"] if x not in children])
            m.remove_node(v)
            nb["names"] = [x for x in nb["names"] if x != v]
            nb["node_order"] = [x for x in nb["node_order"] if x != v]
            for d_ in ("states", "parents", "values"):
                nb[d_].pop(v)
        elif op == "add_node":
            v = "zz_new"
            p_ = rng.choice(b["names"])
            nb["names"].append(v)
            nb["node_order"].append(v)
            nb["states"][v] = ["new_a", "new_b", "new_c"]
            m.add_node(v)
            m.add_edge(p_, v)
            m.add_cpds(new_cpd(v, [p_]))
        elif op == "remove_edge":
            v = rng.choice([x for x in b["names"] if b["parents"][x]])
            p_ = rng.choice(b["parents"][v])
            m.remove_edge(p_, v)
            m.add_cpds(new_cpd(v, [q for q in b["parents"][v] if q != p_]))
        if m.check_model() is not True:
            return bad("harness:invalid-model", {"after": op})
        fresh = build_bn(nb)
        t2, back2 = save_and_load(m)
        if t2 != str(W(fresh)):
            return bad("session:second-save-differs-from-fresh-model", {"op": op, "fmt": fmt, "len": [len(t2), len(str(W(fresh)))]},
                       key=key, tags=tags)
        dd = same(fresh, back2)
        if dd:
            return bad("session:load-after-edit-differs-from-fresh-model", dict(dd, op=op), key=key, tags=tags)
    except Exception as e:
        return bad("edit-raises:%s:%s" % (fmt, type(e).__name__), {"error": str(e)[:300], "op": op}, key=key, tags=tags)
    finally:
        if os.path.exists(path):
            os.remove(path)
    return ok(nontrivial=True, key=key, tags=tags)


def run_reject(case, drv):
    """calls that must raise: a writer given another kind of model, a reader given neither path nor string, a
    written text with one number (BIF: one row) removed"""
    from pgmpy.base import DAG
    from pgmpy.models import BayesianNetwork, MarkovNetwork
    from pgmpy.factors.discrete import TabularCPD
    fmt, what = case["fmt"], case["what"]
    W, R = fmt_classes()[fmt]
    key = "reject-%s-%s" % (what, fmt)
    tags = ["reject " + what, "reject format=" + fmt]
    try:
        if what == "writer-type":
            W(DAG([("a", "b")]) if fmt == "uai" else MarkovNetwork([("a", "b")]))
            return bad("accepted:writer-of-wrong-model-type", {"fmt": fmt}, key=key, tags=tags)
        if what == "reader-noarg":
            R()
            return bad("accepted:reader-without-input", {"fmt": fmt}, key=key, tags=tags)
        m = BayesianNetwork([("a", "c"), ("b", "c")])
        sn = {"a": ["x", "y"], "b": ["u", "v", "w"], "c": ["p", "q", "r"]}
        m.add_cpds(TabularCPD("a", 2, [[0.25], [0.75]], state_names={"a": sn["a"]}),
                   TabularCPD("b", 3, [[0.5], [0.25], [0.25]], state_names={"b": sn["b"]}),
                   TabularCPD("c", 3, [[0.5] * 6, [0.25] * 6, [0.25] * 6], evidence=["b", "a"], evidence_card=[3, 2], state_names=sn))
        text = str(W(m))
        if fmt == "bif":
            cut = re.sub(r"    \( w, y \) [^\n]*\n", "", text, count=1)
        elif fmt == "xmlbif":
            cut = text.replace("0.25 </TABLE>", "</TABLE>")
        elif fmt == "uai":
            cut = text[:text.rstrip().rfind(" ")]
        else:
            i = text.rfind("0.25")
            cut = text[:i] + text[i + 4:]
        if cut == text:
            return bad("harness:truncation-did-nothing", {"fmt": fmt}, key=key, tags=tags)
        try:
            R(string=cut, **({"n_jobs": 1} if fmt == "bif" else {})).get_model()
        except Exception:
            return ok(nontrivial=True, key=key, tags=tags)
        return bad("accepted:truncated-table", {"fmt": fmt}, key=key, tags=tags)
    except (TypeError, ValueError):
        return ok(nontrivial=True, key=key, tags=tags)


def run_case(case, drv):
    if case["kind"] == "sizes":
        return run_sizes(case, drv)
    if case["kind"] == "empty":
        return run_empty(case, drv)
    if case["kind"] == "edit":
        return run_edit(case, drv)
    if case["kind"] == "reject":
        return run_reject(case, drv)
    if case["kind"] == "bn":
        return run_bn(case, drv)
    if case["kind"] == "sl":
        return run_sl(case, drv)
    return run_mn(case, drv)
