"""C12 correspondence: pgmpy's PC (build_skeleton orig/stable/parallel, skeleton_to_pdag, estimate) and
PDAG.to_dag vs the Coq model (coq/C12/Model.v) and the specification (coq/C12/Spec.v: CPDAG of the Markov
equivalence class by enumeration, consistent extension).

Oracles handed to pgmpy:
  data+callable : PC(data=<frame whose columns fix the variable order>), ci_test = a Python callable that
                  answers by d-separation in the ground-truth DAG (pgmpy's own is_dconnected, C08)
  ind-pairwise  : PC(independencies=<every single-variable assertion X _|_ Y | Z that holds>), "independence_match"
  ind-literal   : PC(independencies=dag.get_independencies()), "independence_match" (a syntactic lookup in a list
                  of maximal assertions: exact only for some truths; compared with the model of that lookup)
The model is run with the same variable order and the same set-iteration order (node names are chosen per
process so that every Python set of them iterates in one known global order, see pick_names), hence skeleton,
separating sets, PDAG and DAG must agree exactly, for every PYTHONHASHSEED."""
import itertools
import random

from harness import common
from harness.common import ok, bad

PROP = "C12"
LEVEL = "proof"
HASHSEEDS = {"quick": [0, 1, 2, 3], "thorough": [0, 1, 2, 3, 4, 5, 6, 7]}
BUDGET_S = {"quick": 400, "thorough": 3000}
EXHAUSTIVE = {"quick": True, "thorough": True}
RULE = ("exhaustive: every DAG on <=4 (quick) / <=5 (thorough) labelled nodes as ground truth, through a callable "
        "d-separation oracle (variable order and set order varied) and through independence_match (pairwise-complete "
        "list, for truths all of whose nodes occur in it; and the literal get_independencies() list, model only where "
        "inexact), variants orig/stable/parallel, return types skeleton/pdag/cpdag/dag, max_cond_vars = n, = max degree, "
        "too small and 0; random ground-truth DAGs on 6-8 nodes (CPDAG checked against the specification's enumeration "
        "whenever the truth has <= 11 edges), dense 6-7 node truths, relabelled 6-node witnesses of the repaired rule-4 "
        "defect, 9-10 node truths, 5-node truths in which the orientation rules feed each other (one per equivalence "
        "class: rule-J-then-rule-K chains, truths that need a further sweep after rule K, three sweeps; under the "
        "identity orders and relabelled; the R3-then-R1 motif is also in the corpus); PC.skeleton_to_pdag on random skeletons with random separating sets; PDAG.to_dag on "
        "CPDAGs and on arbitrary PDAGs with extendability decided by brute force.  Every PC output is compared with the "
        "model (same orders) and with the specification's CPDAG / class membership / consistent-extension checker.  "
        "Generalisation classes: "
        "A sessions - one PC(data) object answering 2-4 groups of estimate() calls with oracles of different truths from "
        "one factory (same __name__), one Independencies object and one PC(independencies=it) object with assertions "
        "ADDED between calls (truth loses an edge), one PDAG object asked to_dag() repeatedly, one skeleton graph reused "
        "with other separating sets; PC and Independencies have no other mutators in the property's scope, and edits "
        "of a PDAG through inherited networkx mutators are outside it (to_dag reads the directed/undirected sets given at "
        "construction).  B purity - data frame, Independencies list, skeleton graph and separating-set dict, PDAG ebunch "
        "lists (then cleared and reused) equal to a snapshot after the call.  C result independence - every returned "
        "skeleton graph / separating-set dict / PDAG / DAG / PDAG copy is wrecked (edges, nodes, attribute sets, latents) "
        "before the next call, to_dag asked twice must answer the same with a distinct object.  D frames - 0-3 rows, "
        "RangeIndex / shifted / permuted / gapped / duplicate / string index, int / bool / float / categorical columns "
        "with unused categories, constant and varying values (the data is never read by the oracle).  E names - one name "
        "a prefix of another (exact-order routes), keyword-like / empty / non-ASCII strings, ints >= 8, floats, mixed "
        "int+str that do not sort (spec-only route); tuple names are rejected by pandas column selection and flattened "
        "by IndependenceAssertion, so the API excludes them.  F state names, H magnitudes, I backends: not applicable - "
        "with an exact oracle no state, number or tensor is read (significance_level is only forwarded; the forwarded "
        "data / independencies / significance_level keyword arguments are checked).  G - single node, edgeless, isolated "
        "nodes in results and in PDAGs, max_cond_vars = 0, empty PDAG, 9-10 variables.  N - every name object handed to "
        "pgmpy (columns, graph nodes, assertion events, ebunch entries, separating-set keys and members, latents) is "
        "rebuilt so that it is equal but not identical to the other occurrences; ints above 256 and 2**24.  O - data "
        "columns as list / pandas Index / numpy array, separating sets as tuple / list / set / frozenset, assertion "
        "events as list / tuple / set / frozenset, latents as list / tuple / set / frozenset / iterator / generator "
        "(PDAG's ebunch arguments must be lists: other containers raise TypeError in the constructor, reported).  "
        "P - chains and out-trees on 9, 12, 16, 17, 33 (thorough: 9-33) nodes with the skeleton as CPDAG.  Q - not "
        "applicable (no tables).  R - to_dag: latents x isolated nodes x required_edges; estimate: omitted defaults x "
        "significance_level x n_jobs x letter case.  J - variant and max_cond_vars "
        "and return_type omitted (defaults), return_type in other letter case, build_skeleton called directly, "
        "independence_match as name and as function object, n_jobs 1 and 2, show_progress, to_dag(required_edges), "
        "PDAG latents.  K - estimate() with an invalid later argument (variant, return_type, ci_test name, "
        "independence_match without independencies) must raise ValueError and leave the next call right; missing "
        "separating set => KeyError.  L - column order, set order (names with a known global set order), PDAG ebunch "
        "order, assertion argument order, 4/8 hash seeds.  A case is non-trivial when the graph has >=1 edge; distinct = "
        "distinct (kind, graph, orders, hash seed)")
TRUSTED_BASE = ["networkx Graph/DiGraph storage, EdgeView iteration order (node order, adjacency insertion order), "
                "complete_graph, all_simple_paths (modelled by reachability over strictly directed arcs)",
                "CPython set iteration order for collision-free small tables (checked at run time per worker by pick_names)",
                "joblib Parallel (parallel variant run with n_jobs=1; a few cases with n_jobs=2 in the thorough tier)",
                "the callable oracle handed to pgmpy is pgmpy's DAG.is_dconnected (property C08) and is cross-checked "
                "against the model's d-separation on every query of the exhaustive cases"]
ASSUMPTIONS = ["node names are interned to nat identifiers by the harness; the model never sees names",
               "max_cond_vars >= maximum degree of the ground truth for the exactness claims (smaller values are "
               "compared with the model only)"]

VARIANTS = ["orig", "stable", "parallel"]
# PDAG.to_dag used to hand its own latents set to the result (repaired: d95bd5d, key to-dag-shares-latents)
PROBE_LATENTS_ALIAS = True


# ------------------------------------------------------------------ names with a known set-iteration order
_POOL = None
_POOL3 = None


def _pool3():
    """slot -> 3-character names (a 2-character pool name + one more character) with (h & 31) == slot < 8, keyed by
    their 2-character prefix: used to get pairs of names one of which is a prefix of the other"""
    global _POOL3
    if _POOL3 is None:
        _POOL3 = {}
        base = [nm for s in range(8) for nm in _pool()[s]]
        for nm in base:
            for c in "0123456789xyzXYZ_":
                h = hash(nm + c) & 31
                if h < 8:
                    _POOL3.setdefault((nm, h), nm + c)
    return _POOL3


def _pool():
    """slot -> names whose hash has (h & 31) == slot < 8.  Any set/frozenset built from names of distinct slots
    (<= 8 names, tables of 8 or 32 entries) iterates in slot order, whatever the insertion history."""
    global _POOL
    if _POOL is None:
        _POOL = {s: [] for s in range(8)}
        for a in "abcdefghijklmnopqrstuvwxyzABCDEFGHIJKLMNOPQRSTUVWXYZ":
            for b in "0123456789abcdefghijklmnopqrstuvwxyz":
                nm = a + b
                s = hash(nm) & 31
                if s < 8 and len(_POOL[s]) < 6:
                    _POOL[s].append(nm)
    return _POOL


def pick_names(rng, n):
    """n names; returns (names, sord) with sord = node indices in the iteration order of any Python set of names"""
    pool = _pool()
    slots = rng.sample(range(8), n)
    names = [rng.choice(pool[s]) for s in slots]
    if n >= 2 and rng.random() < 0.35:      # names like x1 / x10: names[j] gets names[i] as a proper prefix
        i, j = rng.sample(range(n), 2)
        nm3 = _pool3().get((names[i], slots[j]))
        if nm3 is not None:
            names[j] = nm3
    sord = sorted(range(n), key=lambda i: slots[i])
    # run-time check of the trusted fact on this interpreter / hash seed
    exp = [names[i] for i in sord]
    for _ in range(3):
        p = list(names)
        rng.shuffle(p)
        s1 = set(p)
        if list(s1) != exp or list(frozenset(p)) != exp:
            raise RuntimeError("set iteration order assumption broken")
        if n > 1:
            drop = p[0]
            if list(s1 - {drop}) != [x for x in exp if x != drop] or list(s1 & set(p[1:])) != [x for x in exp if x != drop]:
                raise RuntimeError("set difference order assumption broken")
    return names, sord


def fr(nm):
    """an object equal to nm but not identical to it (strings rebuilt from their characters, ints above 256 re-parsed)"""
    if isinstance(nm, str) and len(nm) >= 2:
        return "".join(list(nm))
    if isinstance(nm, int) and not isinstance(nm, bool) and nm > 256:
        return int(str(nm))
    return nm


# ------------------------------------------------------------------ cases
R4_WITNESSES = [
    [(0, 1), (0, 2), (0, 3), (1, 2), (3, 1), (4, 3), (5, 0), (5, 1), (5, 2), (5, 3)],
    [(1, 0), (1, 2), (1, 3), (1, 5), (2, 0), (3, 2), (4, 3), (5, 0), (5, 2), (5, 3)],
    [(0, 4), (1, 0), (1, 4), (1, 5), (2, 0), (3, 0), (3, 1), (3, 4), (3, 5), (4, 5)],
    [(4, 0), (5, 0), (4, 2), (4, 3), (0, 2), (3, 5), (1, 5), (3, 0), (4, 1), (3, 2), (4, 5)],
]


# 5-node ground truths (one per Markov equivalence class, enumerated once over all 8782 classes with a transcription
# of the fix-point loop) in which the orientation rules feed each other:
#   chainJK     - an edge oriented by Meek rule K has a premise that was oriented by Meek rule J
#                 (code rule 2 = R1, rule 3 = R2, rule 4 = R3; 13/23/33 do not occur on 5 nodes)
#   noprogressK - the result is wrong if an orientation by rule K does not trigger another sweep (identity order)
#   sweeps3     - two productive sweeps are needed
MOTIFS5 = {
    "chain11": [[[0, 1], [1, 2], [3, 1], [2, 4]], [[1, 0], [0, 2], [3, 1], [4, 1]], [[0, 1], [2, 0], [4, 0], [2, 1], [1, 3]], [[0, 4], [1, 2], [1, 4], [2, 3], [4, 2]], [[2, 0], [0, 3], [4, 0], [3, 1], [4, 3]], [[0, 1], [0, 3], [0, 4], [3, 1], [1, 4], [2, 3]], [[0, 2], [3, 1], [4, 1], [2, 3], [4, 2], [4, 3]], [[1, 0], [2, 0], [1, 2], [1, 4], [4, 2], [3, 4]]],
    "chain12": [[[0, 1], [0, 2], [1, 2], [3, 1]], [[0, 2], [1, 3], [3, 2], [2, 4], [3, 4]], [[3, 0], [4, 0], [1, 4], [2, 4], [3, 4]], [[0, 2], [0, 3], [0, 4], [1, 3], [3, 2], [3, 4]], [[1, 0], [2, 0], [1, 2], [1, 4], [3, 2], [4, 2]], [[0, 1], [0, 2], [0, 4], [1, 2], [3, 1], [1, 4], [2, 4]], [[0, 2], [1, 2], [1, 3], [1, 4], [2, 3], [4, 2], [4, 3]], [[2, 0], [3, 0], [4, 0], [1, 4], [2, 3], [2, 4], [3, 4]]],
    "chain21": [[[0, 1], [0, 2], [1, 2], [3, 1], [2, 4]], [[2, 0], [1, 2], [1, 3], [3, 2], [4, 3]], [[0, 1], [0, 4], [1, 3], [4, 1], [2, 4], [4, 3]], [[0, 1], [2, 0], [4, 0], [4, 1], [2, 4], [3, 4]], [[0, 2], [2, 1], [3, 1], [2, 3], [4, 2], [4, 3]], [[0, 4], [2, 1], [1, 3], [4, 1], [2, 4], [4, 3]], [[1, 0], [2, 0], [0, 3], [0, 4], [1, 3], [3, 4]], [[1, 0], [3, 0], [3, 1], [4, 1], [2, 3], [4, 3]]],
    "chain22": [[[0, 1], [0, 2], [0, 3], [1, 2], [3, 1], [4, 3]], [[0, 1], [0, 3], [0, 4], [1, 3], [4, 1], [2, 4]], [[0, 1], [2, 0], [4, 0], [2, 1], [1, 3], [2, 3]], [[0, 2], [1, 2], [1, 3], [1, 4], [2, 3], [3, 4]], [[0, 4], [1, 2], [3, 1], [4, 1], [3, 2], [3, 4]], [[1, 0], [0, 3], [4, 0], [1, 3], [1, 4], [2, 4]], [[1, 0], [2, 0], [1, 2], [1, 3], [3, 2], [4, 3]], [[2, 0], [0, 3], [4, 0], [1, 4], [2, 3], [2, 4]]],
    "chain31": [[[0, 1], [0, 2], [0, 3], [1, 2], [1, 4], [2, 3], [4, 2], [4, 3]], [[0, 1], [0, 2], [0, 3], [2, 1], [4, 1], [3, 2], [4, 2], [3, 4]], [[0, 1], [0, 2], [0, 4], [2, 1], [1, 3], [4, 1], [2, 3], [4, 3]], [[0, 1], [0, 3], [0, 4], [1, 2], [1, 4], [3, 2], [4, 2], [3, 4]], [[0, 1], [2, 0], [3, 0], [4, 0], [2, 1], [4, 1], [2, 3], [3, 4]], [[0, 2], [0, 3], [0, 4], [2, 1], [1, 3], [1, 4], [2, 4], [4, 3]], [[1, 0], [2, 0], [0, 3], [4, 0], [1, 2], [1, 3], [2, 4], [4, 3]], [[1, 0], [2, 0], [3, 0], [1, 3], [1, 4], [2, 3], [4, 2], [4, 3]]],
    "chain32": [[[0, 1], [0, 2], [0, 3], [0, 4], [1, 2], [2, 3], [4, 2]], [[0, 1], [0, 4], [1, 2], [3, 1], [4, 1], [4, 2], [4, 3]], [[1, 0], [2, 0], [0, 3], [4, 0], [1, 4], [4, 2], [4, 3]], [[0, 1], [0, 2], [0, 3], [0, 4], [1, 2], [3, 1], [4, 1], [4, 2]], [[0, 1], [0, 2], [0, 3], [2, 1], [3, 1], [2, 3], [2, 4], [4, 3]], [[0, 1], [0, 4], [1, 2], [1, 3], [1, 4], [2, 3], [2, 4], [4, 3]], [[0, 2], [0, 4], [2, 1], [3, 1], [4, 1], [2, 3], [2, 4], [3, 4]], [[1, 0], [2, 0], [3, 0], [0, 4], [1, 3], [1, 4], [3, 2], [3, 4]]],
    "noprogress1": [[[0, 1], [2, 0], [3, 0], [1, 4]], [[0, 1], [2, 0], [3, 2], [4, 2]], [[0, 1], [2, 0], [4, 0], [1, 3]], [[0, 1], [3, 0], [4, 0], [1, 2]], [[0, 2], [3, 0], [4, 0], [2, 1]], [[1, 0], [0, 2], [3, 0], [2, 4]], [[1, 0], [0, 2], [3, 1], [4, 1]], [[1, 0], [0, 2], [4, 0], [2, 3]], [[1, 0], [0, 3], [2, 1], [4, 1]], [[1, 0], [0, 3], [4, 0], [3, 2]], [[1, 0], [0, 4], [2, 1], [3, 1]], [[1, 0], [2, 0], [0, 3], [3, 4]]],
    "noprogress3": [[[0, 1], [0, 2], [0, 3], [1, 2], [1, 4], [2, 3], [4, 2], [4, 3]], [[0, 1], [0, 2], [0, 3], [2, 1], [1, 3], [4, 1], [2, 4], [4, 3]], [[0, 1], [0, 2], [0, 4], [1, 2], [1, 3], [3, 2], [2, 4], [3, 4]], [[0, 1], [0, 2], [0, 4], [2, 1], [3, 1], [1, 4], [2, 3], [3, 4]], [[0, 1], [0, 3], [0, 4], [1, 2], [1, 4], [2, 3], [2, 4], [4, 3]], [[0, 1], [0, 3], [0, 4], [2, 1], [3, 1], [2, 3], [4, 2], [4, 3]], [[0, 2], [0, 3], [0, 4], [1, 2], [1, 3], [4, 1], [2, 3], [4, 2]], [[0, 2], [0, 3], [0, 4], [2, 1], [1, 3], [1, 4], [2, 4], [4, 3]], [[1, 0], [0, 2], [3, 0], [4, 0], [1, 2], [1, 4], [3, 2], [4, 3]], [[1, 0], [2, 0], [3, 0], [0, 4], [1, 2], [1, 3], [2, 4], [3, 4]], [[1, 0], [2, 0], [3, 0], [2, 1], [3, 1], [4, 1], [2, 4], [4, 3]], [[1, 0], [3, 0], [4, 0], [1, 2], [1, 4], [2, 3], [2, 4], [3, 4]]],
    "sweeps3": [[[0, 1], [2, 0], [3, 0], [1, 4]], [[1, 0], [2, 1], [3, 1], [3, 2], [4, 2]], [[0, 1], [2, 0], [3, 0], [3, 1], [2, 3], [4, 3]], [[1, 0], [0, 2], [4, 0], [1, 2], [3, 1], [4, 1]], [[2, 0], [4, 0], [1, 2], [1, 4], [3, 2], [2, 4]], [[1, 0], [3, 0], [1, 2], [1, 3], [1, 4], [2, 3], [4, 3]], [[0, 1], [0, 2], [0, 4], [2, 1], [4, 1], [3, 2], [4, 2], [4, 3]], [[0, 3], [0, 4], [1, 2], [3, 1], [1, 4], [3, 2], [4, 2], [3, 4]]],
}


def cases(tier, seed):
    rng = random.Random(seed)
    out = []
    seeds = HASHSEEDS[tier]
    nmax = 4 if tier == "quick" else 5
    for n in range(1, nmax + 1):
        for i, edges in enumerate(common.all_dags(n)):
            if n <= 3:
                hs_list = seeds
            elif n == 4:
                hs_list = seeds if tier == "thorough" else [seeds[i % len(seeds)], seeds[(i + 1) % len(seeds)]]
            else:
                hs_list = [seeds[i % len(seeds)]]
            for hs in hs_list:
                out.append({"kind": "exh", "n": n, "edges": edges, "hashseed": hs, "oseed": rng.randint(0, 10**9),
                            "light": n == 5})
    # rule chains on 5 nodes: every listed truth once under the identity orders (where the enumeration saw the
    # chain) and relabelled copies under random orders
    for fam in sorted(MOTIFS5):
        ws = MOTIFS5[fam]
        for w in (ws if fam.startswith("noprogress") or tier == "thorough" else rng.sample(ws, 3)):
            out.append({"kind": "exh", "n": 5, "edges": w, "oseed": rng.randint(0, 10**9), "light": False,
                        "ident": True, "src": "motif5:" + fam, "hashseed": rng.choice(seeds)})
            for _ in range(1 if tier == "quick" else 4):
                perm = list(range(5))
                rng.shuffle(perm)
                out.append({"kind": "exh", "n": 5, "edges": [[perm[u], perm[v]] for u, v in w], "light": False,
                            "oseed": rng.randint(0, 10**9), "src": "motif5:" + fam, "hashseed": rng.choice(seeds)})
    nrand = 40 if tier == "quick" else 500
    for i in range(nrand):
        n = rng.randint(6, 8)
        _, edges = common.rand_dag(rng, n, p=rng.choice([0.15, 0.25, 0.35, 0.5]))
        out.append({"kind": "rand", "n": n, "edges": edges, "oseed": rng.randint(0, 10**9),
                    "njobs": 2 if ((tier == "thorough" and i % 100 == 0) or (tier == "quick" and i < 2)) else 1})
    # truths on which rule 4 used to fire with adjacent X, Y (repaired defect ad4d524; found by random search
    # model-vs-spec), randomly relabelled
    nwit = 5 if tier == "quick" else 40
    for w in R4_WITNESSES:
        for i in range(nwit):
            perm = list(range(6))
            rng.shuffle(perm)
            out.append({"kind": "rand", "n": 6, "edges": [[perm[u], perm[v]] for u, v in w],
                        "oseed": rng.randint(0, 10**9), "njobs": 1, "src": "rule4-witness"})
    # dense-ish 6-7 node truths with an enumerable class: the region where that rule matters
    nden = 150 if tier == "quick" else 3000
    for i in range(nden):
        n = rng.choice([6, 6, 7])
        while True:
            _, edges = common.rand_dag(rng, n, p=rng.choice([0.4, 0.5, 0.6]))
            if 6 <= len(edges) <= (11 if tier == "quick" else 12):
                break
        out.append({"kind": "rand", "n": n, "edges": edges, "oseed": rng.randint(0, 10**9), "njobs": 1, "src": "dense"})
    # sessions: ONE PC object answering several estimate() calls, each with the oracle of a different ground truth
    nses = 120 if tier == "quick" else 2500
    for i in range(nses):
        n = rng.choice([3, 4, 4, 5, 5, 6])
        k = rng.randint(2, 4)
        truths = []
        for _ in range(k):
            while True:
                _, edges = common.rand_dag(rng, n, p=rng.choice([0.3, 0.5, 0.7]))
                if len(edges) <= 11:
                    break
            truths.append(edges)
        out.append({"kind": "session", "n": n, "truths": truths, "oseed": rng.randint(0, 10**9)})
    # 9-10 variables (a set of small ints iterates in increasing order only below 8; names of any type)
    # chains and out-trees of threshold sizes (9, 12, 16, 17, 33 nodes): no v-structure, so the CPDAG is the skeleton
    for n in ([9, 12, 17, 33] if tier == "quick" else [9, 10, 11, 12, 15, 16, 17, 24, 25, 31, 32, 33] * 3):
        shape = rng.choice(["chain", "tree"])
        lab = list(range(n))
        rng.shuffle(lab)
        edges = [[lab[i - 1] if shape == "chain" else lab[rng.randrange(i)], lab[i]] for i in range(1, n)]
        out.append({"kind": "big", "n": n, "edges": edges, "oseed": rng.randint(0, 10**9), "shape": shape})
    nbig = 12 if tier == "quick" else 250
    for i in range(nbig):
        n = rng.choice([9, 10])
        while True:
            _, edges = common.rand_dag(rng, n, p=rng.choice([0.1, 0.15, 0.2]))
            if 3 <= len(edges) <= 11:
                break
        out.append({"kind": "big", "n": n, "edges": edges, "oseed": rng.randint(0, 10**9)})
    # sessions on one Independencies object / one PC(independencies=...) object: assertions added between calls
    nis = 40 if tier == "quick" else 800
    for i in range(nis):
        n = rng.choice([3, 4, 4, 5])
        while True:
            _, edges = common.rand_dag(rng, n, p=rng.choice([0.4, 0.6, 0.8]))
            if len(edges) >= 2:
                break
        out.append({"kind": "indsession", "n": n, "edges": edges, "oseed": rng.randint(0, 10**9)})
    ns2p = 1200 if tier == "quick" else 12000
    for i in range(ns2p):
        out.append({"kind": "s2p", "n": rng.randint(3, 7), "oseed": rng.randint(0, 10**9)})
    ntd = 400 if tier == "quick" else 6000
    for i in range(ntd):
        out.append({"kind": "todag", "n": rng.randint(2, 6), "oseed": rng.randint(0, 10**9),
                    "src": rng.choice(["cpdag", "pdag", "pdag", "shielded"])})
    return out


def shrink(case):
    if case["kind"] in ("exh", "rand"):
        for i in range(len(case["edges"])):
            c = dict(case)
            c["edges"] = case["edges"][:i] + case["edges"][i + 1:]
            yield c


# ------------------------------------------------------------------ helpers
def truth_dag(names, n, edges):
    from pgmpy.base import DAG
    g = DAG()
    g.add_nodes_from([fr(x) for x in names[:n]])
    g.add_edges_from([(fr(names[u]), fr(names[v])) for u, v in edges])
    return g


def uset(pairs):
    return sorted({tuple(sorted(p)) for p in pairs})


def aset(arcs):
    return sorted({(int(a), int(b)) for a, b in arcs})


def maxdeg(n, edges):
    d = [0] * n
    for u, v in edges:
        d[u] += 1
        d[v] += 1
    return max(d) if d else 0


class Oracle:
    """callable ci_test: d-separation in the ground truth, memoised; records that it was asked"""

    def __init__(self, g):
        self.g = g
        self.memo = {}
        self.n = 0
        self.kw_seen = None

    def __call__(self, X, Y, Z, **kw):
        self.n += 1
        self.kw_seen = kw
        key = (X, frozenset(Z))
        if key not in self.memo:
            self.memo[key] = self.g.active_trail_nodes(X, observed=list(Z), include_latents=True)[X]
        return Y not in self.memo[key]


def frame(cols, rng=None):
    """a frame whose only role is to name the variables in column order.  With rng: row count 0..3, index RangeIndex /
    shifted / permuted / gapped / duplicate / string labels, dtype int / bool / float / categorical with unused
    categories, values constant or varying."""
    import numpy as np
    import pandas as pd
    if rng is None:
        return pd.DataFrame(np.zeros((2, len(cols)), dtype=int), columns=cols)
    cols = [fr(c) for c in cols]
    ck = rng.choice(["list", "index", "array"])
    if ck == "index":
        cols = pd.Index(cols, dtype=object) if any(isinstance(c, str) for c in cols) else pd.Index(cols)
    elif ck == "array" and all(isinstance(c, str) for c in cols):
        cols = np.array(cols, dtype=object)
    r = rng.choice([0, 1, 2, 3, 3])
    vals = np.array([[rng.randint(0, 1) for _ in cols] for _ in range(r)], dtype=int).reshape(r, len(cols))
    kind = rng.choice(["int", "bool", "float", "cat", "catstr"])
    if kind == "int":
        df = pd.DataFrame(vals, columns=cols)
    elif kind == "bool":
        df = pd.DataFrame(vals.astype(bool), columns=cols)
    elif kind == "float":
        df = pd.DataFrame(vals.astype(float), columns=cols)
    elif kind == "cat":
        df = pd.DataFrame({c: pd.Categorical(list(vals[:, i]), categories=[0, 1, 2, 7]) for i, c in enumerate(cols)},
                          columns=cols)
    else:
        df = pd.DataFrame({c: pd.Categorical([["x", "y"][v] for v in vals[:, i]], categories=["x", "y", "unused"])
                           for i, c in enumerate(cols)}, columns=cols)
    ik = rng.choice(["range", "shift", "perm", "gap", "dup", "str"])
    if r > 0 and ik != "range":
        if ik == "shift":
            df.index = range(5, 5 + r)
        elif ik == "perm":
            ix = list(range(r))
            rng.shuffle(ix)
            df.index = ix
        elif ik == "gap":
            df.index = [3 * i + 1 for i in range(r)]
        elif ik == "dup":
            df.index = [0] * r
        else:
            df.index = ["r%d" % (r - i) for i in range(r)]
    return df


def frame_snapshot(df):
    return (list(df.columns), list(df.index), [list(map(repr, row)) for row in df.values.tolist()], [str(t) for t in df.dtypes])


def model_pc(drv, n, edges, oracle, vi, maxc, vars_, sord):
    E, seps, p = drv.call("c12_pc", [list(range(n)), [list(e) for e in edges], oracle, vi, maxc, vars_, sord])
    seps = {tuple(sorted((u, v))): tuple(S) for u, v, S in seps}
    return uset(E), seps, (aset(p[0]) if p else None)


def pdag_arcs(p, idx):
    return aset((idx[a], idx[b]) for a, b in p.edges())


def check_pc(est, ci_test, names, idx, n, edges, drv, oracle, maxc, vars_, sord, spec, exact, label, njobs=1,
             all_nodes=True, light=False, extra_kw=None, only_variants=None):
    """run the three variants x return types on pgmpy, compare with the model (same orders) and, when the oracle is
    exact for this truth (exact=True), with the specification.  Returns None or a bad(...) outcome."""
    truth_skel = uset(edges)
    for vi, variant in enumerate(VARIANTS):
        if light and vi != (len(edges) % 3):
            continue
        if only_variants is not None and vi not in only_variants:
            continue
        kw = dict(variant=variant, ci_test=ci_test, max_cond_vars=maxc, show_progress=False, n_jobs=njobs)
        if extra_kw:
            kw.update(extra_kw)
        lr = random.Random(repr((label, variant, maxc, vars_, sord, sorted(edges))))
        # documented defaults reached by OMITTING the argument: variant="stable", max_cond_vars=5, return_type="dag"
        if variant == "stable" and lr.random() < 0.5:
            del kw["variant"]
        if maxc >= n and n <= 5 and lr.random() < 0.4:    # default 5 >= n: the level loop ends by the degree test
            del kw["max_cond_vars"]
        if lr.random() < 0.03:
            kw["show_progress"] = True
        case_rt = (lambda t: t) if lr.random() < 0.6 else (lambda t: lr.choice([t.upper(), t.capitalize()]))
        mE, mseps, mp = model_pc(drv, n, edges, oracle, vi, maxc, vars_, sord)
        ctx = {"mode": label, "variant": variant, "maxc": maxc, "vars": vars_, "sord": sord,
               "omitted": sorted(set(["variant", "max_cond_vars"]) - set(kw))}
        # ---- skeleton (through estimate, or through the public build_skeleton it wraps)
        if lr.random() < 0.3:
            bkw = {k: v for k, v in kw.items()}
            sk, sep = est.build_skeleton(**bkw)
            ctx["via"] = "build_skeleton"
        else:
            sk, sep = est.estimate(return_type=case_rt("skeleton"), **kw)
        gE = uset((idx[a], idx[b]) for a, b in sk.edges())
        gnodes = sorted(idx[a] for a in sk.nodes())
        gseps = {tuple(sorted(idx[a] for a in k)): tuple(idx[z] for z in v) for k, v in sep.items()}
        if exact:
            if gE != truth_skel or gnodes != list(range(n)):
                return bad("impl!=spec:skeleton", dict(ctx, impl=gE, truth=truth_skel, nodes=gnodes))
            for (u, v), S in gseps.items():
                if (u, v) in set(truth_skel) or not drv.call("c12_dsep", [list(range(n)), [list(e) for e in edges], u, v, list(S)]):
                    return bad("impl!=spec:separating-set", dict(ctx, pair=[u, v], sep=list(S)))
            if set(gseps) != {p for p in itertools.combinations(range(n), 2)} - set(truth_skel):
                return bad("impl!=spec:separating-set-missing", dict(ctx, have=sorted(gseps)))
        if gE != mE or gseps != mseps:
            return bad("impl!=model:skeleton", dict(ctx, impl=[gE, sorted(gseps.items())], model=[mE, sorted(mseps.items())]))
        if isinstance(ci_test, Oracle) and ci_test.kw_seen is not None:
            kws = ci_test.kw_seen
            want_sl = kw.get("significance_level", 0.01)
            if kws.get("data") is not est.data or kws.get("independencies") is not est.independencies \
                    or kws.get("significance_level") != want_sl:
                return bad("impl!=spec:ci_test-kwargs", dict(ctx, seen=sorted(kws), significance_level=kws.get("significance_level")))
        # result independence: what was returned is the caller's; wrecking it must not reach later answers
        sk.remove_edges_from(list(sk.edges()))
        sk.add_edge("__x__", "__y__")
        sep.clear()
        # ---- pdag / cpdag
        rt = "pdag" if vi != 1 else "cpdag"
        try:
            p = est.estimate(return_type=case_rt(rt), **kw)
            gp = pdag_arcs(p, idx)
        except KeyError:
            p, gp = None, None
        if exact:
            if gp != spec:
                return bad("impl!=spec:cpdag", dict(ctx, impl=gp, spec=spec, truth=edges))
            if all_nodes and sorted(idx[a] for a in p.nodes()) != list(range(n)):
                return bad("impl!=spec:cpdag-nodes", dict(ctx, nodes=sorted(idx[a] for a in p.nodes())))
        if gp != mp:
            return bad("impl!=model:pdag", dict(ctx, impl=gp, model=mp))
        if p is None:
            continue
        # ---- dag: PDAG.to_dag on the returned object (exact, orders observed) and estimate(return_type="dag")
        b = check_to_dag(p, idx, drv, dict(ctx, stage="pc-pdag.to_dag"),
                         truth=(n, edges) if exact else None)
        if b:
            return b
        for nd in list(p.nodes()):       # wreck the returned PDAG
            p.remove_node(nd)
        p.directed_edges.clear()
        p.undirected_edges.clear()
        if lr.random() < 0.5:
            d = est.estimate(**kw)                                # return_type defaults to "dag"
        else:
            d = est.estimate(return_type=case_rt("dag"), **kw)
        gd = aset((idx[a], idx[b]) for a, b in d.edges())
        if exact:
            b = member_check(drv, n, edges, gd, gp, dict(ctx, stage="estimate(dag)"))
            if b:
                return b
            if all_nodes and sorted(idx[a] for a in d.nodes()) != list(range(n)):
                return bad("impl!=spec:dag-nodes", dict(ctx, nodes=sorted(idx[a] for a in d.nodes())))
        d.clear()
    return None


def member_check(drv, n, edges, gd, gp, ctx):
    """gd must be an acyclic member of the truth's Markov equivalence class"""
    if drv.call("c12_member", [list(range(n)), [list(e) for e in edges], [list(e) for e in gd]]):
        return None
    return bad("impl!=spec:dag-not-in-class", dict(ctx, dag=gd, pdag=gp, truth=edges))


def extendable(ns, arcs):
    """brute force: some orientation of the undirected edges is acyclic and has no new unshielded collider"""
    A = set(arcs)
    und = sorted({tuple(sorted(e)) for e in A if (e[1], e[0]) in A})
    dire = [e for e in A if (e[1], e[0]) not in A]
    adj = {frozenset(e) for e in A}
    if len(und) > 12:
        return None
    for bits in itertools.product((0, 1), repeat=len(und)):
        D = set(dire) | {(u, v) if b == 0 else (v, u) for (u, v), b in zip(und, bits)}
        if not acyclic(ns, D):
            continue
        good = True
        for (a, c) in D:
            for (b, c2) in D:
                if c2 == c and a < b and frozenset((a, b)) not in adj:
                    if not ((a, c) in A and (c, a) not in A and (b, c) in A and (c, b) not in A):
                        good = False
        if good:
            return True
    return False


def acyclic(ns, D):
    indeg = {v: 0 for v in ns}
    out = {v: [] for v in ns}
    for u, v in D:
        indeg[v] += 1
        out[u].append(v)
    st = [v for v in ns if indeg[v] == 0]
    seen = 0
    while st:
        u = st.pop()
        seen += 1
        for v in out[u]:
            indeg[v] -= 1
            if indeg[v] == 0:
                st.append(v)
    return seen == len(ns)


def check_to_dag(p, idx, drv, ctx, truth=None):
    """PDAG.to_dag() on object p: equal to the model under the node/arc orders of the copy that to_dag makes; the
    four post-conditions (spec checker) whenever the PDAG is extendable (brute force)"""
    c = p.copy()
    ns = [idx[a] for a in c.nodes()]
    arcs = [(idx[a], idx[b]) for a, b in c.edges()]
    before = (sorted(map(repr, p.nodes())), sorted(map(repr, p.edges())), sorted(map(repr, p.directed_edges)),
              sorted(map(repr, p.undirected_edges)), sorted(map(repr, p.latents)))
    # the copy is the caller's: wrecking it must not reach p
    c.remove_nodes_from(list(c.nodes()))
    c.directed_edges.clear()
    c.undirected_edges.clear()
    d0 = p.to_dag()
    first = (sorted(map(repr, d0.nodes())), sorted(map(repr, d0.edges())))
    d0.remove_nodes_from(list(d0.nodes()))     # wreck the first answer, ask again (documented optional argument given)
    if PROBE_LATENTS_ALIAS:
        d0.latents.add("__x__")
    req = [e for e in p.directed_edges][:1]
    d = p.to_dag(required_edges=req) if (len(arcs) % 2) else p.to_dag()
    if d is d0 or (sorted(map(repr, d.nodes())), sorted(map(repr, d.edges()))) != first:
        return bad("impl!=spec:to_dag-second-call-differs", dict(ctx, first=first, second=sorted(map(repr, d.edges()))))
    after = (sorted(map(repr, p.nodes())), sorted(map(repr, p.edges())), sorted(map(repr, p.directed_edges)),
             sorted(map(repr, p.undirected_edges)), sorted(map(repr, p.latents)))
    if before != after:
        return bad("impl!=spec:to_dag-mutates-pdag", dict(ctx, before=before, after=after))
    if set(map(repr, d.latents)) != set(map(repr, p.latents)):
        return bad("impl!=spec:to_dag-latents", dict(ctx, impl=sorted(map(repr, d.latents)), pdag=sorted(map(repr, p.latents))))
    gd = aset((idx[a], idx[b]) for a, b in d.edges())
    md, fb = drv.call("c12_todag", [True, ns, [list(e) for e in arcs]])
    ctx = dict(ctx, pdag_nodes=ns, pdag_arcs=arcs)
    if sorted(idx[a] for a in d.nodes()) != sorted(idx[a] for a in p.nodes()):
        return bad("impl!=spec:to_dag-nodes", dict(ctx, impl=sorted(idx[a] for a in d.nodes())))
    ext = True if truth is not None else extendable(sorted(ns), arcs)
    if ext:
        okc = drv.call("c12_cext", [sorted(ns), [list(e) for e in arcs], [list(e) for e in gd]])
        if okc and truth is not None:
            okc = drv.call("c12_member", [list(range(truth[0])), [list(e) for e in truth[1]], [list(e) for e in gd]])
        if not okc:
            return bad("impl!=spec:to_dag-not-consistent-extension", dict(ctx, dag=gd, fallback=fb))
        if fb and gd == aset(md):
            return bad("impl!=spec:to_dag-fallback-on-extendable", dict(ctx, dag=gd))
    elif ext is False and not fb:
        # the proved invariant (C12_to_dag_invariants): no fallback => consistent extension => extendable
        return bad("model!=spec:no-fallback-on-non-extendable", dict(ctx, dag=gd))
    if gd != aset(md):
        return bad("impl!=model:to_dag", dict(ctx, impl=gd, model=aset(md), fallback=fb))
    return None


# ------------------------------------------------------------------ exhaustive / random ground truths
def run_truth(case, drv):
    from pgmpy.estimators import PC
    from pgmpy.independencies import Independencies
    n, edges = case["n"], [tuple(e) for e in case["edges"]]
    rng = random.Random(case["oseed"])
    light = case.get("light", False)
    tags = ["%s n=%d" % (case["kind"], n), "edges=%d" % len(edges)]
    if case.get("src"):
        tags.append("src=" + case["src"])
    spec = None
    if n <= 5:
        sp, imv, imx = drv.call("c12_spec", [list(range(n)), [list(e) for e in edges]])
        spec = aset(sp)
    md = maxdeg(n, edges)

    # (ii) callable oracle, string names: variable order = column order, set order = slot order
    names, sord = pick_names(rng, n)
    idx = {nm: i for i, nm in enumerate(names)}
    g = truth_dag(names, n, edges)
    orc = Oracle(g)
    if n <= 5:
        prs = list(itertools.permutations(range(n), 2))
        if light:
            prs = rng.sample(prs, 4)
        for x, y in prs:   # oracle cross-check against the model's d-separation
            for Z in ([], [z for z in range(n) if z not in (x, y)][:1], [z for z in range(n) if z not in (x, y)]):
                if orc(names[x], names[y], [names[z] for z in Z]) != drv.call("c12_dsep", [list(range(n)), [list(e) for e in edges], x, y, Z]):
                    return bad("oracle!=model:dsep", {"x": x, "y": y, "Z": Z})
    if spec is None:   # larger truths: the model under the same orders supplies the expected CPDAG; checked by class membership below
        pass
    vars_ = list(range(n))
    if not case.get("ident"):
        rng.shuffle(vars_)
    df = frame([names[i] for i in vars_], rng)
    df_snap = frame_snapshot(df)
    est = PC(data=df)
    if [idx[v] for v in est.variables] != vars_:
        return bad("impl!=spec:variables-order", {"impl": [idx[v] for v in est.variables], "columns": vars_})
    maxcs = [n] if (light or case["kind"] == "rand" or str(case.get("src", "")).startswith("motif5")) else sorted({n, md, max(md - 1, 0), 0}, reverse=True)
    for maxc in maxcs:
        exact = maxc >= md
        sp_ = spec
        if spec is None and exact:
            if len(edges) <= 11:     # independent: the specification's CPDAG by enumeration (extracted Spec.cpdag_arcs)
                sp_ = aset(drv.call("c12_cpdag", [list(range(n)), [list(e) for e in edges]]))
                tags.append("n>5:spec-by-enumeration")
            else:                    # too many orientations to enumerate: the model under the identity orders
                sp_ = model_pc(drv, n, edges, 0, 1, maxc, list(range(n)), list(range(n)))[2]
                tags.append("n>5:spec-by-model-other-order")
        b = check_pc(est, orc, names, idx, n, edges, drv, 0, maxc, vars_, sord, sp_, exact,
                     "data+callable", njobs=case.get("njobs", 1), light=False)
        if b:
            return b
        tags.append("maxc-" + ("exact" if exact else "too-small"))
    if orc.n == 0 and n > 1:
        return bad("harness:oracle-never-called", {})
    if frame_snapshot(df) != df_snap:
        return bad("impl!=spec:data-frame-mutated", {"before": df_snap, "after": frame_snapshot(df)})
    tags.append("data+callable/str")
    tags += ["frame rows=%d" % len(df), "frame dtype=%s" % (df_snap[3][0] if df_snap[3] else "-"),
             "frame index=%s" % ("range" if list(df.index) == list(range(len(df))) else "other")]

    # (ii'') names whose set-iteration order is not modelled (mixed int / str / float, one name a prefix of another,
    # names that do not sort against each other): results that do not depend on that order are compared with the spec
    if not light and n >= 3 and rng.random() < 0.3:
        b = spec_only_route(case, drv, rng, n, edges, spec, tags)
        if b:
            return b

    # (ii') callable oracle, integer column names (sets of small ints iterate ascending)
    if not light or rng.random() < 0.3:
        inames = list(range(n))
        gi = truth_dag(inames, n, edges)
        vars2 = list(range(n))
        if not case.get("ident"):
            rng.shuffle(vars2)
        b = check_pc(PC(data=frame(vars2, rng)), Oracle(gi), inames, {i: i for i in range(n)}, n, edges, drv, 0, n, vars2,
                     list(range(n)), spec if spec is not None else sp_, True, "data+callable/int", light=True)
        if b:
            return b
        tags.append("data+callable/int")
    if n > 5 or n < 2:
        return ok(nontrivial=len(edges) > 0, tags=tags,
                  key=common.canon_key([case["kind"], n, sorted(edges), vars_, sord, "hs"]))

    # (i') independence_match over the pairwise-complete list
    if not light or rng.random() < 0.3:
        names2, sord2 = pick_names(rng, n)
        idx2 = {nm: i for i, nm in enumerate(names2)}
        g2 = truth_dag(names2, n, edges)
        o2 = Oracle(g2)
        asserts = []
        for x, y in itertools.combinations(range(n), 2):
            rest = [z for z in range(n) if z not in (x, y)]
            for r in range(len(rest) + 1):
                for Z in itertools.combinations(rest, r):
                    if o2(names2[x], names2[y], [names2[z] for z in Z]):
                        asserts.append([fr(names2[x]), fr(names2[y]), rng.choice([list, tuple, set, frozenset])(fr(names2[z]) for z in Z)])
        ind = Independencies(*asserts)
        present = sorted(idx2[v] for v in ind.get_all_variables())
        if present == list(range(n)):
            e2 = PC(independencies=ind)
            v2 = [idx2[v] for v in e2.variables]
            if v2 != sord2:
                return bad("harness:variables-order", {"vars": v2, "sord": sord2})
            from pgmpy.estimators.CITests import independence_match as im_fun
            ind_snap = [(sorted(a.event1), sorted(a.event2), sorted(a.event3)) for a in ind.get_assertions()]
            b = check_pc(e2, im_fun if rng.random() < 0.5 else "independence_match",
                         names2, idx2, n, edges, drv, 0, n, v2, sord2, spec, True,
                         "ind-pairwise", all_nodes=False, light=light)
            if b:
                return b
            if ind_snap != [(sorted(a.event1), sorted(a.event2), sorted(a.event3)) for a in ind.get_assertions()]:
                return bad("impl!=spec:independencies-mutated", {"n": n, "truth": edges})
            tags.append("ind-pairwise")
        else:
            # PC takes its variable set from the assertions when no data is given: a node occurring in no
            # assertion cannot be known to it (API limitation) - outside the domain of this route
            tags.append("ind-pairwise:out-of-domain")

    # (i) independence_match over the literal get_independencies() list.  That list holds maximal assertions
    # (X _|_ {Y,W} | Z) and independence_match is a syntactic lookup, so it answers exactly only for some truths
    # (model: im_exact).  pgmpy must agree with the model of that oracle on every truth; the specification is
    # required only where the oracle is exact.
    if not light or rng.random() < 0.3:
        names3, sord3 = pick_names(rng, n)
        idx3 = {nm: i for i, nm in enumerate(names3)}
        g3 = truth_dag(names3, n, edges)
        ind3 = g3.get_independencies()
        present = sorted(idx3[v] for v in ind3.get_all_variables())
        if present != sorted(imv):
            return bad("impl!=model:get_all_variables", {"impl": present, "model": sorted(imv)})
        e3 = PC(independencies=ind3)
        v3 = [idx3[v] for v in e3.variables]
        if v3 != [i for i in sord3 if i in present]:
            return bad("harness:variables-order", {"vars": v3, "sord": sord3})
        if imx:
            b = check_pc(e3, "independence_match", names3, idx3, n, edges, drv, 1, n, v3, sord3, spec, True,
                         "ind-literal", all_nodes=False, light=light)
            if b:
                return b
            tags.append("ind-literal:exact")
        else:
            tags.append("ind-literal:inexact(out-of-domain, model only)")
            b = inexact_literal(e3, names3, idx3, n, edges, drv, v3, sord3, spec)
            if b:
                return b
    return ok(nontrivial=len(edges) > 0, tags=tags,
              key=common.canon_key([case["kind"], n, sorted(edges), vars_, sord, case.get("hashseed")]))


def odd_names(rng, n):
    """names outside the modelled set order: ints (also >= 8), floats, strings with prefix / keyword relations, mixed"""
    pool = [0, 1, 7, 8, 9, 10, 31, 32, 2.5, -1, "x", "x1", "x10", "x11", "X", "None", "data", "Z", "ci_test", "0", "1",
            "", "a b", "é", 1000003]
    style = rng.choice(["mixed", "str", "int"])
    if style == "str":
        pool = [v for v in pool if isinstance(v, str)] + ["n%d" % i for i in range(40)]
    elif style == "int":
        pool = list(range(0, 40)) + [255, 256, 257, 1000, 70000, 2**24 + 1]
    else:
        pool = pool + ["v%d" % i for i in range(20)] + list(range(100, 112))
    rng.shuffle(pool)
    out = []
    for v in pool:
        if all(not (v == w) for w in out):     # 1 == 1.0 == True would collapse
            out.append(v)
        if len(out) == n:
            break
    return out, style


def spec_only_route(case, drv, rng, n, edges, spec, tags):
    """PC(data=frame) with a callable oracle under names whose set order the model does not know: skeleton, separating
    sets (valid, complete), CPDAG and DAG membership against the specification; PDAG.to_dag with observed orders"""
    from pgmpy.estimators import PC
    names, style = odd_names(rng, n)
    idx = {}
    for i, nm in enumerate(names):
        idx[nm] = i
    g = truth_dag(names, n, edges)
    cols = list(names)
    rng.shuffle(cols)
    est = PC(data=frame(cols, rng))
    orc = Oracle(g)
    nodes_l, edges_l = list(range(n)), [list(e) for e in edges]
    if spec is None and len(edges) <= 11:
        spec = aset(drv.call("c12_cpdag", [nodes_l, edges_l]))
    truth_skel = uset(edges)
    ctx0 = {"mode": "data+callable/odd-names:" + style, "names": [repr(x) for x in names]}
    for variant in rng.sample(VARIANTS, 2 if n <= 6 else 1):
        ctx = dict(ctx0, variant=variant)
        kw = dict(variant=variant, ci_test=orc, max_cond_vars=n, show_progress=False, n_jobs=1)
        sk, sep = est.estimate(return_type="skeleton", **kw)
        gE = uset((idx[a], idx[b]) for a, b in sk.edges())
        if gE != truth_skel or sorted(idx[a] for a in sk.nodes()) != nodes_l:
            return bad("impl!=spec:skeleton", dict(ctx, impl=gE, truth=truth_skel))
        gseps = {tuple(sorted(idx[a] for a in k)): [idx[z] for z in v] for k, v in sep.items()}
        for (u, v), S in gseps.items():
            if (u, v) in set(truth_skel) or u in S or v in S or not drv.call("c12_dsep", [nodes_l, edges_l, u, v, S]):
                return bad("impl!=spec:separating-set", dict(ctx, pair=[u, v], sep=S))
        if set(gseps) != set(itertools.combinations(range(n), 2)) - set(truth_skel):
            return bad("impl!=spec:separating-set-missing", dict(ctx, have=sorted(gseps)))
        p = est.estimate(return_type="cpdag", **kw)
        gp = pdag_arcs(p, idx)
        if spec is not None and gp != spec:
            return bad("impl!=spec:cpdag", dict(ctx, impl=gp, spec=spec, truth=edges))
        if sorted(idx[a] for a in p.nodes()) != nodes_l:
            return bad("impl!=spec:cpdag-nodes", dict(ctx, nodes=sorted(idx[a] for a in p.nodes())))
        b = check_to_dag(p, idx, drv, dict(ctx, stage="pc-pdag.to_dag"), truth=(n, edges))
        if b:
            return b
        d = est.estimate(return_type="dag", **kw)
        b = member_check(drv, n, edges, aset((idx[a], idx[b_]) for a, b_ in d.edges()), gp, dict(ctx, stage="estimate(dag)"))
        if b:
            return b
    tags.append("odd-names:" + style)
    return None


def inexact_literal(est, names, idx, n, edges, drv, vars_, sord, spec):
    """get_independencies() does not answer exactly for this truth (model: im_exact = false): outside the property's
    premise; pgmpy must still agree with the model of independence_match over that list"""
    for vi, variant in enumerate(VARIANTS):
        mE, mseps, mp = model_pc(drv, n, edges, 1, vi, n, vars_, sord)
        kw = dict(variant=variant, ci_test="independence_match", max_cond_vars=n, show_progress=False, n_jobs=1)
        sk, sep = est.estimate(return_type="skeleton", **kw)
        gE = uset((idx[a], idx[b]) for a, b in sk.edges())
        gseps = {tuple(sorted(idx[a] for a in k)): tuple(idx[z] for z in v) for k, v in sep.items()}
        ctx = {"mode": "ind-literal", "variant": variant, "vars": vars_, "sord": sord, "truth": edges}
        if gE != mE or gseps != mseps:
            return bad("impl!=model:skeleton", dict(ctx, impl=[gE, sorted(gseps.items())], model=[mE, sorted(mseps.items())]))
        try:
            gp = pdag_arcs(est.estimate(return_type="pdag", **kw), idx)
        except KeyError:
            gp = None
        if gp != mp:
            return bad("impl!=model:pdag", dict(ctx, impl=gp, model=mp))
    return None


# ------------------------------------------------------------------ skeleton_to_pdag on arbitrary inputs
def run_s2p(case, drv):
    import networkx as nx
    from pgmpy.estimators import PC
    rng = random.Random(case["oseed"])
    n = case["n"]
    names, sord = pick_names(rng, n)
    idx = {nm: i for i, nm in enumerate(names)}
    vars_ = list(range(n))
    rng.shuffle(vars_)
    p = rng.choice([0.3, 0.5, 0.7])
    sk = nx.Graph()
    sk.add_nodes_from([fr(names[i]) for i in vars_])
    E = []
    for u, v in itertools.combinations(vars_, 2):
        if rng.random() < p:
            E.append((u, v))
            sk.add_edge(fr(names[u]), fr(names[v]))
    seps, sepd = [], {}
    for u, v in itertools.combinations(range(n), 2):
        if (u, v) in E or (v, u) in E:
            continue
        if rng.random() < 0.08:
            continue   # missing entry: KeyError if the pair has a common neighbour
        rest = [z for z in range(n) if z not in (u, v)]
        S = [z for z in rest if rng.random() < 0.4]
        seps.append([u, v, S])
        sepd[frozenset((fr(names[u]), fr(names[v])))] = rng.choice([tuple, list, set, frozenset])(fr(names[z]) for z in S)
    snap = (list(sk.nodes()), sorted(map(sorted, sk.edges())), dict(sepd))
    try:
        g = pdag_arcs(PC.skeleton_to_pdag(sk, sepd), idx)
    except KeyError:
        g = None
    m = drv.call("c12_s2p", [vars_, sord, [list(e) for e in E], seps])
    m = aset(m[0]) if m else None
    if g != m:
        return bad("impl!=model:skeleton_to_pdag", {"vars": vars_, "sord": sord, "E": E, "seps": seps, "impl": g, "model": m})
    if snap != (list(sk.nodes()), sorted(map(sorted, sk.edges())), dict(sepd)):
        return bad("impl!=spec:skeleton_to_pdag-mutates-arguments", {"E": E, "seps": seps})
    # second call with the SAME skeleton object and other separating sets (all conditioning on everything else)
    seps2 = [[u, v, [z for z in range(n) if z not in (u, v)]] for u, v, _ in seps]
    sepd2 = {frozenset((names[u], names[v])): tuple(names[z] for z in S) for u, v, S in seps2}
    try:
        g2 = pdag_arcs(PC.skeleton_to_pdag(sk, sepd2), idx)
    except KeyError:
        g2 = None
    m2 = drv.call("c12_s2p", [vars_, sord, [list(e) for e in E], seps2])
    m2 = aset(m2[0]) if m2 else None
    if g2 != m2:
        return bad("impl!=model:skeleton_to_pdag-second-call", {"vars": vars_, "sord": sord, "E": E, "seps": seps2, "impl": g2, "model": m2})
    ndir = 0 if g is None else sum(1 for (a, b) in g if (b, a) not in set(g))
    return ok(nontrivial=len(E) > 0, key=common.canon_key(["s2p", vars_, sord, E, seps]),
              tags=["s2p n=%d" % n, "keyerror" if g is None else ("directed>0" if ndir else "directed=0")])


# ------------------------------------------------------------------ PDAG.to_dag on CPDAGs and arbitrary PDAGs
def run_todag(case, drv):
    from pgmpy.base import PDAG
    rng = random.Random(case["oseed"])
    n = case["n"]
    names, _ = pick_names(rng, n)
    idx = {nm: i for i, nm in enumerate(names)}
    src = case["src"]
    if src == "cpdag":
        _, edges = common.rand_dag(rng, n)
        arcs = aset(drv.call("c12_spec", [list(range(n)), [list(e) for e in edges]])[0])
    elif src == "shielded":
        # common directed parents over an undirected chain component: the class of inputs behind the repaired defect 6ec15dd
        k = rng.randint(1, 2)
        m = max(2, n - k)
        par = list(range(k))
        comp = list(range(k, k + m))
        arcs = [(p_, c) for p_ in par for c in comp]
        for a, b in zip(comp, comp[1:]):
            arcs += [(a, b), (b, a)]
        if rng.random() < 0.5 and len(comp) > 2:
            arcs += [(comp[0], comp[2]), (comp[2], comp[0])]
        n = k + m
        names, _ = pick_names(rng, n)
        idx = {nm: i for i, nm in enumerate(names)}
        arcs = aset(arcs)
    else:
        arcs = []
        order = list(range(n))
        rng.shuffle(order)
        pe = rng.choice([0.3, 0.5, 0.8])
        for i in range(n):
            for j in range(i + 1, n):
                if rng.random() < pe:
                    r = rng.random()
                    u, v = order[i], order[j]
                    if r < 0.45:
                        arcs += [(u, v), (v, u)]
                    elif r < 0.95:
                        arcs.append((u, v))
                    else:
                        arcs.append((v, u))   # may close a directed cycle
        arcs = aset(arcs)
    A = set(arcs)
    dire = [(a, b) for (a, b) in arcs if (b, a) not in A]
    und = [(a, b) for (a, b) in arcs if (b, a) in A and a < b]
    rng.shuffle(dire)
    rng.shuffle(und)
    und = [(a, b) if rng.random() < 0.5 else (b, a) for a, b in und]
    de = [(fr(names[a]), fr(names[b])) for a, b in dire]
    ue = [(fr(names[a]), fr(names[b])) for a, b in und]
    de0, ue0 = list(de), list(ue)
    used = sorted({x for e in arcs for x in e})
    lat = [fr(names[x]) for x in used if rng.random() < 0.2] if rng.random() < 0.4 else []
    lat_expected = sorted(map(repr, lat))
    lat = rng.choice([list, tuple, set, frozenset, iter, (lambda l: (x for x in l))])(lat)
    p = PDAG(directed_ebunch=de, undirected_ebunch=ue, latents=lat) if (lat or rng.random() < 0.5) \
        else PDAG(de, ue)
    if sorted(map(repr, p.latents)) != lat_expected:
        return bad("impl!=spec:PDAG-latents", {"expected": lat_expected, "impl": sorted(map(repr, p.latents))})
    if (de, ue) != (de0, ue0):
        return bad("impl!=spec:PDAG-mutates-arguments", {"directed": de0, "undirected": ue0})
    iso = [nm for nm in names if idx[nm] not in used and rng.random() < 0.7]
    p.add_nodes_from(iso)                        # isolated nodes, as estimate() adds the remaining data columns
    b = check_to_dag(p, idx, drv, {"stage": "to_dag", "src": src, "isolated": [idx[x] for x in iso]})
    if b:
        return b
    # the same ebunch lists reused for a second, reversed, object: the first object is unaffected
    p2 = PDAG(directed_ebunch=de[::-1], undirected_ebunch=ue[::-1])
    de.clear()
    ue.clear()
    b = check_to_dag(p2, idx, drv, {"stage": "to_dag second object", "src": src})
    if b:
        return b
    b = check_to_dag(p, idx, drv, {"stage": "to_dag after the argument lists were cleared", "src": src})
    if b:
        return b
    ns = sorted({x for e in arcs for x in e})
    ext = extendable(ns, arcs)
    fb = drv.call("c12_todag", [True, [idx[a] for a in p.copy().nodes()], [[idx[a], idx[b_]] for a, b_ in p.copy().edges()]])[1]
    return ok(nontrivial=len(arcs) > 0, key=common.canon_key(["todag", arcs, case["oseed"]]),
              tags=["todag src=" + src, "extendable=%s" % ext, "fallback=%s" % bool(fb), "undirected=%d" % len(und)])


def make_oracle(g):
    """factory: every oracle it returns is a plain function with the SAME __name__ (ci), answering by d-separation
    in its own ground truth"""
    memo = {}

    def ci(X, Y, Z, **kw):
        key = (X, frozenset(Z))
        if key not in memo:
            memo[key] = g.active_trail_nodes(X, observed=list(Z), include_latents=True)[X]
        return Y not in memo[key]

    return ci


def run_session(case, drv):
    """one PC(data) object, 2-4 ground truths on the same columns: for each truth the three return types under
    1-3 variants with that truth's oracle (same factory => same __name__), max_cond_vars and significance_level
    varied; every answer must be the one for ITS truth (model with the same orders; spec when max_cond_vars is
    large enough).  The modelled estimate() has no state across calls (coq/C12/Session.v)."""
    from pgmpy.estimators import PC
    rng = random.Random(case["oseed"])
    n = case["n"]
    names, sord = pick_names(rng, n)
    idx = {nm: i for i, nm in enumerate(names)}
    vars_ = list(range(n))
    rng.shuffle(vars_)
    est = PC(data=frame([names[i] for i in vars_], rng))
    tags = ["session n=%d" % n, "session calls=%d" % len(case["truths"])]
    for ti, edges in enumerate(case["truths"]):
        edges = [tuple(e) for e in edges]
        g = truth_dag(names, n, edges)
        if ti > 0:
            # a call that must be rejected (the invalid argument is not the first one), then business as usual
            o_rej = make_oracle(g)
            which = rng.choice(["variant", "return_type", "ci_test", "independence_match-without-independencies"])
            rkw = dict(variant="stable", ci_test=o_rej, max_cond_vars=n, return_type="pdag", show_progress=False, n_jobs=1)
            if which == "variant":
                rkw["variant"] = rng.choice(["Stable", "pc", "", "parallel "])
            elif which == "return_type":
                rkw["return_type"] = rng.choice(["graph", "", "dags"])
            elif which == "ci_test":
                rkw["ci_test"] = rng.choice(["d_separation", "oracle"])
            else:
                rkw["ci_test"] = "independence_match"
            try:
                est.estimate(**rkw)
                return bad("impl!=spec:rejected-call-accepted", {"which": which, "kwargs": {k: repr(v) for k, v in rkw.items()}})
            except ValueError:
                tags.append("rejected:" + which)
        md = maxdeg(n, edges)
        maxc = rng.choice([n, n, md, max(md - 1, 0)])
        exact = maxc >= md
        spec = None
        if exact:
            spec = aset(drv.call("c12_cpdag", [list(range(n)), [list(e) for e in edges]]))
        sl = rng.choice([0.01, 0.01, 0.05])
        vs = rng.sample([0, 1, 2], rng.randint(1, 3))
        b = check_pc(est, make_oracle(g), names, idx, n, edges, drv, 0, maxc, vars_, sord, spec, exact,
                     "session call-group %d" % ti, extra_kw={"significance_level": sl}, only_variants=vs)
        if b:
            b["detail"]["session_truths"] = case["truths"]
            return b
        tags.append("session maxc-" + ("exact" if exact else "too-small"))
    return ok(nontrivial=any(len(t) > 0 for t in case["truths"]), tags=tags,
              key=common.canon_key(["session", n, case["truths"], vars_, sord]))


def run_big(case, drv):
    n, edges = case["n"], [tuple(e) for e in case["edges"]]
    rng = random.Random(case["oseed"])
    tags = ["big n=%d" % n, "edges=%d" % len(edges)]
    spec = None
    if case.get("shape"):       # every node has at most one parent: the whole class is reversible
        spec = aset([(u, v) for u, v in edges] + [(v, u) for u, v in edges])
        tags.append("shape=" + case["shape"])
    b = spec_only_route(case, drv, rng, n, edges, spec, tags)
    if b:
        return b
    return ok(nontrivial=True, tags=tags, key=common.canon_key(["big", n, sorted(edges), case["oseed"]]))


def pairwise_assertions(o, names, n):
    out = []
    for x, y in itertools.combinations(range(n), 2):
        rest = [z for z in range(n) if z not in (x, y)]
        for r in range(len(rest) + 1):
            for Z in itertools.combinations(rest, r):
                if o(names[x], names[y], [names[z] for z in Z]):
                    out.append((x, y, Z))
    return out


def run_indsession(case, drv):
    """ONE Independencies object and ONE PC(independencies=it) object.  The truth loses one edge at a time (a
    sub-DAG has every independence of the DAG and more), the new assertions are ADDED to the same object between
    the estimate() calls; every answer must be exact for the CURRENT list (= a freshly built object)."""
    from pgmpy.estimators import PC
    from pgmpy.independencies import Independencies
    rng = random.Random(case["oseed"])
    n = case["n"]
    edges = [tuple(e) for e in case["edges"]]
    names, sord = pick_names(rng, n)
    idx = {nm: i for i, nm in enumerate(names)}
    ind = Independencies()
    est = None
    have = set()
    steps = 0
    tags = ["indsession n=%d" % n]
    while True:
        g = truth_dag(names, n, edges)
        cur = pairwise_assertions(Oracle(g), names, n)
        new = [a for a in cur if a not in have]
        if not set(have) <= set(cur):
            return bad("harness:sub-DAG-lost-an-independence", {"edges": edges})
        rng.shuffle(new)
        ind.add_assertions(*[[fr(names[x]), fr(names[y]), rng.choice([list, tuple, set])(fr(names[z]) for z in Z)] if rng.random() < 0.5
                             else (fr(names[y]), fr(names[x]), [fr(names[z]) for z in reversed(Z)]) for x, y, Z in new])
        have |= set(new)
        present = sorted(idx[v] for v in ind.get_all_variables())
        if present == list(range(n)):
            if est is None or rng.random() < 0.3:
                est = PC(independencies=ind)          # sometimes a new estimator on the SAME, grown, list
            if sorted(idx[v] for v in est.variables) == list(range(n)):
                v2 = [idx[v] for v in est.variables]
                spec = aset(drv.call("c12_cpdag", [list(range(n)), [list(e) for e in edges]]))
                b = check_pc(est, "independence_match", names, idx, n, edges, drv, 0, n, v2, sord, spec, True,
                             "ind-session step %d" % steps, all_nodes=False, only_variants=rng.sample([0, 1, 2], 2))
                if b:
                    return b
                steps += 1
            else:
                est = None      # the estimator took its variables from the shorter list: API limitation, start again
        if not edges or steps >= 3:
            break
        edges = list(edges)
        edges.pop(rng.randrange(len(edges)))
    tags.append("indsession steps=%d" % steps)
    return ok(nontrivial=steps > 0, tags=tags, key=common.canon_key(["indsession", n, case["edges"], case["oseed"]]))


def run_case(case, drv):
    if case["kind"] == "session":
        return run_session(case, drv)
    if case["kind"] == "big":
        return run_big(case, drv)
    if case["kind"] == "indsession":
        return run_indsession(case, drv)
    if case["kind"] in ("exh", "rand"):
        return run_truth(case, drv)
    if case["kind"] == "s2p":
        return run_s2p(case, drv)
    return run_todag(case, drv)
