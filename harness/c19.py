"""C19 correspondence: pgmpy.estimators.CITests (power-divergence family, pearsonr) vs the Coq model
(coq/C19/Model.v).  The model returns the statistic as a formal sum of PHI(lambda, o, e) atoms (sorted
list of exact rational cells), the degrees of freedom, and the kind of p-value term; this module
evaluates PHI with scipy.stats.power_divergence's formula and the p-value with scipy.stats.chi2 in
floating point and compares with what pgmpy returns.  Metamorphic relations of the property text are
checked on pgmpy itself as well."""
import math
import random
from fractions import Fraction

from harness import common
from harness.common import ok, bad

PROP = "C19"
LEVEL = "proof"
HASHSEEDS = {"quick": [0, 1], "thorough": [0, 1, 2, 3]}
BUDGET_S = {"quick": 110, "thorough": 1200}
EXHAUSTIVE = {"quick": False, "thorough": False}
RULE = ("random discrete frames: 1..80 rows, 2+|Z| (+1 spare) columns, |Z| 0..3, cardinalities 2..4, integer or "
        "Categorical columns (Categoricals may declare unobserved levels), generating laws: uniform / X,Y depend "
        "on Z / Y copies X / skewed, so that sparse strata, empty cells, single-level strata and 2x2 (Yates) tables "
        "occur; every wrapper, every lambda_ name, numeric lambda_ (1, 0, -1, -2, -1/2, 2/3, 1/2, 3/2, -3/2, 2, 3), None; "
        "alpha in {0, .01, .05, .1, .5, .9, 1}; boolean True and False.  Exactly independent tables (product "
        "counts per stratum, incl. single-level strata).  Rejection stream (X or Y in Z, unobserved Categorical "
        "level in the unconditional table, documented lambda_ name).  pearsonr: 4..24 rows of dyadic values, "
        "|Z| 0..3, optional duplicated/constant Z column (rank deficient), conditioning columns of clearly different "
        "means and scales (half of the |Z|>=2 cases), shift and positive rescaling of every variable, per-column "
        "centring/standardising of Z.  Numeric lambda_ grid {0, 0.0, -0.0, 1, -1, -1.0, -2, 2/3, 0.5} (python int and "
        "float) x {no Z, Z} on frames with dof >= 1.  Same-frame sessions: ONE DataFrame object, 2-4 tests with the same "
        "or a different Z, with in-place edits in between (replace a column, .loc edits, in-place stable sort, in-place "
        "row permutation, new column); every answer is compared with the model on the frame's current content and with "
        "the answer on a fresh copy.  pearsonr extreme unit changes: X, Y by {1e-12,1e-9,3e-9,1e-6,1e6,1e9}, Z columns "
        "by {1e-9,3e-9,1e-6,1e6,1e9} (coefficient 1e-7, verdict equal); exactly constant X or Y (NaN, verdict False).  "
        "Index stream: the same rows under RangeIndex / permuted / gapped / duplicate labels (bootstrap and concat style) / "
        "string / duplicate string / float / datetime / MultiIndex (unique and duplicate) - all kinds on dedicated cases, two "
        "kinds (one with duplicates) on every other discrete and pearsonr case; the answer must not change.  Conditioning "
        "stream (pearson_big): offsets up to 1e9 x spread and units 1e-8..1e8 per column applied in floats; oracle = the "
        "model's exact partial correlation of the floats as given, tolerance 256*eps*n*max|mean|/spread*(spread/residual spread)^2.  "
        "Generalisation classes (notes/GENERALISATION_CHECKLIST.md): A sessions on one DataFrame object for the discrete "
        "tests and (psession) for pearsonr; B the frame is compared with a deep snapshot after the calls (values, dtypes, "
        "index, columns), also after rejected calls and after PC.build_skeleton; C not applicable (results are tuples of "
        "floats / bools); D index stream incl. shifted RangeIndex, frames obtained by FILTERING a larger frame (gapped index, "
        "Categorical levels unused by filtering), integer columns as int/int8/Int64/bool/float/near-equal floats/object "
        "str/str/tuple objects, constant columns, column order; pearsonr frames as int64/int32 dtype; E name sets with "
        "prefixes (x1/x10), pandas keywords (index, level_0, size, count, values), blank/empty names, integer names (on "
        "frames without Categoricals) - tuple and bool column names are rejected by pandas' .loc/groupby on the unchanged "
        "tree and are not generated; F state labels that are not positions, bools, labels shared across columns; G |Z| = 5 "
        "and 9, constant (cardinality-1) X/Y/Z, frames of 1500-3000 rows, alpha = int 0 / 1, numeric lambda_ 0 - empty "
        "frames and NaN are outside the model (ASSUMPTIONS); H pearsonr units 1e-300..1e300 on every column, offsets to "
        "1e9 x spread, nearly collinear conditioning columns (2^-10..2^-30), discrete float labels differing by 1 ulp; "
        "I not applicable (no backend switch in CITests); J boolean given / omitted (default True), keyword / positional / "
        "PC's own call form (positional, tuple Z, independencies=None), Z as list/tuple/set/frozenset/ndarray/Index/"
        "iterator/dict_keys, every lambda_ form; the PC route: PC.build_skeleton(ci_test=<name>) for all six names x "
        "variants orig/stable/parallel on 2 and 3 variables, with significance levels placed strictly between the five "
        "tests' p-values so that a mis-dispatched name changes the skeleton; K X/Y in Z, Z not iterable, missing "
        "column, missing significance_level, non-DataFrame data, unobserved Categorical level without Z, followed by a "
        "valid call on the same frame; L row order, Z order (incl. set-valued Z), X/Y swap, column order, 2/4 hash seeds.  N every name (and lambda_ name / number) handed to a test is rebuilt at call time into an equal "
        "but not identical object, integer names above 256; O Z additionally as generator / map / filter (a bare string "
        "is not a documented form of Z and is not generated); P 9 / 17 levels, 64 / 65 / 129 / 257 rows, row counts 8 / 9 / "
        "16 / 17 / 32 / 33, more than 256 strata, integer codes above 2^24, pearsonr with 8 / 9 conditioning columns; "
        "Q not applicable (no probability tables are passed) - its analogue here, exactly collinear NON-constant "
        "conditioning columns (all k one-hot dummies, a total next to its parts, an affine copy), is generated for "
        "pearsonr; R Z container x call form x dtype x name set x index kind are drawn independently per case and per "
        "session step, sessions run on frames with duplicate / string / MultiIndex labels.  A discrete case is non-trivial when the model's dof >= 1; a pearsonr case when the residual "
        "correlation is defined.  distinct = distinct canonical (kind, data, X, Y, Z, wrapper, lambda_, alpha)")
TRUSTED_BASE = [
    "scipy.stats.chi2_contingency / power_divergence cell formula (PHI is an uninterpreted atom; the harness "
    "evaluates it with an independent re-implementation of scipy's formula), scipy.stats.chi2.sf/cdf",
    "numpy.linalg.lstsq (characterised by the normal equations; the model's exact solution is checked against "
    "them inside the model at run time), scipy.stats.pearsonr p-value (evaluated here via the t distribution)",
    "pandas groupby/unstack, numpy unique/bincount (modelled by counting functions)",
]
ASSUMPTIONS = [
    "column values and names are interned to nat by the harness; float rounding is not modelled "
    "(statistic compared to 1e-9 relative, p-value to 1e-9 absolute, residuals to 1e-7)",
    "data frames are non-empty and contain no NaN; float32 columns are not generated (the 1e-9 tolerances assume float64)",
    "pandas limitations on the unchanged tree that are not pgmpy's: tuple / bool column names (KeyError in .loc/groupby), a key "
    "list whose length equals the number of rows and contains a non-column is read by groupby as per-row labels",
]

WRAPPERS = ["chi_square", "g_sq", "log_likelihood", "modified_log_likelihood", "power_divergence_default",
            "power_divergence"]
LNAMES = ["pearson", "log-likelihood", "freeman-tukey", "mod-log-likelihood", "neyman", "cressie-read"]
NUM_LAMBDAS = [1.0, 0.0, -1.0, -2.0, -0.5, 2.0 / 3.0, 0.5, 1.5, -1.5, 2.0, 3.0]
ALPHAS = [0.0, 0.01, 0.05, 0.1, 0.5, 0.9, 1.0]


# ------------------------------------------------------------------ case generation
def gen_rows(rng, ncols, cards, nrows, law, X, Y, Z):
    rows = []
    tabs = {}
    for _ in range(nrows):
        r = [0] * ncols
        for c in range(ncols):
            if law == "skew":
                r[c] = 0 if rng.random() < 0.75 else rng.randrange(cards[c])
            else:
                r[c] = rng.randrange(cards[c])
        zk = tuple(r[z] for z in Z)
        if law == "dep":
            for c in (X, Y):
                key = (c, zk)
                if key not in tabs:
                    tabs[key] = [rng.choice([0, 1, 1, 3]) for _ in range(cards[c])]
                    if sum(tabs[key]) == 0:
                        tabs[key][rng.randrange(cards[c])] = 1
                r[c] = rng.choices(range(cards[c]), weights=tabs[key])[0]
        elif law == "copy":
            r[Y] = r[X] % cards[Y] if rng.random() < 0.9 else rng.randrange(cards[Y])
        rows.append(r)
    return rows


def decorate(rng, c):
    """dtype of every integer column, name set, container of Z, call form, integer significance levels"""
    if rng.random() < 0.6:
        c["dt"] = [rng.choice(DTYPES_INT) for _ in c["kinds"]]
    if rng.random() < 0.4:
        c["nameset"] = rng.randrange(len(NAMESETS))
    c["zform"] = rng.choice(ZFORMS)
    c["callform"] = rng.choice(["kw", "kw", "pc", "pos"])
    if rng.random() < 0.1:
        c["alpha"] = rng.choice([0, 1])


def gen_disc(rng, tier):
    nz = rng.choice([0, 0, 1, 1, 2, 3])
    ncols = 2 + nz + rng.choice([0, 1])
    cols = list(range(ncols))
    rng.shuffle(cols)
    X, Y, Z = cols[0], cols[1], cols[2:2 + nz]
    cards = [rng.randint(2, 4) for _ in range(ncols)]
    kinds = [None if rng.random() < 0.55 else cards[c] + rng.choice([0, 0, 0, 1]) for c in range(ncols)]
    nrows = rng.choice([1, 2, 4, 8, 9, 12, 16, 17, 20, 30, 32, 33, 40, 50, 60, 80, 80, 120])
    law = rng.choice(["unif", "dep", "dep", "copy", "skew"])
    rows = gen_rows(rng, ncols, cards, nrows, law, X, Y, Z)
    w = rng.choice(WRAPPERS)
    larg = None
    if w == "power_divergence":
        t = rng.random()
        if t < 0.45:
            larg = ["name", rng.randrange(len(LNAMES))]
        elif t < 0.9:
            larg = ["num", rng.choice(NUM_LAMBDAS)]
        else:
            larg = ["none"]
    c = {"kind": "disc", "kinds": kinds, "rows": rows, "X": X, "Y": Y, "Z": Z, "w": w, "larg": larg,
         "alpha": rng.choice(ALPHAS), "law": law, "lab": rng.randint(0, 3), "sh": rng.randint(0, 10 ** 9)}
    decorate(rng, c)
    return c


NUMERIC_GRID = [["int", 0], ["num", 0.0], ["num", -0.0], ["int", 1], ["int", -1], ["num", -1.0], ["int", -2],
                ["num", 2.0 / 3.0], ["num", 0.5]]


def gen_lambda(rng, larg, with_z):
    """a frame with dof >= 1 by construction (every level of X and Y in every stratum), numeric lambda_ given"""
    nz = rng.choice([1, 2]) if with_z else 0
    ncols = 2 + nz
    cols = list(range(ncols))
    rng.shuffle(cols)
    X, Y, Z = cols[0], cols[1], cols[2:]
    cards = [rng.randint(2, 3) for _ in range(ncols)]
    for z in Z:
        cards[z] = 2
    rows = []
    zconfs = [[]]
    for z in Z:
        zconfs = [zc + [v] for zc in zconfs for v in range(cards[z])]
    for zc in zconfs:
        for x in range(cards[X]):
            for y in range(cards[Y]):
                for _ in range(rng.randint(1, 6)):
                    r = [0] * ncols
                    r[X], r[Y] = x, y
                    for z, v in zip(Z, zc):
                        r[z] = v
                    rows.append(r)
    rng.shuffle(rows)
    return {"kind": "disc", "kinds": [None] * ncols, "rows": rows, "X": X, "Y": Y, "Z": Z, "w": "power_divergence",
            "larg": list(larg), "alpha": rng.choice(ALPHAS), "law": "full", "lab": rng.randint(0, 3),
            "sh": rng.randint(0, 10 ** 9)}


def gen_wide(rng, tier):
    """many conditioning variables (5 or 9: a set of >= 8 small ints no longer iterates in increasing order)"""
    nz = rng.choice([5, 9])
    ncols = 2 + nz
    cols = list(range(ncols))
    rng.shuffle(cols)
    X, Y, Z = cols[0], cols[1], cols[2:]
    cards = [2] * ncols
    rows = gen_rows(rng, ncols, cards, rng.choice([40, 80, 120]), rng.choice(["skew", "dep"]), X, Y, Z[:2])
    for r in rows:                       # keep the number of observed strata small enough to have dof >= 1
        for z in Z[2:]:
            r[z] = r[Z[0]] if rng.random() < 0.85 else 1 - r[Z[0]]
    c = {"kind": "disc", "kinds": [None] * ncols, "rows": rows, "X": X, "Y": Y, "Z": Z, "w": rng.choice(WRAPPERS[:5]),
         "larg": None, "alpha": rng.choice(ALPHAS), "law": "wide", "lab": 0, "sh": rng.randint(0, 10 ** 9)}
    decorate(rng, c)
    c["nameset"] = rng.randrange(len(NAMESETS))
    c["zform"] = rng.choice(["set", "frozenset", "list", "tuple"])
    return c


def gen_manylevels(rng, tier):
    """threshold sizes: 9 / 17 levels of X or Y, row counts around 64 / 128; or a conditioning variable with more than
    256 levels (more than 256 strata) and X, Y codes above 2^24"""
    if rng.random() < 0.5:
        nz = rng.choice([0, 1])
        ncols = 2 + nz
        X, Y, Z = 0, 1, list(range(2, ncols))
        cards = [rng.choice([9, 17]), rng.choice([2, 3, 9])] + [2] * nz
        rows = gen_rows(rng, ncols, cards, rng.choice([64, 65, 129, 257]), rng.choice(["unif", "copy"]), X, Y, Z)
        law = "levels-9-17"
    else:
        ncols, X, Y, Z = 3, 0, 1, [2]
        n = rng.choice([600, 777])
        rows = [[rng.randrange(3), rng.randrange(2), rng.randrange(300)] for _ in range(n)]
        law = "strata>256"
    if rng.random() < 0.5:
        X, Y = Y, X
    c = {"kind": "disc", "kinds": [None] * ncols, "rows": rows, "X": X, "Y": Y, "Z": Z, "w": rng.choice(WRAPPERS[:5]),
         "larg": None, "alpha": rng.choice(ALPHAS), "law": law, "lab": rng.randint(0, 3), "sh": rng.randint(0, 10 ** 9)}
    decorate(rng, c)
    c["dt"] = [rng.choice(["bigint", "int", "int8" if law != "strata>256" else "int", "obj-str" if law != "strata>256" else "relabel"])
               for _ in range(ncols)]
    return c


def gen_const(rng, tier):
    """a constant (cardinality-1) column in the role of X, Y or a conditioning variable"""
    c = gen_disc(rng, tier)
    while len(c["rows"]) < 8:
        c = gen_disc(rng, tier)
    role = rng.choice(["X", "Y", "Z"] if c["Z"] else ["X", "Y"])
    col = c[role] if role != "Z" else rng.choice(c["Z"])
    v = rng.randrange(2)
    for r in c["rows"]:
        r[col] = v
    if c["kinds"][col] is not None and not c["Z"] and role != "Z":
        c["kinds"][col] = None
    c["law"] = "const-" + role
    return c


def gen_large(rng, tier):
    c = gen_disc(rng, tier)
    ncols = len(c["kinds"])
    cards = [rng.randint(2, 4) for _ in range(ncols)]
    c["rows"] = gen_rows(rng, ncols, cards, rng.choice([1500, 3000]), "dep", c["X"], c["Y"], c["Z"])
    c["kinds"] = [None if k is None else 4 for k in c["kinds"]]
    c["law"] = "large"
    return c


def gen_indep(rng, tier):
    """product counts in every stratum => observed == expected exactly"""
    nz = rng.choice([0, 1, 1, 2])
    ncols = 2 + nz
    cols = list(range(ncols))
    rng.shuffle(cols)
    X, Y, Z = cols[0], cols[1], cols[2:2 + nz]
    cards = [rng.randint(2, 4) for _ in range(ncols)]
    kinds = [None if rng.random() < 0.6 else cards[c] for c in range(ncols)]
    zconfs = [[]]
    for z in Z:
        zconfs = [zc + [v] for zc in zconfs for v in range(cards[z])]
    zconfs = [zc for zc in zconfs if rng.random() < 0.7] or [zconfs[0]]
    degenerate = rng.random() < 0.25
    rows = []
    for zc in zconfs:
        xs = rng.sample(range(cards[X]), 1 if degenerate else rng.randint(1, cards[X]))
        ys = rng.sample(range(cards[Y]), rng.randint(1, cards[Y]))
        a = {x: rng.randint(1, 3) for x in xs}
        b = {y: rng.randint(1, 3) for y in ys}
        for x in xs:
            for y in ys:
                for _ in range(a[x] * b[y]):
                    r = [0] * ncols
                    r[X], r[Y] = x, y
                    for z, v in zip(Z, zc):
                        r[z] = v
                    rows.append(r)
    if not Z:
        # the unconditional table uses declared levels: keep Categoricals fully observed or use ints
        for c in (X, Y):
            if kinds[c] is not None and len({r[c] for r in rows}) < kinds[c]:
                kinds[c] = None
    rng.shuffle(rows)
    w = rng.choice(WRAPPERS)
    larg = None
    if w == "power_divergence":
        larg = rng.choice([["name", rng.randrange(len(LNAMES))], ["num", rng.choice(NUM_LAMBDAS)], ["none"]])
    return {"kind": "indep", "kinds": kinds, "rows": rows, "X": X, "Y": Y, "Z": Z, "w": w, "larg": larg,
            "alpha": rng.choice([1.0, 1.0, 0.05, 0.5, 0.0]), "law": "product", "lab": rng.randint(0, 3),
            "sh": rng.randint(0, 10 ** 9)}


def gen_bad(rng, tier):
    c = gen_disc(rng, tier)
    t = rng.choice(["xinz", "unobs", "docname", "znoniter", "nocol", "noalpha", "badlambda"])
    c["kind"] = "bad"
    c["bad"] = t
    if t == "xinz":
        c["Z"] = list(c["Z"]) + [rng.choice([c["X"], c["Y"]])]
        rng.shuffle(c["Z"])
    elif t == "unobs":
        c["Z"] = []
        col = rng.choice([c["X"], c["Y"]])
        c["kinds"][col] = max(r[col] for r in c["rows"]) + 2
    elif t == "docname":
        c["w"] = "power_divergence"
        c["larg"] = ["docname", "freeman-tuckey"]
    else:
        c["reject"] = t
        c["zform"], c["callform"] = "list", "kw"
    return c


# extreme positive unit changes.  X and Y: stable on the unmodified tree over 1e-100..1e150.  Z columns: numpy's
# lstsq(rcond=None) treats a column whose scale is ~1e15 away from the others as rank deficient, and loses ~1e-7
# already at 1e-12/1e12, so the stable range 1e-9..1e9 is used for them, all Z columns of one case on the same side
# (the ratio between any two columns of [1 Z] stays <= 1e9).
EXTREME_XY = [1e-12, 1e-9, 3e-9, 1e-6, 1e6, 1e9]
EXTREME_Z = [1e-9, 3e-9, 1e-6, 1e6, 1e9]


def gen_pearson(rng, tier):
    nz = rng.choice([0, 1, 1, 2, 2, 3])
    n = rng.randint(max(4, nz + 3), 24)
    mode = rng.choice(["noise", "lin", "lin", "chain"])
    den = 16
    z = [[rng.randint(-40, 40) for _ in range(nz)] for _ in range(n)]
    spread = False
    if nz >= 2 and rng.random() < 0.5:
        # conditioning columns of clearly different means and scales
        spread = True
        offs = rng.sample([-800, -160, 0, 240, 1600], nz)
        scs = rng.sample([1, 4, 16, 48], nz)
        z = [[offs[j] + scs[j] * rng.randint(-10, 10) for j in range(nz)] for _ in range(n)]
    sing = None
    if nz >= 2 and rng.random() < 0.25:
        sing = rng.choice(["dup", "const", "total", "onehot", "scaled-dup"])
        for r in z:
            if sing == "dup":
                r[-1] = r[0]
            elif sing == "const":
                r[-1] = 24
            elif sing == "scaled-dup":
                r[-1] = 4 * r[0] + 16          # an exact affine copy
            elif sing == "total":              # a total next to its parts (needs 3 columns, else a duplicate)
                r[-1] = sum(r[:-1])
            elif sing == "onehot":             # all k one-hot dummies of a k-level factor: they sum to the intercept
                lvl = rng.randrange(nz)
                for j in range(nz):
                    r[j] = 16 if j == lvl else 0
    x, y = [], []
    cx = [rng.randint(-3, 3) for _ in range(nz)]
    cy = [rng.randint(-3, 3) for _ in range(nz)]
    for i in range(n):
        ex, ey = rng.randint(-40, 40), rng.randint(-40, 40)
        if mode == "noise":
            xv, yv = ex, ey
        elif mode == "lin":
            xv = sum(a * b for a, b in zip(cx, z[i])) + ex
            yv = sum(a * b for a, b in zip(cy, z[i])) + ey
        else:
            xv = sum(a * b for a, b in zip(cx, z[i])) + ex
            yv = 2 * xv + ey
        x.append(xv)
        y.append(yv)
    if rng.random() < 0.04 and nz >= 1:
        x = [3 * r[0] + 5 for r in z]   # exactly linear in Z: residual is zero, correlation undefined
    const = None
    if rng.random() < 0.06:
        const = rng.choice(["x", "y"])   # an exactly constant column: scipy returns nan, the verdict is False
        if const == "x":
            x = [x[0]] * n
        else:
            y = [y[0]] * n
    shifts = [rng.randint(-96, 96) for _ in range(nz + 2)]
    scales = [rng.choice([0.25, 0.5, 2.0, 3.0, 5.0, 0.75, 10.0]) for _ in range(nz + 2)]
    return {"kind": "pearson", "den": den, "z": z, "x": x, "y": y, "alpha": rng.choice(ALPHAS), "mode": mode,
            "sing": sing, "spread": spread, "const": const, "shifts": shifts, "scales": scales,
            "pnames": rng.randrange(5), "zform": rng.choice(ZFORMS),
            "xscales": [rng.choice(EXTREME_XY) for _ in range(2)] +
                       (lambda side: [rng.choice(side) for _ in range(nz)])(rng.choice([EXTREME_Z[:3], EXTREME_Z[3:]])),
            "zperm": rng.randint(0, 10 ** 9)}


INDEX_KINDS = ["range", "shifted", "perm", "gap", "dup", "dup-concat", "str", "str-dup", "float", "date", "multi", "multi-dup"]


def make_index(kind, n, seed):
    """a pandas index of the given kind for n rows (the index is not data)"""
    import numpy as np
    import pandas as pd
    r = np.random.RandomState(seed % (2 ** 31))
    if kind == "range":
        return pd.RangeIndex(n)
    if kind == "shifted":
        return pd.RangeIndex(1 + r.randint(0, 50), 1 + r.randint(0, 50) + n) if False else pd.RangeIndex(7, 7 + n)
    if kind == "perm":
        return pd.Index(r.permutation(n))
    if kind == "gap":
        return pd.Index(np.sort(r.choice(10 * n + 10, size=n, replace=False)))
    if kind == "dup":          # bootstrap style: labels drawn with replacement
        return pd.Index(r.randint(0, max(1, n // 2), size=n))
    if kind == "dup-concat":   # pd.concat of two frames without ignore_index
        h = (n + 1) // 2
        return pd.Index(list(range(h)) + list(range(n - h)))
    if kind == "str":
        return pd.Index(["r%d" % i for i in r.permutation(n)])
    if kind == "str-dup":
        return pd.Index(["k%d" % i for i in r.randint(0, 3, size=n)])
    if kind == "float":
        return pd.Index(r.permutation(n) / 4.0)
    if kind == "date":
        return pd.date_range("2020-01-01", periods=n)
    if kind == "multi":
        return pd.MultiIndex.from_arrays([r.randint(0, 3, size=n), np.arange(n)])
    if kind == "multi-dup":
        return pd.MultiIndex.from_arrays([r.randint(0, 2, size=n), r.randint(0, 2, size=n)])
    raise ValueError(kind)


def index_kinds_for(case):
    """all kinds for the cases of the index stream, two (one of them with duplicate labels) otherwise"""
    if case.get("index_all"):
        return list(INDEX_KINDS)
    r = random.Random(case.get("sh", case.get("zperm", 0)))
    return [r.choice(["dup", "dup-concat", "str-dup", "multi-dup"]), r.choice(INDEX_KINDS)]


# offsets (in units of the column's spread) and unit changes for the conditioning stream
BIG_OFFSETS = [0.0, 1e2, 1e4, 1e6, 4e6, 1e7, 1e8, 1e9]
BIG_SCALES = [1e-8, 1e-6, 1e-3, 1.0, 1e3, 1e6, 1e8]


def gen_pearson_wide(rng, tier):
    """8 or 9 conditioning variables, 17 / 24 / 33 rows"""
    nz = rng.choice([8, 9])
    n = rng.choice([17, 24, 33])
    z = [[rng.randint(-8, 8) * 16 for _ in range(nz)] for _ in range(n)]
    x = [sum(r[:3]) + rng.randint(-8, 8) * 16 for r in z]
    y = [r[1] - r[4] + rng.randint(-8, 8) * 16 for r in z]
    return {"kind": "pearson", "den": 16, "z": z, "x": x, "y": y, "alpha": rng.choice(ALPHAS), "mode": "wide", "sing": None,
            "spread": False, "const": None, "shifts": [rng.randint(-96, 96) for _ in range(nz + 2)],
            "scales": [rng.choice([0.5, 2.0, 3.0]) for _ in range(nz + 2)], "pnames": rng.randrange(5),
            "zform": rng.choice(ZFORMS), "zperm": rng.randint(0, 10 ** 9)}


def gen_pearson_big(rng, tier):
    """large offsets (up to 1e9 x spread) and units spanning 1e-8..1e8 per column; the oracle is the exact partial
    correlation of the float data AS GIVEN"""
    c = gen_pearson(rng, tier)
    while c["const"] or c["sing"] or len(c["x"]) > 16 or len(c["x"]) < 6 or (c["z"] and len(c["z"][0]) > 2):
        c = gen_pearson(rng, tier)
    nz = len(c["z"][0]) if c["z"] else 0
    c["kind"] = "pearson_big"
    t = rng.choice(["z-offset", "z-offset", "all-offset", "units", "both", "magnitude", "near-collinear"])
    offs = [0.0] * (nz + 2)
    scs = [1.0] * (nz + 2)
    for j in range(nz + 2):
        isz = j >= 2
        if t in ("z-offset", "both") and isz or t == "all-offset":
            offs[j] = rng.choice(BIG_OFFSETS) * rng.choice([1, -1])
        if t in ("units", "both"):
            scs[j] = rng.choice(BIG_SCALES)
    if t == "magnitude":
        # every column in units of 1e-300..1e300
        scs = [rng.choice([1e-300, 1e-200, 1e-150, 1e150, 1e200, 1e300]) for _ in range(2)] + \
              [rng.choice([1e-300, 1e-200, 1e-150, 1e-100, 1e100, 1e150, 1e200, 1e300]) for _ in range(nz)]
    c["big"] = {"type": t, "offsets": offs, "scales": scs}
    if t == "near-collinear" and nz == 2:
        c["big"]["delta_bits"] = rng.choice([10, 20, 30])      # Z1 := Z0 + 2^-bits * Z1
    return c


def gen_psession(rng, tier):
    """pearsonr on ONE frame object: 2-4 calls with in-place edits between them"""
    k = 4
    n = rng.randint(8, 16)
    cols = [[rng.randint(-40, 40) for _ in range(n)] for _ in range(k)]
    for i in range(n):
        cols[1][i] += cols[2][i]
        cols[0][i] += cols[2][i] - cols[3][i]
    steps = []
    X, Y = 0, 1
    prevZ = None
    for i in range(rng.randint(2, 4)):
        edit = None
        if i > 0:
            t = rng.choice(["setcol", "setcol", "loc", "scalecol", "perm", "sort", "none"])
            zc = prevZ or [2, 3]
            c = rng.choice(zc + [X] if rng.random() < 0.8 else [X, Y])
            if t == "setcol":
                edit = ["setcol", c, [rng.randint(-40, 40) for _ in range(n)]]
            elif t == "loc":
                edit = ["loc", [[rng.randrange(n), c, rng.randint(-40, 40)] for _ in range(rng.randint(1, n // 2))]]
            elif t == "scalecol":
                edit = ["scalecol", c, rng.choice([2, 4, -1, 8])]
            elif t == "perm":
                perm = list(range(n))
                rng.shuffle(perm)
                edit = ["perm", perm]
            elif t == "sort":
                edit = ["sort", [rng.randrange(k)], rng.random() < 0.5]
        if rng.random() < 0.3:
            X, Y = rng.sample(range(k), 2)
        others = [c for c in range(k) if c not in (X, Y)]
        if prevZ is not None and rng.random() < 0.7 and all(c not in (X, Y) for c in prevZ):
            Z = list(prevZ)
        else:
            Z = rng.sample(others, rng.randint(0, 2))
        prevZ = Z
        steps.append({"edit": edit, "X": X, "Y": Y, "Z": Z, "alpha": rng.choice(ALPHAS)})
    return {"kind": "psession", "den": 16, "cols": cols, "steps": steps}


def gen_pc(rng, tier):
    """the route through PC.build_skeleton on 2 or 3 variables"""
    t = rng.choice(WRAPPERS[:5] + ["pearsonr"])
    nv = rng.choice([2, 3, 3])
    n = rng.choice([20, 40, 80])
    if t == "pearsonr":
        cols = [[rng.randint(-40, 40) for _ in range(n)] for _ in range(nv)]
        w = rng.choice([0, 1, 2])
        for i in range(n):
            cols[1][i] += w * cols[0][i]
            if nv == 3:
                cols[2][i] += rng.choice([0, 1]) * cols[0][i] + rng.choice([0, 1]) * cols[1][i]
        rows = [[cols[c][i] for c in range(nv)] for i in range(n)]
    else:
        cards = [rng.randint(2, 3) for _ in range(nv)]
        rows = gen_rows(rng, nv, cards, n, rng.choice(["unif", "copy", "dep"]), 0, 1, [2] if nv == 3 else [])
    return {"kind": "pc", "test": t, "rows": rows, "nv": nv, "alpha": rng.choice([0.01, 0.05, 0.1, 0.5]),
            "variant": rng.choice(["orig", "stable", "parallel"]) if nv == 2 else rng.choice(["stable", "parallel"]),
            "lambda": rng.choice([None, None, "neyman", 0, 1.5]) if t == "power_divergence_default" else None}


def gen_session(rng, tier):
    """one DataFrame OBJECT, 2-4 conditional/unconditional tests on it with in-place edits in between"""
    ncols = rng.randint(4, 5)
    cards = [rng.randint(2, 3) for _ in range(ncols)]
    n = rng.choice([12, 20, 30, 40, 60])
    rows = [[rng.randrange(cards[c]) for c in range(ncols)] for _ in range(n)]
    steps = []
    cur_cols, cur_cards = ncols, list(cards)
    prevZ = None
    X, Y = rng.sample(range(ncols), 2)
    for i in range(rng.randint(2, 4)):
        edit = None
        if i > 0:
            t = rng.choice(["setcol", "setcol", "loc", "loc", "sort", "perm", "addcol", "none"])
            zc = [c for c in (prevZ or []) if c not in (X, Y)] or [c for c in range(cur_cols) if c not in (X, Y)]
            if t == "setcol":
                c = rng.choice(zc)
                edit = ["setcol", c, [rng.randrange(cur_cards[c]) for _ in range(n)]]
            elif t == "loc":
                c = rng.choice(zc)
                edit = ["loc", [[rng.randrange(n), c, rng.randrange(cur_cards[c])] for _ in range(rng.randint(1, n // 2))]]
            elif t == "sort":
                edit = ["sort", rng.sample(range(cur_cols), rng.randint(1, 2)), rng.random() < 0.5]
            elif t == "perm":
                perm = list(range(n))
                rng.shuffle(perm)
                edit = ["perm", perm]
            elif t == "addcol":
                card = rng.randint(2, 3)
                edit = ["addcol", [rng.randrange(card) for _ in range(n)]]
                cur_cards.append(card)
                cur_cols += 1
        if rng.random() < 0.25:
            X, Y = rng.sample(range(ncols), 2)
        others = [c for c in range(cur_cols) if c not in (X, Y)]
        if prevZ is not None and rng.random() < 0.65 and all(c not in (X, Y) for c in prevZ):
            Z = list(prevZ)
        else:
            Z = rng.sample(others, rng.randint(0, min(2, len(others))))
        if edit and edit[0] == "addcol" and rng.random() < 0.5:
            Z = [cur_cols - 1] + [z for z in Z if z != cur_cols - 1][:1]
        prevZ = Z
        w = rng.choice(WRAPPERS[:5])
        steps.append({"edit": edit, "X": X, "Y": Y, "Z": Z, "w": w, "alpha": rng.choice(ALPHAS)})
    for st in steps:
        st["zform"] = rng.choice(ZFORMS)
        st["callform"] = rng.choice(["kw", "pc", "pos"])
    return {"kind": "session", "ncols": ncols, "rows": rows, "steps": steps,
            "index": rng.choice(["range", "dup", "perm", "str", "multi-dup"]), "sh": rng.randint(0, 10 ** 9)}


def cases(tier, seed):
    rng = random.Random(seed * 7919 + 19)
    mult = 1 if tier == "quick" else 10
    out = []
    for _ in range(650 * mult):
        out.append(gen_disc(rng, tier))
    for _ in range(12 * mult):
        out.append(gen_wide(rng, tier))
    for _ in range(40 * mult):
        out.append(gen_const(rng, tier))
    for _ in range(10 * mult):
        out.append(gen_manylevels(rng, tier))
    for _ in range(3 * mult):
        out.append(gen_large(rng, tier))
    for _ in range(3 * mult):
        for larg in NUMERIC_GRID:
            for with_z in (False, True):
                out.append(gen_lambda(rng, larg, with_z))
    for _ in range(100 * mult):
        out.append(gen_session(rng, tier))
    # index stream: the same rows under every kind of pandas index
    for _ in range(60 * mult):
        c = gen_disc(rng, tier)
        while len(c["rows"]) < 8:
            c = gen_disc(rng, tier)
        c["index_all"] = True
        out.append(c)
    for _ in range(20 * mult):
        c = gen_pearson(rng, tier)
        c["index_all"] = True
        out.append(c)
    for _ in range(80 * mult):
        out.append(gen_pearson_big(rng, tier))
    for _ in range(2 * mult):
        out.append(gen_pearson_wide(rng, tier))
    for _ in range(40 * mult):
        out.append(gen_psession(rng, tier))
    for _ in range(40 * mult):
        out.append(gen_pc(rng, tier))
    for _ in range(180 * mult):
        out.append(gen_indep(rng, tier))
    for _ in range(90 * mult):
        out.append(gen_bad(rng, tier))
    for _ in range(220 * mult):
        out.append(gen_pearson(rng, tier))
    # fixed corner cases: p == alpha exactly (p = 1.0 = alpha; dof 0 with Z; dof 0 without Z)
    out.append({"kind": "indep", "kinds": [None, None], "rows": [[0, 0], [0, 1], [1, 0], [1, 1]] * 2, "X": 0, "Y": 1,
                "Z": [], "w": "chi_square", "larg": None, "alpha": 1.0, "law": "product", "lab": 0, "sh": 1})
    out.append({"kind": "indep", "kinds": [None, None, None],
                "rows": [[0, 0, 0], [0, 1, 0], [1, 0, 0], [1, 1, 0], [0, 0, 1], [0, 1, 1], [1, 0, 1], [1, 1, 1]],
                "X": 0, "Y": 1, "Z": [2], "w": "g_sq", "larg": None, "alpha": 1.0, "law": "product", "lab": 0, "sh": 2})
    out.append({"kind": "indep", "kinds": [None, None, None], "rows": [[0, 0, 0], [0, 1, 0], [1, 0, 1], [1, 1, 1]],
                "X": 0, "Y": 1, "Z": [2], "w": "chi_square", "larg": None, "alpha": 0.05, "law": "product", "lab": 0, "sh": 3})
    out.append({"kind": "indep", "kinds": [None, None], "rows": [[0, 0], [0, 1], [0, 2]],
                "X": 0, "Y": 1, "Z": [], "w": "chi_square", "larg": None, "alpha": 1.0, "law": "product", "lab": 0, "sh": 4})
    # pearsonr with r = 0 exactly: p = 1.0 = alpha
    out.append({"kind": "pearson", "den": 16, "z": [[], [], [], []], "x": [16, -16, 16, -16], "y": [16, 16, -16, -16],
                "alpha": 1.0, "mode": "noise", "sing": None, "shifts": [3, -5], "scales": [2.0, 0.5], "zperm": 5})
    return out


def shrink(case):
    if case["kind"] in ("disc", "indep", "bad"):
        rows = case["rows"]
        n = len(rows)
        if n > 1:
            for lo, hi in ((0, n // 2), (n // 2, n)):
                c = dict(case)
                c["rows"] = rows[:lo] + rows[hi:]
                if c["rows"]:
                    yield c
            for i in range(min(n, 40)):
                c = dict(case)
                c["rows"] = rows[:i] + rows[i + 1:]
                yield c
        if case["kind"] != "bad":
            for i in range(len(case["Z"])):
                c = dict(case)
                c["Z"] = case["Z"][:i] + case["Z"][i + 1:]
                yield c
    elif case["kind"] == "pearson":
        n = len(case["x"])
        for i in range(n):
            if n - 1 >= max(4, len(case["z"][0]) + 3 if case["z"] and case["z"][0] else 4):
                c = dict(case)
                c["x"] = case["x"][:i] + case["x"][i + 1:]
                c["y"] = case["y"][:i] + case["y"][i + 1:]
                c["z"] = case["z"][:i] + case["z"][i + 1:]
                yield c


# ------------------------------------------------------------------ float evaluation of the formal terms
def phi_terms(lam, o, e):
    """scipy.stats.power_divergence cell terms (independent re-implementation, numpy float64)"""
    import numpy as np

    def xlogy(x, y):
        with np.errstate(all="ignore"):
            return np.where(x == 0, np.where(np.isnan(y), np.nan, 0.0), x * np.log(y))

    with np.errstate(all="ignore"):
        if lam == 1:
            return (o - e) ** 2 / e
        if lam == 0:
            return 2.0 * xlogy(o, o / e)
        if lam == -1:
            return 2.0 * xlogy(e, e / o)
        t = o * ((o / e) ** lam - 1)
        return t / (0.5 * lam * (lam + 1))


def eval_stat(lam, cells):
    import numpy as np
    if not cells:
        return 0.0
    o = np.array([float(common.frac(c[0])) for c in cells])
    e = np.array([float(common.frac(c[1])) for c in cells])
    t = phi_terms(float(lam), o, e)
    if np.all(np.isfinite(t)):
        return math.fsum(t.tolist())
    return float(t.sum())


def eval_p(pkind, stat, dof):
    from scipy import stats
    if pkind == 0:
        return 1.0
    if pkind == 1:
        return float(stats.chi2.sf(stat, dof))
    return float(1 - stats.chi2.cdf(stat, df=dof))


def same_float(a, b, tol, absolute=False):
    a, b = float(a), float(b)
    if a != a or b != b:
        return a != a and b != b
    if math.isinf(a) or math.isinf(b):
        return a == b
    if absolute:
        return abs(a - b) <= tol
    return abs(a - b) <= tol * max(1.0, abs(b))


def p_opt(p):
    p = float(p)
    return [] if p != p else [Fraction(p)]


# ------------------------------------------------------------------ discrete cases
# string names only: pandas' groupby/unstack resolve integer column names positionally in some cases
COLNAMES = [["A", "B", "C", "D", "E", "F"], ["v0", "v1", "v2", "v3", "v4", "v5"], ["n3", "n1", "n4", "n15", "n9", "n2"],
            ["x", "Y", "y", "X", "zz", "Z"]]
# extended name sets (cases carrying "nameset"): one name a substring/prefix of another, names equal to pandas
# keywords produced by groupby/size/reset_index, empty and blank-containing names, integer names (integer names only
# on frames without Categorical columns: pandas itself mis-resolves them otherwise; tuple and bool names are
# rejected by pandas' .loc / groupby on the unchanged tree and are not generated)
NAMESETS = [["x1", "x10", "x", "x100", "x11", "1x", "x101", "x1 ", "xx", "x0", "x2"],
            ["index", "level_0", "size", "count", "values", "0", "level_1", "columns", "data", "lambda_", "Z"],
            ["", " ", "a b", "a", "b", "A", "a.b", "a,b", "a=b", "a|b", "b "],
            [1, 10, 0, 300, 1000, 2, 65536, -1, 257, 3, 100000]]
FLOATCLOSE = [0.1 + 0.2, 0.3, 1e-12, 0.0, 0.30000000000000016]     # distinct floats are distinct levels
DTYPES_INT = ["bigint", "int", "relabel", "float", "floatclose", "bool", "obj-str", "str", "Int64", "int8", "obj-tuple"]


def column_values(vals, dt):
    import numpy as np
    import pandas as pd
    if dt == "int":
        return list(vals)
    if dt == "relabel":
        return [3 * v - 2 for v in vals]
    if dt == "bigint":                       # adjacent codes above 2^24 (not separable in float32)
        return [16777217 + v for v in vals]
    if dt == "float":
        return [v + 0.5 for v in vals]
    if dt == "floatclose":
        return [FLOATCLOSE[v] for v in vals]
    if dt == "bool":
        return [bool(v) for v in vals] if max(vals) <= 1 else list(vals)
    if dt == "obj-str":
        return np.array(["s%d" % (7 - v) for v in vals], dtype=object)
    if dt == "str":
        return pd.array(["s%d" % v for v in vals], dtype="str")
    if dt == "Int64":
        return pd.array([5 - v for v in vals], dtype="Int64")
    if dt == "int8":
        return np.array(vals, dtype=np.int8)
    if dt == "obj-tuple":
        return pd.Series([("t", int(v)) for v in vals], dtype=object).values
    raise ValueError(dt)

CATLABELS = [lambda k: list(range(k)), lambda k: ["s%d" % i for i in range(k)],
             lambda k: [10 * (k - i) for i in range(k)], lambda k: ["q", "a", "zz", "m", "b", "c"][:k]]


def frame(case, rows=None):
    import pandas as pd
    rows = case["rows"] if rows is None else rows
    names = COLNAMES[case["lab"] % len(COLNAMES)]
    if case.get("nameset") is not None:
        ns = case["nameset"]
        if ns == 3 and any(k is not None for k in case["kinds"]):
            ns = 0
        r = random.Random(case["sh"])
        names = list(NAMESETS[ns])
        r.shuffle(names)
    d = {}
    for c, kind in enumerate(case["kinds"]):
        vals = [r[c] for r in rows]
        if kind is None and case.get("dt"):
            d[names[c]] = column_values(vals, case["dt"][c])
        elif kind is None:
            mul, off = (1, 0) if (case["lab"] + c) % 2 == 0 else (3, -2)
            d[names[c]] = [mul * v + off for v in vals]
        else:
            labs = CATLABELS[(case["lab"] + c) % len(CATLABELS)](kind)
            d[names[c]] = pd.Categorical([labs[v] for v in vals], categories=labs)
    return pd.DataFrame(d), names


def larg_py(case):
    """(kwargs for pgmpy, wire form for the model)"""
    l = case["larg"]
    if case["w"] != "power_divergence":
        return {}, None
    if l[0] == "none":
        return {"lambda_": None}, []
    if l[0] == "name":
        return {"lambda_": LNAMES[l[1]]}, [0, l[1]]
    if l[0] == "num":
        return {"lambda_": float(l[1])}, [1, Fraction(float(l[1]))]
    if l[0] == "int":
        return {"lambda_": int(l[1])}, [1, Fraction(int(l[1]))]
    return {"lambda_": l[1]}, [0, 6]   # the documented spelling 'freeman-tuckey' (accepted since fix 50eed3a)


ZFORMS = ["list", "tuple", "set", "frozenset", "ndarray", "index", "iter", "dict_keys", "generator", "map", "filter"]


def z_container(zs, form):
    import numpy as np
    import pandas as pd
    if form == "tuple":
        return tuple(zs)
    if form == "set":
        return set(zs)
    if form == "frozenset":
        return frozenset(zs)
    if form == "ndarray":
        return np.array(zs, dtype=object)
    if form == "index":
        return pd.Index(zs, dtype=object)
    if form == "iter":
        return iter(list(zs))
    if form == "dict_keys":
        return {z: None for z in zs}.keys()
    if form == "generator":
        return (z for z in list(zs))
    if form == "map":
        return map(lambda z: z, list(zs))
    if form == "filter":
        return filter(lambda z: True, list(zs))
    return list(zs)


def rebuilt(o):
    """an equal but NOT identical object (new str / int / float object built at run time)"""
    if isinstance(o, bool):
        return o
    if isinstance(o, str):
        return "".join([ch for ch in o]) if len(o) > 1 else o
    if isinstance(o, int):
        return int(str(o))
    if isinstance(o, float):
        return float(repr(o))
    return o


def call_impl(case, df, names, X, Y, Z, boolean):
    from pgmpy.estimators import CITests
    kw, _ = larg_py(case)
    if case.get("rebuild", True):
        names = [rebuilt(nm) for nm in names]
        kw = {k: rebuilt(v) for k, v in kw.items()}
    w = case["w"]
    fn = CITests.power_divergence if w.startswith("power_divergence") else getattr(CITests, w)
    if boolean:
        kw["significance_level"] = case["alpha"]
    zs = z_container([names[z] for z in Z], case.get("zform", "list"))
    form = case.get("callform", "kw")
    if form == "pc" and boolean:
        # exactly PC.build_skeleton's call: positional X, Y, separating set (a tuple), no `boolean`
        return fn(names[X], names[Y], tuple(names[z] for z in Z), data=df, independencies=None, **kw)
    if form == "pos":
        return fn(names[X], names[Y], zs, df, boolean, **kw)
    return fn(X=names[X], Y=names[Y], Z=zs, data=df, boolean=boolean, **kw)


def impl_triple(case, df, names, X, Y, Z):
    """('ok', chi, p, dof) or ('err', enum)"""
    try:
        chi, p, dof = call_impl(case, df, names, X, Y, Z, False)
        return ("ok", float(chi), float(p), int(dof))
    except ValueError as e:
        m = str(e)
        if "expected frequencies has a zero element" in m:
            return ("err", 1)
        if "No data" in m:
            return ("err", 2)
        if "can't be in Z" in m:
            return ("err", 4)
        if "invalid string for lambda_" in m:
            return ("err", 5)
        raise


def triples_agree(a, b):
    if a[0] != b[0]:
        return False
    if a[0] == "err":
        return a[1] == b[1]
    return same_float(a[1], b[1], 1e-9) and same_float(a[2], b[2], 1e-9, True) and a[3] == b[3]


def run_reject(case, drv):
    """calls that must raise; afterwards the frame is unchanged and a valid call on it answers as the model does"""
    from pgmpy.estimators import CITests
    df, names = frame(case)
    X, Y, Z = case["X"], case["Y"], case["Z"]
    t = case["reject"]
    tags = ["kind:bad", "reject:" + t]
    key = common.canon_key(["reject", t, case["rows"], X, Y, Z, case["w"]])
    snap = df.copy(deep=True)
    w = case["w"]
    fn = CITests.power_divergence if w.startswith("power_divergence") else getattr(CITests, w)
    zs = [names[z] for z in Z]
    missing = "no such column"
    calls = {
        "znoniter": [(lambda: fn(X=names[X], Y=names[Y], Z=None, data=df, boolean=False), (TypeError, ValueError)),
                     (lambda: fn(X=names[X], Y=names[Y], Z=5, data=df, boolean=False), (TypeError, ValueError)),
                     (lambda: CITests.pearsonr(X=names[X], Y=names[Y], Z=None, data=df, boolean=False), (ValueError,))],
        "nocol": [(lambda: fn(X=missing, Y=names[Y], Z=zs, data=df, boolean=False), (KeyError,)),
                  # (pandas reads a key list as per-row labels when its length equals the number of rows and a key is
                  #  not a column, so that frame size is left out)
                  (lambda: fn(X=names[X], Y=names[Y], Z=zs + [missing], data=df, boolean=False)
                   if len(df) != len(zs) + 1 else (_ for _ in ()).throw(KeyError(missing)), (KeyError,)),
                  (lambda: fn(X=names[X], Y=missing, Z=zs, data=df, boolean=True, significance_level=0.05), (KeyError,))],
        "noalpha": [(lambda: fn(X=names[X], Y=names[Y], Z=zs, data=df, boolean=True), (KeyError,)),
                    (lambda: fn(X=names[X], Y=names[Y], Z=zs, data=df), (KeyError,)),
                    (lambda: CITests.pearsonr(X=names[X], Y=names[Y], Z=zs, data=df.to_dict("list"), boolean=False),
                     (ValueError,))],
        "badlambda": [],
    }[t]
    for i, (f, excs) in enumerate(calls):
        try:
            r = f()
        except excs:
            continue
        except Exception as e:        # another exception type: still a rejection, but record which
            tags.append("reject-other:%s" % type(e).__name__)
            continue
        return bad("impl-accepts-invalid-call", {"reject": t, "call": i, "returned": str(r)[:200]}, key=key, tags=tags)
    if not (df.equals(snap) and list(df.dtypes) == list(snap.dtypes) and df.index.equals(snap.index)):
        return bad("argument-mutated:data", {"after-rejected-call": t}, key=key, tags=tags)
    # the valid call afterwards
    c2 = dict(case)
    c2.pop("reject")
    c2["kind"] = "disc"
    out = run_disc(c2, drv)
    out["tags"] = tags + [x for x in out.get("tags", []) if not x.startswith("kind:")]
    return out


def run_disc(case, drv):
    if case.get("reject"):
        return run_reject(case, drv)
    df, names = frame(case)
    X, Y, Z = case["X"], case["Y"], case["Z"]
    tags = ["kind:" + case["kind"], "w:" + case["w"], "nz:%d" % len(Z), "law:" + case["law"],
            "rows:%s" % ("<=5" if len(case["rows"]) <= 5 else "<=20" if len(case["rows"]) <= 20 else ">20")]
    if case["larg"]:
        tags.append("lambda_:%s" % (LNAMES[case["larg"][1]] if case["larg"][0] == "name" else
                                    case["larg"][1] if len(case["larg"]) > 1 else "None"))
        if case["larg"][0] in ("num", "int"):
            tags.append("numeric-lambda:%s%r:%s" % ("int " if case["larg"][0] == "int" else "", case["larg"][1],
                                                    "Z" if Z else "noZ"))
    key = common.canon_key([case["kind"], case["kinds"], sorted(map(tuple, case["rows"])), X, Y, Z, case["w"],
                            case["larg"], case["alpha"]])
    kw, lwire = larg_py(case)
    snap = df.copy(deep=True)
    impl = impl_triple(case, df, names, X, Y, Z)
    for t in ("dt", "nameset", "zform", "callform"):
        if case.get(t) is not None:
            tags.append("%s:%s" % (t, ",".join(sorted(set(case[t]))) if t == "dt" else case[t]))

    widx = WRAPPERS.index(case["w"])
    kinds_wire = [[] if k is None else [k] for k in case["kinds"]]
    m = drv.call_e("c19_pd", [widx, lwire if lwire is not None else [], kinds_wire, case["rows"], X, Y, Z])
    if m[0] == "err":
        tags.append("err:%d" % m[1])
        if impl != ("err", m[1]):
            return bad("impl!=model:error", {"impl": impl, "model_err": m[1]}, key=key, tags=tags)
        return ok(nontrivial=True, key=key, tags=tags)
    lam, cells, dof, pkind = m[1]
    lam = common.frac(lam)
    stat_m = eval_stat(lam, cells)
    p_m = eval_p(pkind, stat_m, dof)
    tags += ["dof:%s" % (dof if dof <= 4 else ">4"), "pkind:%d" % pkind, "cells:%s" % ("0" if not cells else "n")]
    if any(common.frac(c[0]) == 0 for c in cells):
        tags.append("empty-cell")
    if any(common.frac(c[0]).denominator == 2 for c in cells):
        tags.append("yates")
    if impl[0] == "err":
        return bad("impl!=model:error", {"impl": impl, "model": [stat_m, p_m, dof]}, key=key, tags=tags)
    _, chi_i, p_i, dof_i = impl
    if not (same_float(chi_i, stat_m, 1e-9) and dof_i == dof and same_float(p_i, p_m, 1e-9, True)):
        return bad("impl!=model:statistic", {"impl": [chi_i, p_i, dof_i], "model": [stat_m, p_m, dof],
                                             "lambda": str(lam), "cells": [[str(common.frac(a)), str(common.frac(b))] for a, b in cells]},
                   key=key, tags=tags)
    # verdict: boolean=True
    alpha = case["alpha"]
    v_i = bool(call_impl(case, df, names, X, Y, Z, True))
    v_own = bool(drv.call("c19_verdict", [p_opt(p_i), Fraction(alpha)]))   # model's >= on pgmpy's own p-value
    if v_i != v_own:
        return bad("impl!=model:verdict", {"p_impl": p_i, "alpha": alpha, "impl": v_i, "model": v_own}, key=key, tags=tags)
    if p_m != p_m or abs(p_m - alpha) >= 1e-9 or p_m == p_i:
        v_m = bool(drv.call("c19_verdict", [p_opt(p_m), Fraction(alpha)]))
        if v_m != v_i:
            return bad("impl!=model:verdict", {"p_model": p_m, "p_impl": p_i, "alpha": alpha, "impl": v_i, "model": v_m},
                       key=key, tags=tags)
        if p_m == alpha:
            tags.append("p==alpha")
    tags.append("verdict:%s" % v_i)
    if p_i != p_i:
        tags.append("p:nan")

    # argument purity: the caller's frame is unchanged (values, dtypes, index, column order)
    if not (df.equals(snap) and list(df.columns) == list(snap.columns) and df.index.equals(snap.index)
            and list(df.dtypes) == list(snap.dtypes)):
        return bad("argument-mutated:data", {"before": snap.to_dict("list"), "after": df.to_dict("list")}, key=key, tags=tags)

    # metamorphic relations on pgmpy itself
    rng = random.Random(case["sh"])
    rel = [("swap-xy", df, Y, X, Z)]
    rows2 = list(case["rows"])
    rng.shuffle(rows2)
    rel.append(("row-shuffle", frame(case, rows2)[0], X, Y, Z))
    if len(Z) >= 2:
        Z2 = list(Z)
        while Z2 == list(Z):
            rng.shuffle(Z2)
        rel.append(("z-order", df, X, Y, Z2))
    # the same rows obtained by FILTERING a larger frame (gapped index; Categorical levels left unused by the filter)
    extra = []
    for _ in range(rng.randint(1, 6)):
        r = list(rng.choice(case["rows"]))
        for c, k in enumerate(case["kinds"]):
            if k is not None:
                r[c] = rng.randrange(k)
        extra.append(r)
    pos = sorted(rng.sample(range(len(case["rows"]) + len(extra)), len(extra)))
    merged, mask, it = [], [], iter(case["rows"])
    for i in range(len(case["rows"]) + len(extra)):
        if i in pos:
            merged.append(extra[pos.index(i)])
            mask.append(False)
        else:
            merged.append(next(it))
            mask.append(True)
    rel.append(("filtered-frame", frame(case, merged)[0].loc[mask], X, Y, Z))
    for kind in index_kinds_for(case):
        d2 = df.copy()
        d2.index = make_index(kind, len(d2), case["sh"])
        rel.append(("index-" + kind, d2, X, Y, Z))
        tags.append("index:%s:%s" % (kind, "Z" if Z else "noZ"))
    for name, d2, x2, y2, z2 in rel:
        other = impl_triple(case, d2, names, x2, y2, z2)
        if not triples_agree(other, impl):
            return bad("impl!=property:" + name, {"base": impl, "transformed": other}, key=key, tags=tags)

    # exactly independent tables (every analysed cell has observed == expected, decided exactly by the
    # model): statistic 0, p-value 1
    indep = all(common.frac(c[0]) == common.frac(c[1]) for c in cells)
    if case["kind"] == "indep" and not indep:
        return bad("generator:not-independent", {"cells": str(cells)[:500]}, key=key, tags=tags)
    if indep:
        tags.append("independent")
        if not same_float(chi_i, 0.0, 1e-9):
            return bad("impl!=property:independent-statistic", {"impl": [chi_i, p_i, dof_i]}, key=key, tags=tags)
        if not same_float(p_i, 1.0, 1e-9, True):
            return bad("impl!=property:independent-pvalue", {"impl": [chi_i, p_i, dof_i]}, key=key, tags=tags)
    return ok(nontrivial=dof >= 1, key=key, tags=tags)


# ------------------------------------------------------------------ pearsonr
def setcols(df, d):
    d2 = df.copy()
    for k, v in d.items():
        d2[k] = v
    return d2


PNAMES = [("X", "Y", ["Z%d" % i for i in range(9)]), ("x1", "x10", ["x", "x100", "x11", "x2", "x3", "x4", "x5", "x6", "x7"]),
          ("index", "size", ["level_0", "count", "values", "level_1", "level_2", "columns", "data", "Z", "X"]),
          (300, 1000, [257, 65536, 100000, 258, 259, 260, 261, 262, 263]), ("", " ", ["a b", "a", "b", "c", "d", "e", "f", "g", "h"])]


def pearson_frame(den, z, x, y, pnames=0):
    import pandas as pd
    xn, yn, zall = PNAMES[pnames]
    nz = len(z[0]) if z else 0
    zn = zall[:nz]
    d = {}
    # column order in the frame is not X, Y, Z...: conditioning columns first, then Y, then X
    for j in range(nz):
        d[zn[j]] = [r[j] / den for r in z]
    d[yn] = [v / den for v in y]
    d[xn] = [v / den for v in x]
    return pd.DataFrame(d), xn, yn, list(zn)


def pearson_p(r, n):
    from scipy import stats
    if r != r:
        return float("nan")
    if abs(r) >= 1.0:
        return 0.0
    t = abs(r) * math.sqrt((n - 2) / ((1 - r) * (1 + r)))
    return float(2 * stats.t.sf(t, n - 2))


def run_pearson(case, drv):
    import numpy as np
    from pgmpy.estimators import CITests
    den = case["den"]
    z, x, y = case["z"], case["x"], case["y"]
    n = len(x)
    nz = len(z[0]) if z else 0
    tags = ["kind:pearson", "nz:%d" % nz, "mode:" + case["mode"], "sing:%s" % case["sing"],
            "n:%s" % ("<=8" if n <= 8 else "<=20" if n <= 20 else ">20")]
    if nz >= 2:
        cm = [sum(r[j] for r in z) / n / den for j in range(nz)]
        cs = [max(r[j] for r in z) - min(r[j] for r in z) for j in range(nz)]
        if max(cm) - min(cm) >= 5.0 and max(cs) >= 3 * max(1, min(cs)):
            tags.append("z-columns:different-means-and-scales")
    key = common.canon_key(["pearson", z, x, y, case["alpha"]])
    df, xn, yn, zn = pearson_frame(den, z, x, y, case.get("pnames", 0))
    snap = df.copy(deep=True)
    zform = case.get("zform", "list")
    zc = lambda names_: z_container([rebuilt(q) for q in names_], zform)
    tags += ["pnames:%d" % case.get("pnames", 0), "zform:" + zform]
    coef_i, p_i = CITests.pearsonr(rebuilt(xn), rebuilt(yn), zc(zn), df, boolean=False)
    coef_i, p_i = float(coef_i), float(p_i)
    fr = lambda v: Fraction(v, den)
    m = drv.call("c19_pearson", [nz == 0, [[fr(v) for v in r] for r in z], [fr(v) for v in x], [fr(v) for v in y]])
    rx, ry, sums, corr, n_m = m
    if n_m != n:
        return bad("impl!=model:pearson-n", {"n": n, "model": n_m}, key=key, tags=tags)
    rx = np.array([float(common.frac(v)) for v in rx])
    ry = np.array([float(common.frac(v)) for v in ry])
    # independent numpy computation of the residuals (pseudo-inverse projection on [1 Z])
    xv, yv = df[xn].values, df[yn].values
    if nz:
        A = np.column_stack([np.ones(n)] + [df[c].values for c in zn])
        P = A @ np.linalg.pinv(A)
        rx_np, ry_np = xv - P @ xv, yv - P @ yv
    else:
        rx_np, ry_np = xv, yv
    scale = max(1.0, float(np.abs(xv).max()), float(np.abs(yv).max()))
    if np.abs(rx - rx_np).max() > 1e-7 * scale or np.abs(ry - ry_np).max() > 1e-7 * scale:
        return bad("model!=numpy:residuals", {"model": [rx.tolist(), ry.tolist()], "numpy": [rx_np.tolist(), ry_np.tolist()]},
                   key=key, tags=tags)
    if not corr:
        tags.append("corr:undefined")
        if nz == 0 or case.get("const"):
            # an exactly constant X or Y (its residual is exactly constant too when it is regressed on [1 Z] only
            # if lstsq is exact, so the strict check is made for Z = [] only): coefficient and p-value are NaN
            # and the verdict is False for every significance level
            tags.append("constant-column:%s" % ("noZ" if nz == 0 else "Z"))
            v_i = bool(CITests.pearsonr(rebuilt(xn), rebuilt(yn), tuple(rebuilt(q) for q in zn), data=df, independencies=None, significance_level=case["alpha"]))
            v_m = bool(drv.call("c19_verdict", [p_opt(p_i), Fraction(case["alpha"])]))
            if nz == 0 and not (coef_i != coef_i and p_i != p_i and v_i is False):
                return bad("impl!=model:pearson-constant", {"impl": [coef_i, p_i, v_i], "model": ["nan", "nan", False]},
                           key=key, tags=tags)
            if v_i != v_m:
                return bad("impl!=model:verdict", {"p_impl": p_i, "alpha": case["alpha"], "impl": v_i, "model": v_m},
                           key=key, tags=tags)
            return ok(nontrivial=(nz == 0), key=key, tags=tags)
        return ok(nontrivial=False, key=key, tags=tags)
    sign, r2 = corr[0][0], common.frac(corr[0][1])
    r_m = sign * math.sqrt(float(r2))
    r_np = float(np.corrcoef(rx_np, ry_np)[0, 1])
    if not same_float(coef_i, r_m, 1e-8) or not same_float(coef_i, r_np, 1e-8):
        return bad("impl!=model:pearson-coef", {"impl": coef_i, "model": r_m, "numpy": r_np}, key=key, tags=tags)
    p_m = pearson_p(r_m, n)
    if not same_float(p_i, p_m, 1e-8, True):
        return bad("impl!=model:pearson-p", {"impl": p_i, "model": p_m, "r": r_m, "n": n}, key=key, tags=tags)
    alpha = case["alpha"]
    v_i = bool(CITests.pearsonr(rebuilt(xn), rebuilt(yn), tuple(rebuilt(q) for q in zn), data=df, independencies=None, significance_level=alpha))
    v_own = bool(drv.call("c19_verdict", [p_opt(p_i), Fraction(alpha)]))
    if v_i != v_own:
        return bad("impl!=model:verdict", {"p_impl": p_i, "alpha": alpha, "impl": v_i, "model": v_own}, key=key, tags=tags)
    if abs(p_m - alpha) >= 1e-7:
        v_m = bool(drv.call("c19_verdict", [p_opt(p_m), Fraction(alpha)]))
        if v_m != v_i:
            return bad("impl!=model:verdict", {"p_model": p_m, "alpha": alpha, "impl": v_i, "model": v_m}, key=key, tags=tags)
    tags.append("verdict:%s" % v_i)

    # metamorphic: shift / positive rescaling of every variable, X/Y swap, Z order, row order
    sh, sc = case["shifts"], case["scales"]
    rng = random.Random(case["zperm"])
    variants = []
    variants.append(("shift", setcols(df, {c: df[c] + sh[i] / den for i, c in enumerate([xn, yn] + zn)}), zn))
    variants.append(("scale", setcols(df, {c: df[c] * sc[i] for i, c in enumerate([xn, yn] + zn)}), zn))
    variants.append(("affine", setcols(df, {c: df[c] * sc[i] + sh[i] / den for i, c in enumerate([xn, yn] + zn)}), zn))
    if nz:
        j = rng.randrange(nz)
        variants.append(("shift-one-z", setcols(df, {zn[j]: df[zn[j]] + 5.0}), zn))
    if nz >= 2:
        z2 = list(zn)
        rng.shuffle(z2)
        variants.append(("z-order", df, z2))
        # centre every conditioning column by ITS OWN mean / standardise every column separately
        variants.append(("z-center-columns", setcols(df, {c: df[c] - df[c].mean() for c in zn}), zn))
        sd = {c: float(df[c].std()) for c in zn}
        if all(v > 0 for v in sd.values()):
            variants.append(("z-standardise-columns", setcols(df, {c: (df[c] - df[c].mean()) / sd[c] for c in zn}), zn))
    for kind in index_kinds_for(case):
        d2 = df.copy()
        d2.index = make_index(kind, n, case["zperm"])
        variants.append(("index-" + kind, d2, zn))
        tags.append("index:%s:%s" % (kind, "Z" if nz else "noZ"))
    # integer dtypes: the same data in units of 1/den are whole numbers
    variants.append(("int64-dtype", (df * den).round().astype("int64"), zn))
    variants.append(("int32-mixed", (df * den).round().astype({c: "int32" for c in ([xn] + zn[:1])}), zn))
    xs = case.get("xscales")
    # (not with an exactly duplicated conditioning column: a non-dyadic factor rounds every entry, so the scaled copy
    #  is no longer an exact multiple of its twin and the data as given has a genuine 1e-14-sized extra direction)
    if xs and not case.get("sing"):
        cols = [xn, yn] + zn
        variants.append(("extreme-scale-all", setcols(df, {c: df[c] * xs[i] for i, c in enumerate(cols)}), zn))
        j = rng.randrange(len(cols))
        variants.append(("extreme-scale-one", setcols(df, {cols[j]: df[cols[j]] * xs[j]}), zn))
        tags.append("extreme-scales")
    variants.append(("row-shuffle", df.sample(frac=1.0, random_state=case["zperm"] % (2 ** 31)).reset_index(drop=True), zn))
    for name, d2, z2 in variants:
        c2, p2 = CITests.pearsonr(rebuilt(xn), rebuilt(yn), zc(z2), d2, boolean=False)
        tol = 1e-7 if name.startswith("extreme") else 1e-9
        if not same_float(c2, coef_i, tol) or not same_float(p2, p_i, max(tol, 1e-8), True):
            return bad("impl!=property:pearson-" + name, {"base": [coef_i, p_i], "transformed": [float(c2), float(p2)]},
                       key=key, tags=tags)
        if name.startswith("extreme") and abs(p_i - alpha) >= 1e-6:
            v2 = bool(CITests.pearsonr(X=rebuilt(xn), Y=rebuilt(yn), Z=[rebuilt(q) for q in z2], data=d2, boolean=True, significance_level=alpha))
            if v2 != v_i:
                return bad("impl!=property:pearson-" + name + "-verdict", {"base": v_i, "transformed": v2, "p": p_i,
                                                                            "alpha": alpha}, key=key, tags=tags)
    if not (df.equals(snap) and list(df.dtypes) == list(snap.dtypes) and df.index.equals(snap.index)
            and list(df.columns) == list(snap.columns)):
        return bad("argument-mutated:data", {"fn": "pearsonr"}, key=key, tags=tags)
    c2, p2 = CITests.pearsonr(rebuilt(yn), rebuilt(xn), [rebuilt(q) for q in zn], df, boolean=False)
    if not same_float(c2, coef_i, 1e-9):
        return bad("impl!=property:pearson-swap-xy", {"base": coef_i, "transformed": float(c2)}, key=key, tags=tags)
    return ok(nontrivial=True, key=key, tags=tags)


def run_pearson_big(case, drv):
    import numpy as np
    import pandas as pd
    from pgmpy.estimators import CITests
    den, big = case["den"], case["big"]
    z, x, y = case["z"], case["x"], case["y"]
    n = len(x)
    nz = len(z[0]) if z else 0
    cols = [np.array(x) / den, np.array(y) / den] + [np.array([r[j] for r in z]) / den for j in range(nz)]
    delta = 1.0
    if big.get("delta_bits") and nz == 2:
        delta = 2.0 ** -big["delta_bits"]
        cols[3] = cols[2] + delta * cols[3]            # exact in floats: two nearly collinear conditioning columns
    names = ["X", "Y"] + ["Z%d" % j for j in range(nz)]
    zn = names[2:]
    given = []
    for j, col in enumerate(cols):
        sd = float(col.std()) or 1.0
        given.append((col + big["offsets"][j] * sd) * big["scales"][j])      # float arithmetic: the data AS GIVEN
    df = pd.DataFrame({nm: g for nm, g in zip(names, given)})
    # conditioning of the data itself: a column with |mean|/spread = k carries 16 - log10(k) digits
    kappa = 1.0
    for g in given:
        sd = float(np.std(g))
        if sd > 0:
            kappa = max(kappa, abs(float(np.mean(g))) / sd)
    zscales = [big["scales"][j] for j in range(2, nz + 2)]
    tags = ["kind:pearson_big", "nz:%d" % nz, "big:" + big["type"], "offset/spread:1e%d" % round(math.log10(kappa)),
            "unit-span:1e%d" % round(math.log10(max(big["scales"])) - math.log10(min(big["scales"])))]
    key = common.canon_key(["pearson_big", z, x, y, big, case["alpha"]])
    # the untransformed dyadic data: is the partial correlation defined at all, and how much of X and Y is left
    # after regressing on Z (a small residual amplifies every perturbation of the data by spread/residual spread)
    fb = lambda v: Fraction(v, den)
    zb = [[Fraction(float(cols[2 + j][i])) for j in range(nz)] for i in range(n)]
    mb = drv.call("c19_pearson", [nz == 0, zb, [fb(v) for v in x], [fb(v) for v in y]])
    if not mb[3]:
        return ok(nontrivial=False, key=key, tags=tags + ["corr:undefined"])
    amp = 1.0
    for res, col in ((mb[0], cols[0]), (mb[1], cols[1])):
        rs = float(np.std([float(common.frac(v)) for v in res]))
        amp = max(amp, float(col.std()) / rs)
    fr = lambda a: [Fraction(float(v)) for v in a]
    zr = [[Fraction(float(given[2 + j][i])) for j in range(nz)] for i in range(n)]
    if big["type"] == "magnitude":
        # pure unit changes by 1e-300..1e300: the exact answer is the one of the unscaled data
        # (C19_pearson_shift_scale_invariant); the float product perturbs every entry by <= 1 ulp
        m = mb
    else:
        m = drv.call("c19_pearson", [nz == 0, zr, fr(given[0]), fr(given[1])])
    corr = m[3]
    if not corr:
        return ok(nontrivial=False, key=key, tags=tags + ["corr:undefined"])
    r_m = corr[0][0] * math.sqrt(float(common.frac(corr[0][1])))
    coef_i, p_i = CITests.pearsonr("X", "Y", zn, df, boolean=False)
    coef_i, p_i = float(coef_i), float(p_i)
    eps = 2.220446049250313e-16
    tol = max(1e-8, 256.0 * eps * kappa * n * amp * amp / delta)
    tol_p = max(1e-8, 10.0 * math.sqrt(n) * tol)
    p_m = pearson_p(r_m, n)
    detail = {"impl": [coef_i, p_i], "model_exact_on_given_floats": [r_m, p_m], "tolerance": tol, "offset/spread": kappa, "spread/residual-spread": amp,
              "offsets": big["offsets"], "scales": big["scales"], "n": n}
    if not (abs(coef_i - r_m) <= tol and abs(p_i - p_m) <= tol_p):
        # (before fix 3ee69a0 lstsq(rcond=None) on the raw [1 Z] dropped a conditioning column with a large offset
        # or a very different unit)
        # (before fix 0b5f1ee the Euclidean norm used for scaling under/overflowed for Z units beyond 1e+-154)
        return bad("impl!=model:pearson-conditioning", detail, key=key, tags=tags)
    alpha = case["alpha"]
    v_i = bool(CITests.pearsonr("X", "Y", zn, df, boolean=True, significance_level=alpha))
    if abs(p_m - alpha) > tol_p and v_i != bool(drv.call("c19_verdict", [p_opt(p_m), Fraction(alpha)])):
        return bad("impl!=model:verdict", detail, key=key, tags=tags)
    return ok(nontrivial=True, key=key, tags=tags)


def run_psession(case, drv):
    import numpy as np
    import pandas as pd
    from pgmpy.estimators import CITests
    den = case["den"]
    k = len(case["cols"])
    names = ["v%d" % i for i in range(k)]
    df = pd.DataFrame({names[c]: [v / den for v in case["cols"][c]] for c in range(k)})
    tags = ["kind:psession", "calls:%d" % len(case["steps"])]
    key = common.canon_key(["psession", case["cols"], case["steps"]])
    prevZ = None
    for i, st in enumerate(case["steps"]):
        e = st["edit"]
        if e:
            tags.append("pedit:" + e[0])
            if e[0] == "setcol":
                df[names[e[1]]] = [v / den for v in e[2]]
            elif e[0] == "loc":
                for lab, c, v in e[1]:
                    df.iloc[lab, c] = v / den
            elif e[0] == "scalecol":
                df[names[e[1]]] *= e[2]
            elif e[0] == "perm":
                df.loc[:, :] = df.values[e[1]]
            elif e[0] == "sort":
                df.sort_values(by=[names[c] for c in e[1]], ascending=e[2], inplace=True, kind="stable")
        X, Y, Z = st["X"], st["Y"], st["Z"]
        if prevZ is not None and Z and sorted(Z) == sorted(prevZ) and e:
            tags.append("same-Z-after-edit")
        prevZ = Z
        cur = {c: [Fraction(float(v)) for v in df[names[c]].values] for c in range(k)}     # current content
        n = len(df)
        m = drv.call("c19_pearson", [not Z, [[cur[c][r] for c in Z] for r in range(n)], cur[X], cur[Y]])
        zn = [names[c] for c in Z]
        coef, pv = CITests.pearsonr(names[X], names[Y], zn, df, boolean=False)
        coef2, pv2 = CITests.pearsonr(names[X], names[Y], zn, df.copy(), boolean=False)
        detail = {"step": i, "edit": e, "X": X, "Y": Y, "Z": Z, "session": [float(coef), float(pv)],
                  "fresh_copy": [float(coef2), float(pv2)]}
        if not m[3]:
            continue
        r_m = m[3][0][0] * math.sqrt(float(common.frac(m[3][0][1])))
        detail["model"] = r_m
        if not same_float(coef2, r_m, 1e-8):
            return bad("impl!=model:pearson-coef", detail, key=key, tags=tags)
        if not same_float(coef, r_m, 1e-8) or not same_float(pv, pv2, 1e-8, True):
            return bad("impl!=model:session-stale", detail, key=key, tags=tags)
        v_s = bool(CITests.pearsonr(names[X], names[Y], zn, df, boolean=True, significance_level=st["alpha"]))
        if v_s != bool(drv.call("c19_verdict", [p_opt(pv), Fraction(st["alpha"])])):
            return bad("impl!=model:verdict", detail, key=key, tags=tags)
    return ok(nontrivial=True, key=key, tags=tags)


def run_pc(case, drv):
    """PC.build_skeleton(ci_test=<name>) on 2 or 3 variables: an edge survives iff no tested conditioning set gives
    the verdict True (PC-stable / parallel: neighbours frozen per level; 2 variables: only Z = ())"""
    import itertools
    import pandas as pd
    from pgmpy.estimators import PC
    t, nv, alpha = case["test"], case["nv"], case["alpha"]
    names = ["a", "b", "c"][:nv]
    rows = case["rows"]
    tags = ["kind:pc", "pc-test:" + t, "pc-variant:" + case["variant"], "pc-nv:%d" % nv]
    key = common.canon_key(["pc", t, rows, alpha, case["variant"], case["lambda"]])
    kw = {}
    if t == "pearsonr":
        df = pd.DataFrame({names[c]: [r[c] / 16 for r in rows] for c in range(nv)})
    else:
        df = pd.DataFrame({names[c]: [r[c] for r in rows] for c in range(nv)})
    ci = "power_divergence" if t == "power_divergence_default" else t
    lwire = []
    w = t
    if case["lambda"] is not None:
        kw["lambda_"] = case["lambda"]
        w = "power_divergence"
        lwire = [0, LNAMES.index(case["lambda"])] if isinstance(case["lambda"], str) else [1, Fraction(case["lambda"])]
        tags.append("pc-lambda:%s" % case["lambda"])

    def verdict(u, v, Z):
        if t == "pearsonr":
            fr = lambda c: [Fraction(r[c], 16) for r in rows]
            m = drv.call("c19_pearson", [not Z, [[Fraction(r[c], 16) for c in Z] for r in rows], fr(u), fr(v)])
            if not m[3]:
                return False, float("nan")
            p = pearson_p(m[3][0][0] * math.sqrt(float(common.frac(m[3][0][1]))), len(rows))
        else:
            m = drv.call_e("c19_pd", [WRAPPERS.index(w), lwire, [[]] * nv, rows, u, v, list(Z)])
            if m[0] == "err":
                return None, None
            lam, cells, dof, pkind = m[1]
            p = eval_p(pkind, eval_stat(common.frac(lam), cells), dof)
        return bool(drv.call("c19_verdict", [p_opt(p), Fraction(alpha)])), p

    if nv == 2 and t != "pearsonr" and case["lambda"] is None:
        # dispatch of the test NAME: significance levels strictly between the p-values of the five named tests, so
        # that a name resolved to another test's function changes the skeleton
        ps = {}
        for name in WRAPPERS[:5]:
            m = drv.call_e("c19_pd", [WRAPPERS.index(name), [], [[]] * nv, rows, 0, 1, []])
            if m[0] == "err":
                return ok(nontrivial=False, key=key, tags=tags + ["pc:model-error"])
            lam, cells, dof, pkind = m[1]
            ps[name] = eval_p(pkind, eval_stat(common.frac(lam), cells), dof)
        nsep = 0
        for name in WRAPPERS[:5]:
            for other in WRAPPERS[:5]:
                if ps[name] != ps[name] or ps[other] != ps[other] or abs(ps[name] - ps[other]) < 1e-5:
                    continue
                a = (ps[name] + ps[other]) / 2
                exp_edge = not (ps[name] >= a)
                sk, _ = PC(df).build_skeleton(ci_test="power_divergence" if name == "power_divergence_default" else name,
                                              significance_level=a, variant=case["variant"], n_jobs=1, show_progress=False)
                nsep += 1
                if (len(sk.edges()) == 1) != exp_edge:
                    return bad("impl!=model:pc-dispatch", {"ci_test": name, "alpha": a, "p_model": ps, "edge": len(sk.edges()) == 1,
                                                           "expected_edge": exp_edge}, key=key, tags=tags)
        tags.append("pc-dispatch-separations:%s" % ("0" if nsep == 0 else ">0"))
    edges = set(itertools.combinations(range(nv), 2))
    knife = False
    for lim in range(0, nv - 1):
        nbrs = {u: {b for (a, b) in edges if a == u} | {a for (a, b) in edges if b == u} for u in range(nv)}
        if all(len(nbrs[u]) < lim for u in range(nv)):
            break
        for (u, v) in sorted(edges):
            sets = list(itertools.combinations(sorted(nbrs[u] - {v}), lim)) + list(itertools.combinations(sorted(nbrs[v] - {u}), lim))
            for Z in sets:
                vd, p = verdict(u, v, Z)
                if vd is None:
                    return ok(nontrivial=False, key=key, tags=tags + ["pc:model-error"])
                if p == p and abs(p - alpha) < 1e-6:
                    knife = True
                if vd:
                    edges.discard((u, v))
                    break
    if knife:
        return ok(nontrivial=False, key=key, tags=tags + ["pc:knife-edge"])
    snap = df.copy(deep=True)
    sk, sep = PC(df).build_skeleton(ci_test=ci, significance_level=alpha, variant=case["variant"], n_jobs=1,
                                    show_progress=False, **kw)
    got = {tuple(sorted((names.index(a), names.index(b)))) for a, b in sk.edges()}
    if got != edges:
        return bad("impl!=model:pc-skeleton", {"impl": sorted(got), "model": sorted(edges), "test": t, "alpha": alpha,
                                               "variant": case["variant"]}, key=key, tags=tags)
    if not df.equals(snap):
        return bad("argument-mutated:data", {"fn": "PC.build_skeleton"}, key=key, tags=tags)
    tags.append("pc-edges:%d" % len(edges))
    return ok(nontrivial=True, key=key, tags=tags)


def model_triple(drv, w, kinds, rows, X, Y, Z):
    m = drv.call_e("c19_pd", [WRAPPERS.index(w), [], [[] if k is None else [k] for k in kinds], rows, X, Y, Z])
    if m[0] == "err":
        return ("err", m[1])
    lam, cells, dof, pkind = m[1]
    st = eval_stat(common.frac(lam), cells)
    return ("ok", st, eval_p(pkind, st, dof), dof)


def run_session(case, drv):
    import numpy as np
    import pandas as pd
    from pgmpy.estimators import CITests
    ncols = case["ncols"]
    names = ["c%d" % i for i in range(ncols)]
    df = pd.DataFrame({names[c]: [r[c] for r in case["rows"]] for c in range(ncols)})
    tags = ["kind:session", "calls:%d" % len(case["steps"])]
    key = common.canon_key(["session", case["rows"], case["steps"]])
    if case.get("index"):
        df.index = make_index(case["index"], len(df), case.get("sh", 0))
        tags.append("session-index:" + case["index"])
    fake = {"w": None, "larg": None, "alpha": None}
    prevZ = None
    for i, st in enumerate(case["steps"]):
        e = st["edit"]
        if e:
            tags.append("edit:" + e[0])
            if e[0] == "setcol":
                df[names[e[1]]] = e[2]
            elif e[0] == "loc":
                for lab, c, v in e[1]:
                    df.iloc[lab, c] = v
            elif e[0] == "sort":
                df.sort_values(by=[names[c] for c in e[1]], ascending=e[2], inplace=True, kind="stable")
            elif e[0] == "perm":
                df.loc[:, :] = df.values[e[1]]
            elif e[0] == "addcol":
                names.append("c%d" % len(names))
                df[names[-1]] = e[1]
        X, Y, Z = st["X"], st["Y"], st["Z"]
        if prevZ is not None and Z and sorted(Z) == sorted(prevZ) and e:
            tags.append("same-Z-after-edit")
        prevZ = Z
        fake["w"], fake["alpha"] = st["w"], st["alpha"]
        fake["zform"], fake["callform"] = st.get("zform", "list"), st.get("callform", "kw")
        rows = [[int(v) for v in r] for r in df[names].values.tolist()]      # the frame's CURRENT content
        kinds = [None] * len(names)
        model = model_triple(drv, st["w"], kinds, rows, X, Y, Z)
        impl = impl_triple(fake, df, names, X, Y, Z)
        fresh = impl_triple(fake, df.copy(), names, X, Y, Z)
        detail = {"step": i, "edit": e, "X": X, "Y": Y, "Z": Z, "w": st["w"], "session": impl, "fresh_copy": fresh,
                  "model": model}
        if not triples_agree(fresh, model):
            return bad("impl!=model:statistic", detail, key=key, tags=tags)
        if not triples_agree(impl, model):
            return bad("impl!=model:session-stale", detail, key=key, tags=tags)
        if impl[0] == "ok":
            v_s = bool(call_impl(fake, df, names, X, Y, Z, True))
            v_m = bool(drv.call("c19_verdict", [p_opt(impl[2]), Fraction(st["alpha"])]))
            if v_s != v_m:
                return bad("impl!=model:verdict", detail, key=key, tags=tags)
    return ok(nontrivial=True, key=key, tags=tags)


def run_case(case, drv):
    if case["kind"] == "session":
        return run_session(case, drv)
    if case["kind"] == "pearson_big":
        return run_pearson_big(case, drv)
    if case["kind"] == "psession":
        return run_psession(case, drv)
    if case["kind"] == "pc":
        return run_pc(case, drv)
    if case["kind"] in ("disc", "indep", "bad"):
        return run_disc(case, drv)
    if case["kind"] == "pearson":
        return run_pearson(case, drv)
    return bad("unknown-case-kind", {"kind": case.get("kind")})
