"""Worker process: `python -m harness.worker <module>`; reads one JSON case per line on stdin,
writes one JSON outcome per line on stdout.  PYTHONHASHSEED / PYTHONPATH are set by the parent."""
import importlib
import json
import sys
import traceback
import os
import signal


class CaseTimeout(BaseException):
    pass


def _on_alarm(signum, frame):
    raise CaseTimeout()


def main():
    signal.signal(signal.SIGALRM, _on_alarm)
    modname = sys.argv[1]
    # keep pgmpy/tqdm chatter away from the protocol stream
    proto = os.fdopen(os.dup(1), "w")
    os.dup2(2, 1)
    sys.stdout = sys.stderr
    from harness import common

    common.quiet()
    mod = importlib.import_module("harness." + modname)
    common.assert_repo_pgmpy()
    drv = common.Driver(mod.PROP)
    if hasattr(mod, "worker_init"):
        mod.worker_init()
    proto.write(json.dumps({"ready": True, "hashseed": os.environ.get("PYTHONHASHSEED")}) + "\n")
    proto.flush()
    for line in sys.stdin:
        line = line.strip()
        if not line:
            continue
        case = json.loads(line)
        try:
            signal.alarm(int(getattr(mod, "CASE_TIMEOUT_S", 300)))
            try:
                out = mod.run_case(case, drv)
            finally:
                signal.alarm(0)
            if out is None:
                out = common.ok()
        except CaseTimeout:
            out = common.bad("timeout", {"seconds": getattr(mod, "CASE_TIMEOUT_S", 300),
                                         "note": "pgmpy or the model did not return in time on this case"})
            drv.close()
        except Exception:
            out = common.bad(
                "harness-exception",
                {"traceback": traceback.format_exc()[-3000:]},
            )
        out["hashseed"] = os.environ.get("PYTHONHASHSEED")
        proto.write(json.dumps(out, default=str) + "\n")
        proto.flush()
    drv.close()


if __name__ == "__main__":
    main()
