"""C20 correspondence: pgmpy linear-Gaussian networks / Gaussian & canonical distributions vs the extracted
Coq model (coq/C20/Model.v over exact rationals) and vs independent defining formulas.

Three things are compared for every operation, always BY VARIABLE NAME:
  impl  = pgmpy in /repo (floats)
  model = the extracted Gallina model (exact Qc; theorems of coq/C20/Props.v are about it)
  spec  = an independent computation written here from the defining formula (exact Fractions for the
          structural-equation covariance, numpy conditional-Gaussian formulas with np.ix_ blocks, lstsq)
"""
import itertools
import math
import random
from fractions import Fraction

from harness import common
from harness.common import ok, bad

PROP = "C20"
LEVEL = "proof"
HASHSEEDS = {"quick": [0, 1, 2, 3], "thorough": [0, 1, 2, 3, 4, 5, 6, 7]}
BUDGET_S = {"quick": 150, "thorough": 1500}
EXHAUSTIVE = {"quick": False, "thorough": False}
RULE = ("random DAGs with 1..6 nodes, node names str / int / mixed with insertion order, topological order and "
        "alphabetical order all different in general, dyadic intercepts/coefficients/variances (floats exact), "
        "CPD evidence order shuffled against get_parents, CPDs added in shuffled order with occasional "
        "replacement: to_joint_gaussian mean/cov vs model and vs the exact structural-equation recursion; "
        "predict for EVERY missing subset of size 1..3 (and all-missing for n<=3) with 1..3 dyadic data rows, "
        "shuffled frame columns and an irrelevant extra column, vs model and vs an independent np.ix_ "
        "conditional-Gaussian computation, compared per named variable; fit on dyadic data of full column rank "
        "vs model (normal equations) and np.linalg.lstsq, variance vs RSS/(n-1), plus an INDEX stream: the same rows "
        "under RangeIndex / shifted (400..) / permuted / reversed / gapped / duplicate / string row labels on DAGs "
        "whose nodes have 1..3 parents (the index is not data: coefficients, intercept and variance of every node must "
        "equal the model's); GaussianDistribution "
        "marginalize (every subset) / reduce (every proper subset, shuffled value order) / to_canonical_factor "
        "(K, h, g) / canonical round trip / product & divide with an overlapping second scope, vs model and numpy "
        "formulas; plus a malformed stream (no missing variable, evidence that is not an earlier node, unknown "
        "variable in reduce, foreign CPD); plus usage SEQUENCES of 2..5 steps on one GaussianDistribution object from "
        "{precision_matrix, to_canonical_factor, copy, marginalize, reduce, product, divide; in place or continuing "
        "with the returned object}, one third of them directed (fill the cache, marginalise, use the precision API), "
        "with mean / covariance / cached and public precision / canonical K, h, g of the object, of the object left "
        "behind and of the other operand compared after EVERY step against the model state machine and from-scratch "
        "formulas.  Non-trivial: >=2 variables and >=1 edge (networks) / >=2 variables "
        "(distributions); distinct = distinct canonical input")
RULE += (
    "  Generalisation classes (notes/GENERALISATION_CHECKLIST.md): "
    "A sessions: `session` stream = one network object edited through add_cpds replacement, remove_cpds(+object or name)+"
    "add_cpds, fit again (REUSED frame object overwritten in place), remove_edge/add_edge, with to_joint_gaussian and a "
    "predict (reused frame object) checked against the model on the current state after every step; `seq` stream = the "
    "same for one GaussianDistribution object incl. its precision cache.  B purity: frames given to predict/fit, CPD "
    "objects, reduce/marginalize argument lists, product operands and caller-owned ndarrays are compared with deep "
    "snapshots.  C result independence: every returned array (to_joint_gaussian, predict, marginalize/reduce/product/copy "
    "results, canonical results and copies) is overwritten and the call repeated; distributions are also constructed from "
    "C-contiguous float64 ndarrays and from a view of a larger reused buffer.  D frames: RangeIndex/shifted/permuted/"
    "reversed/gapped/duplicate/string row labels for fit AND predict, physically permuted rows, int64 frames, zero-row "
    "frames, shuffled columns, irrelevant constant column; categorical/bool columns do not apply (continuous data only).  "
    "E names: str/int/mixed (incl. '' and 0), substring/prefix/digit-string/format-like names (x1,x10,x,1,10,G,G2,{0}), "
    "tuples for distributions (sklearn rejects mixed-type and pandas tuple column names, so fit uses one type, frames no "
    "tuples).  F state names: not applicable (continuous variables have no states).  G sizes: 9-10 variable networks with "
    "small-int names >= 8 and a directed path through all nodes, missing sets of size 1..n, single-node/edgeless "
    "networks, empty marginalize/reduce lists, zero-row frames, exact zero coefficients/intercepts/values, falsy names.  "
    "H magnitudes: `gaussmag` rescales every variable by 2^-60..2^60 with tolerances relative to the quantity's unit; "
    "networks with intercepts*2^20 and variances*2^30; magnitudes BELOW 1e-8 cannot be tested on networks because "
    "to_joint_gaussian itself rounds to 8 decimals: the `tiny` stream (variances 2^-30..2^-40, coefficient 2^-12 on variance "
    "2^-20) requires pgmpy == the as-coded model (exact joint rounded to 8 decimals) entrywise and diagnoses the known "
    "finding joint-gaussian-rounded-8-decimals exactly when that differs from the exact joint by > 1e-9 of the entry's unit.  "
    "N equal-not-identical: CPD variable/evidence names, frame columns, marginalize/reduce/get_cpds arguments are rebuilt "
    "objects (joined strings, re-parsed ints incl. a `bigint` name style above the small-int cache, rebuilt tuples).  O "
    "containers: evidence_mean as list/ndarray/tuple, add_cpds(*generator), canonical marginalize/reduce with list/tuple/"
    "object ndarray; GaussianDistribution.marginalize/reduce document and enforce `list`; a tuple as LinearGaussianCPD "
    "evidence is rejected by the code as written (TypeError) and is not generated.  P sizes: 9/10-node networks (12 nodes cost a minute per case in exact rationals) with a "
    "path through all nodes, fit row counts 8/9/16/17/33.  Q not applicable (no probability tables).  R combinations "
    "arise by independent random choice (index kind x int64 x extra column x zero rows x distribution=, inplace x "
    "operator, several add_cpds calls x repeated variables x replacement).  add_cpds is driven by a generated CALL PLAN: "
    "one or several calls, 1..3 CPDs per variable, superseded ones anywhere before the final one incl. within the same "
    "call for a variable new to the model; cpds order, len, get_cpds identity, joint and predict are compared "
    "(C20_add_cpds_last_wins).  I backends: not applicable (these classes are numpy only).  J variants: inplace True/False and operators * / for "
    "Gaussian and canonical forms, predict(distribution='joint'), fit(method='mle'), LinearGaussianCPD.fit(MLE|MAP), "
    "normalize, get_random, simulate (replayed with the same numpy generator).  K rejections: add_cpds(good, foreign, good) "
    "(state = model after the good prefix), reduce/marginalize with a LATER unknown variable in place (object unchanged), "
    "fit without a column (CPDs unchanged), simulate with a CPD missing, predict without a missing variable, wrong-shape "
    "constructors.  L orders: node/edge/CPD insertion, evidence vs parents, frame columns, value order in reduce, row "
    "order, missing-set iteration order under several hash seeds.  M budget: handled by tools/check.py (seeded shuffle).")

TRUSTED_BASE = ["numpy linalg.inv / matmul / fancy indexing / np.delete / round, sklearn LinearRegression and pandas "
                "mean/var(ddof=1) are modelled by their documented meaning (Base/Matrix.v); the model's inverse is a "
                "Gauss-Jordan search whose result is checked (W*A = I = A*W) inside the model before use",
                "networkx topological_sort: its output is an input of the model (checked to be a topological order "
                "by the harness on every case)",
                "float arithmetic is not modelled: inputs are dyadic (exact floats), outputs compared at 1e-7 "
                "(joint / predict, because of the 8-decimal rounding in to_joint_gaussian) or 1e-8"]
ASSUMPTIONS = ["node names are interned to nat identifiers by the harness",
               "python set iteration order of predict's missing set is a free order parameter: the model is run with "
               "the order pgmpy returned and must agree by name",
               "the Gaussian density itself (exp/log/det) is not modelled: g of the canonical form is compared with "
               "its formula in floating point only (the quadratic summand of CanonicalDistribution.marginalize's g' is "
               "modelled as coded and refuted against the defining formula: known finding canonical-marginalize-g)"]

# open entry of known_findings.json: CanonicalDistribution.marginalize computes g' with h_Y^T K_YY h_Y instead of
# h_Y^T K_YY^-1 h_Y (K', h' right).  Diagnosed narrowly in run_gauss; any other deviation is an unlisted violation.
FINDING_CANON_G = "canonical-marginalize-g"


TOL_R = 1e-7   # downstream of the 8-decimal rounding
TOL = 1e-8


# ------------------------------------------------------------------ helpers
def fr(p):
    return Fraction(p[0], p[1])


def jf(x):
    x = Fraction(x)
    return [x.numerator, x.denominator]


def dy(rng, lo, hi, den=4):
    return Fraction(rng.randint(lo * den, hi * den), den)


def names_for(n, style, nameseed):
    rng = random.Random(nameseed)
    if style == "str":
        pool = ["x1", "B", "a", "Z", "m", "c2", "Y", "k", "d", "W", "q", "R"]
    elif style == "int":
        pool = list(range(0, 9))
    elif style == "bigint":         # ints outside CPython's small-int cache: equal ints are distinct objects
        pool = [300, 1000, 257, 4096, 999, 70000, 2 ** 40, 512, 1025, 65537, 333, 100000]
    elif style == "int9":           # small ints >= 8: a set of them does not iterate in increasing order
        pool = list(range(0, 14))
    elif style == "substr":         # one name a substring / prefix of another, digit strings, format-ish names
        pool = ["x1", "x10", "x", "x11", "1", "10", "G", "G2", "x1_mu", "mean", "0", "{0}"]
    elif style == "tuple":          # only where no pandas frame is involved
        pool = [("v", 1), ("v", 10), "v", 1, ("w",), ("v", 1, 0), "w", 10, (1, "v"), 0]
    else:
        pool = ["x", 0, "b", 7, "Zz", 3, "a", 11, "y", 5, "", 8]
    rng.shuffle(pool)
    return pool[:n]


def fresh(name):
    """an EQUAL but not IDENTICAL name object (class N): queries never hand back the very objects stored in the model"""
    if isinstance(name, str):
        return "".join(list(name)) if len(name) > 1 else name
    if isinstance(name, bool):
        return name
    if isinstance(name, int):
        return int(str(name))
    if isinstance(name, tuple):
        return tuple(fresh(x) for x in list(name))
    return name


def close(a, b, tol):
    return common.approx(a, b, tol)


def mat_close(A, B, tol):
    """A: numpy 2-D / nested floats, B: nested Fractions; same shape required"""
    if len(A) != len(B):
        return False
    for ra, rb in zip(A, B):
        if len(ra) != len(rb):
            return False
        for x, y in zip(ra, rb):
            if not close(x, y, tol):
                return False
    return True


def fmat(M):
    return [[fr(x) for x in r] for r in M]


def fvec(v):
    return [fr(x) for x in v]


def tofl(M):
    return [[float(x) for x in r] for r in M]


# ------------------------------------------------------------------ case generation
def gen_lgbn(rng, nmax=6, style=None, mag=False):
    n = rng.randint(1, nmax)
    nodes, edges = common.rand_dag(rng, n, p=rng.choice([0.3, 0.5, 0.7, 0.9]))
    style = style or rng.choice(["str", "int", "mixed", "substr", "bigint"])
    zero_ok = rng.random() < 0.35             # exact zero coefficients / intercepts ('x or default' shortcuts)
    # magnitudes: intercepts up to 2^20, variances up to 2^30 (exact in floats; the model is exact anyway)
    sa = Fraction(2) ** rng.choice([10, 20]) if mag else Fraction(1)
    sb = Fraction(2) ** rng.choice([10, 20, 30]) if mag else Fraction(1)
    cpds = []
    for v in range(n):
        pa = [u for (u, w) in edges if w == v]
        rng.shuffle(pa)
        ks = [k for k in range(-8, 9) if k != 0] + ([0, 0, 0, 0] if zero_ok else [])
        mean = [(Fraction(0) if zero_ok and rng.random() < 0.3 else dy(rng, -3, 3)) * sa] \
            + [Fraction(rng.choice(ks), 4) for _ in pa]
        var = rng.choice([Fraction(1, 4), Fraction(1, 2), Fraction(3, 4), Fraction(1), Fraction(3, 2),
                          Fraction(2), Fraction(4)]) * sb
        cpds.append([v, [jf(x) for x in mean], jf(var), pa])
    add_order = list(range(n))
    rng.shuffle(add_order)
    dummy = None
    c = {"kind": "lgbn", "n": n, "nodes": nodes, "edges": [list(e) for e in edges], "style": style,
         "nameseed": rng.randint(0, 10**9), "cpds": cpds, "add_order": add_order, "dummy": dummy,
         "dseed": rng.randint(0, 10**9), "add_calls": gen_add_calls(rng, cpds, add_order)}
    if mag:
        c["mag"] = [int(sa), int(sb)]
    return c


def gen_add_calls(rng, cpds, add_order):
    """how the CPDs reach the model: a sequence of add_cpds(*args) calls.  Items are variable numbers (the final CPD of
    the case) or explicit superseded CPDs [v, mean, var, evidence] for the same variable placed somewhere BEFORE the
    final one -- in the same call (variable new to the model, or already present) or in an earlier call; 1..3 CPDs per
    variable, interleaved with the others.  The last CPD added for a variable must win."""
    by = {c[0]: c for c in cpds}
    items = list(add_order)
    for v in add_order:
        for _ in range(rng.choice([0, 0, 0, 1, 1, 2])):
            pos = rng.randint(0, items.index(v))
            ev = list(by[v][3])
            rng.shuffle(ev)
            old = [v, [jf(dy(rng, -3, 3))] + [jf(Fraction(rng.choice([-6, -3, 1, 2, 5, 7]), 4)) for _ in ev],
                   jf(rng.choice([Fraction(1, 2), Fraction(3), Fraction(5, 4), Fraction(9)])), ev]
            items.insert(pos, old)
    mode = rng.random()
    if mode < 0.35:
        return [items]
    if mode < 0.55:
        return [[x] for x in items]
    calls, i = [], 0
    while i < len(items):
        k = rng.randint(1, max(1, len(items) - i))
        calls.append(items[i:i + k])
        i += k
    return calls


def gen_big(rng, allow10=True):
    """9..10 variables with small-int names >= 8, one long directed path (depth n-1) plus sparse extra edges;
    a sample of missing subsets of sizes 1..6 instead of all of them"""
    n = rng.choice([9, 9, 9, 10]) if allow10 else 9    # exact rational inverses grow fast: 12 nodes cost ~1 min per case
    order = list(range(n))
    rng.shuffle(order)
    edges = [[order[i], order[i + 1]] for i in range(n - 1)]
    for i in range(n):
        for j in range(i + 2, n):
            if rng.random() < 0.12:
                edges.append([order[i], order[j]])
    rng.shuffle(edges)
    nodes = list(range(n))
    rng.shuffle(nodes)
    cpds = []
    for v in range(n):
        pa = [u for (u, w) in edges if w == v]
        rng.shuffle(pa)
        mean = [dy(rng, -2, 2)] + [rng.choice([Fraction(-1), Fraction(-1, 2), Fraction(1, 2), Fraction(1), Fraction(3, 4)])
                                  for _ in pa]
        cpds.append([v, [jf(x) for x in mean], jf(rng.choice([Fraction(1, 2), Fraction(1), Fraction(2)])), pa])
    add_order = list(range(n))
    rng.shuffle(add_order)
    subsets = []
    for _ in range(7 if n == 9 else 3):
        subsets.append(sorted(rng.sample(range(n), rng.randint(1, 6))))
    return {"kind": "lgbn", "n": n, "nodes": nodes, "edges": edges, "style": "int9", "nameseed": rng.randint(0, 10**9),
            "cpds": cpds, "add_order": add_order, "dummy": None, "dseed": rng.randint(0, 10**9), "subsets": subsets}


def gen_fit(rng):
    n = rng.randint(1, 5)
    nodes, edges = common.rand_dag(rng, n, p=rng.choice([0.3, 0.6, 0.9]))
    maxp = max([sum(1 for (u, w) in edges if w == v) for v in range(n)] + [0])
    N = rng.randint(maxp + 2, maxp + 9)
    if rng.random() < 0.2:
        N = max(maxp + 2, rng.choice([8, 9, 16, 17, 33]))     # around batch sizes
    cols = list(range(n))
    rng.shuffle(cols)
    intdata = rng.random() < 0.25                       # integer-valued data in an int64 frame
    rows = [[jf(dy(rng, -4, 4, 1 if intdata else 4)) for _ in range(n)] for _ in range(N)]
    return {"kind": "fit", "n": n, "nodes": nodes, "edges": [list(e) for e in edges],
            "style": rng.choice(["str", "int", "substr", "bigint"]), "nameseed": rng.randint(0, 10**9), "cols": cols, "rows": rows,
            "extra": rng.random() < 0.4, "intdata": intdata}


INDEX_KINDS = ["range", "shifted", "permuted", "reversed", "gapped", "duplicate", "string"]


def gen_fit_index(rng):
    """fit() on the same rows under different pandas row indexes; DAG in which nodes have 1..3 parents"""
    n = rng.randint(3, 5)
    order = list(range(n))
    rng.shuffle(order)
    edges = []
    for j in range(1, n):
        k = rng.randint(1, min(3, j))                 # node order[j] gets 1..3 parents among the earlier ones
        for u in rng.sample(order[:j], k):
            edges.append([u, order[j]])
    rng.shuffle(edges)
    nodes = list(range(n))
    rng.shuffle(nodes)
    N = rng.randint(6, 14)
    cols = list(range(n))
    rng.shuffle(cols)
    rows = [[jf(dy(rng, -4, 4)) for _ in range(n)] for _ in range(N)]
    return {"kind": "fit", "n": n, "nodes": nodes, "edges": edges, "style": rng.choice(["str", "int"]),
            "nameseed": rng.randint(0, 10**9), "cols": cols, "rows": rows, "extra": rng.random() < 0.3,
            "indexes": list(INDEX_KINDS) + ["rowperm"], "iseed": rng.randint(0, 10**9)}


def make_index(kind, N, iseed):
    """row labels of the data frame: the index is not data, fit must not depend on it"""
    rng = random.Random("%s/%d" % (kind, iseed))
    if kind == "range":
        return None
    if N < 2 and kind in ("permuted", "reversed"):
        kind = "shifted"
    if kind == "shifted":
        return list(range(400, 400 + N))
    if kind == "permuted":
        while True:
            lab = list(range(N))
            rng.shuffle(lab)
            if lab != list(range(N)):
                return lab
    if kind == "reversed":
        return list(range(N - 1, -1, -1))
    if kind == "gapped":
        return sorted(rng.sample(range(1, 3 * N + 5), N))
    if kind == "duplicate":
        return [rng.randrange(max(2, N // 2)) for _ in range(N)]
    if kind == "string":
        lab = ["r%02d" % i for i in range(N)]
        rng.shuffle(lab)
        return lab
    raise ValueError(kind)


def rand_pd(rng, n):
    """exact dyadic positive-definite matrix L D L^T"""
    L = [[Fraction(0)] * n for _ in range(n)]
    for i in range(n):
        L[i][i] = Fraction(1)
        for j in range(i):
            L[i][j] = Fraction(rng.randint(-4, 4), 2)
    D = [rng.choice([Fraction(1, 4), Fraction(1, 2), Fraction(1), Fraction(2), Fraction(4)]) for _ in range(n)]
    return [[sum(L[i][k] * D[k] * L[j][k] for k in range(n)) for j in range(n)] for i in range(n)]


def gen_gauss(rng):
    n = rng.randint(1, 5)
    n2 = rng.randint(1, 3)
    shared = rng.randint(0, min(n, n2))
    # second distribution: `shared` variables of the first (random positions) + fresh ones
    v2 = rng.sample(range(n), shared) + list(range(n, n + n2 - shared))
    rng.shuffle(v2)
    return {"kind": "gauss", "n": n, "style": rng.choice(["str", "int", "mixed", "substr", "tuple", "bigint"]), "nameseed": rng.randint(0, 10**9),
            "mean": [jf(dy(rng, -3, 3)) for _ in range(n)], "cov": [[jf(x) for x in r] for r in rand_pd(rng, n)],
            "v2": v2, "mean2": [jf(dy(rng, -3, 3)) for _ in range(len(v2))],
            "cov2": [[jf(x) for x in r] for r in rand_pd(rng, len(v2))], "qseed": rng.randint(0, 10**9)}



def gen_seq(rng, directed=False):
    """a usage sequence of 2..5 steps on ONE GaussianDistribution object (see run_seq)"""
    n = rng.randint(2, 5)
    scope = list(range(n))
    rng.shuffle(scope)
    nxt = n
    case = {"kind": "seq", "style": rng.choice(["str", "int", "mixed", "substr", "tuple"]), "nameseed": rng.randint(0, 10**9),
            "vars": list(scope), "mean": [jf(dy(rng, -3, 3)) for _ in range(n)],
            "cov": [[jf(x) for x in r] for r in rand_pd(rng, n)], "steps": []}
    nsteps = rng.randint(2, 5)
    plan = None
    if directed:   # fill the cache, marginalise, then use the precision-based API
        plan = [rng.choice(["prec", "canon", "product-self", "copy-after-prec"]), "marg",
                rng.choice(["prec", "canon", "product", "copy"])]
        nsteps = len(plan)
    for i in range(nsteps):
        ops = ["prec", "canon", "copy", "product"]
        if len(scope) >= 2:
            ops += ["marg", "marg", "reduce"]
        if i == nsteps - 1:
            ops.append("divide")
        op = plan[i] if plan else rng.choice(ops)
        if op == "marg" and len(scope) < 2:
            op = "canon"
        if op == "copy-after-prec":
            case["steps"].append({"op": "prec"})
            op = "copy"
        if op in ("prec", "canon", "copy"):
            case["steps"].append({"op": op})
        elif op in ("marg", "reduce"):
            k = rng.randint(1, len(scope) - 1)
            sel = rng.sample(scope, k)
            st = {"op": op, "sel": sel, "inplace": rng.random() < 0.5}
            if op == "reduce":
                st["values"] = [jf(dy(rng, -3, 3)) for _ in sel]
            scope = [v for v in scope if v not in sel]
            case["steps"].append(st)
        else:
            self_cont = op == "product-self"
            opn = "divide" if op == "divide" else "product"
            n2 = rng.randint(1, 2)
            shared = rng.randint(0, min(len(scope), n2))
            fresh = n2 - shared if nxt + (n2 - shared) <= 8 else 0
            v2 = rng.sample(scope, shared) + list(range(nxt, nxt + fresh))
            if not v2:
                v2 = [scope[0]]
            nxt += fresh
            rng.shuffle(v2)
            inplace = (not self_cont) and rng.random() < 0.5
            cont = "self" if self_cont or (not inplace and opn == "product" and rng.random() < 0.3) else "result"
            case["steps"].append({"op": opn, "v2": v2, "mean2": [jf(dy(rng, -3, 3)) for _ in v2],
                                  "cov2": [[jf(x) for x in r] for r in rand_pd(rng, len(v2))],
                                  "inplace": inplace, "cont": cont})
            if cont == "result":
                scope = scope + [v for v in v2 if v not in scope]
    case["nvars"] = nxt
    return case


def cases(tier, seed):
    rng = random.Random(seed)
    out = []
    k = 1 if tier == "quick" else 10
    # a fixed small witness of the repaired defect D12 (two missing variables): always first
    out.append({"kind": "lgbn", "n": 3, "nodes": [0, 1, 2], "edges": [[0, 1], [1, 2]], "style": "str", "nameseed": 1,
                "cpds": [[0, [jf(1)], jf(4), []], [1, [jf(-5), jf(Fraction(1, 2))], jf(4), [0]],
                         [2, [jf(4), jf(-1)], jf(3), [1]]], "add_order": [0, 1, 2], "dummy": None, "dseed": 5})
    # the Coq refutation witness of the known finding canonical-marginalize-g, replayed on pgmpy
    out.append({"kind": "cwit"})
    for _ in range(80 * k):
        out.append(gen_lgbn(rng))
    for _ in range(30 * k):
        out.append(gen_lgbn(rng, nmax=6, style="mixed") if rng.random() < 0.5 else gen_lgbn(rng, nmax=3))
    for _ in range(50 * k):
        out.append(gen_fit(rng))
    for _ in range(40 * k):
        out.append(gen_fit_index(rng))
    for _ in range(70 * k):
        out.append(gen_gauss(rng))
    for i in range(100 * k):
        out.append(gen_seq(rng, directed=(i % 3 == 0)))
    whats = ["no-missing", "bad-evidence", "foreign-cpd", "reduce-unknown", "multi-add", "fit-missing-col",
             "simulate-incomplete", "get-random"]
    for i in range(32 * k):
        c = gen_lgbn(rng, nmax=4)
        c["kind"] = "bad"
        c["what"] = whats[i % len(whats)]
        out.append(c)
    for _ in range(25 * k):
        out.append(gen_lgbn(rng, nmax=5, mag=True))
    for _ in range(5 * k):
        out.append(gen_big(rng, allow10=(tier != "quick")))
    for _ in range(50 * k):
        out.append(gen_session(rng))
    for _ in range(24 * k):
        out.append(gen_gaussmag(rng))
    # the Coq witness of the known finding joint-gaussian-rounded-8-decimals (one node, variance ~1e-9), then random ones
    out.append({"kind": "tiny", "n": 1, "nodes": [0], "edges": [], "style": "str", "nameseed": 3,
                "cpds": [[0, [jf(0)], jf(Fraction(1, 2 ** 30)), []]], "add_order": [0], "dummy": None, "small": 0,
                "mode": "variance"})
    for _ in range(8 * k):
        out.append(gen_tiny(rng))
    return out


def shrink(case):
    if case["kind"] in ("lgbn", "bad") and case.get("n", 0) > 1:
        # drop one edge together with its coefficient
        for (u, w) in case["edges"]:
            c = dict(case)
            c["edges"] = [e for e in case["edges"] if e != [u, w]]
            cp = []
            for v, mean, var, ev in case["cpds"]:
                if v == w and u in ev:
                    k = ev.index(u)
                    mean = mean[:k + 1] + mean[k + 2:]
                    ev = ev[:k] + ev[k + 1:]
                cp.append([v, mean, var, ev])
            c["cpds"] = cp
            yield c
    if case["kind"] == "lgbn" and case.get("add_calls"):
        calls = case["add_calls"]
        flat = [x for call in calls for x in call]
        for i, x in enumerate(flat):
            if isinstance(x, list):                      # drop one superseded CPD (everything in one call)
                c = dict(case)
                c["add_calls"] = [flat[:i] + flat[i + 1:]]
                yield c
        if len(calls) > 1:
            c = dict(case)
            c["add_calls"] = [flat]
            yield c
    if case["kind"] == "lgbn" and "only" not in case:
        n = case["n"]
        for r in (2, 1, 3):
            for S in itertools.combinations(range(n), r):
                c = dict(case)
                c["only"] = list(S)
                yield c
    if case["kind"] == "seq":
        st = case["steps"]
        for i in range(len(st) - 1, -1, -1):       # drop a trailing / leading / scope-neutral step
            if i == len(st) - 1 or i == 0 or st[i]["op"] in ("prec", "canon", "copy"):
                if i == 0 and st[0]["op"] not in ("prec", "canon", "copy"):
                    continue
                c = dict(case)
                c["steps"] = st[:i] + st[i + 1:]
                if c["steps"]:
                    yield c
    if case["kind"] == "fit" and len(case.get("indexes", [])) > 1:
        for kind_ in case["indexes"]:
            c = dict(case)
            c["indexes"] = [kind_]
            yield c
    if case["kind"] == "fit":
        for (u, w) in case["edges"]:
            c = dict(case)
            c["edges"] = [e for e in case["edges"] if e != [u, w]]
            yield c


# ------------------------------------------------------------------ pgmpy builders
def build_lgbn(case):
    from pgmpy.models import LinearGaussianBayesianNetwork
    from pgmpy.factors.continuous import LinearGaussianCPD
    names = names_for(case["n"], case["style"], case["nameseed"])
    m = LinearGaussianBayesianNetwork()
    m.add_nodes_from([names[v] for v in case["nodes"]])
    m.add_edges_from([(names[u], names[v]) for u, v in case["edges"]])
    objs = {}
    import numpy as np
    for v, mean, var, ev in case["cpds"]:
        fm = [float(fr(x)) for x in mean]
        fm = (fm, np.array(fm), tuple(fm))[(v + case["nameseed"]) % 3]      # every documented array-like for evidence_mean
        # evidence / variable names are equal to, not identical with, the node objects of the graph
        objs[v] = LinearGaussianCPD(fresh(names[v]), fm, float(fr(var)), [fresh(names[u]) for u in ev])
    return m, names, objs


def model_cpds(case, add_seq):
    """cpds in add order, as the model's wire format"""
    by = {c[0]: c for c in case["cpds"]}
    out = []
    for item in add_seq:
        if isinstance(item, list):      # an explicit superseded cpd (Fractions, or [num, den] pairs from the case)
            v, mean, var, ev = item
            out.append([v, [x if isinstance(x, Fraction) else fr(x) for x in mean],
                        var if isinstance(var, Fraction) else fr(var), list(ev)])
        else:
            v, mean, var, ev = by[item]
            out.append([v, [fr(x) for x in mean], fr(var), list(ev)])
    return out


def exact_joint(case, order):
    """spec: mean and covariance implied by the structural equations X_v = b0 + sum b_p X_p + eps_v, computed
    by recursion along `order` with exact Fractions (no matrix inverse)"""
    by = {c[0]: c for c in case["cpds"]}
    mu, S = {}, {}
    done = []
    for v in order:
        _, mean, var, ev = by[v]
        b = [fr(x) for x in mean]
        mu[v] = b[0] + sum(bk * mu[p] for bk, p in zip(b[1:], ev))
        for u in done:
            S[(v, u)] = S[(u, v)] = sum(bk * S[(p, u)] for bk, p in zip(b[1:], ev))
        S[(v, v)] = fr(var) + sum(bk * bl * S[(p, q)] for bk, p in zip(b[1:], ev) for bl, q in zip(b[1:], ev))
        done.append(v)
    return mu, S


def np_round8(x):
    import numpy as np
    return float(np.round(float(x), 8))


# ------------------------------------------------------------------ LGBN: joint + predict
def run_lgbn(case, drv):
    import numpy as np
    import pandas as pd
    import networkx as nx
    m, names, objs = build_lgbn(case)
    n = case["n"]
    idx = {repr(nm): i for i, nm in enumerate(names)}
    tags = ["lgbn n=%d" % n, "style=" + case["style"], "edges=%d" % len(case["edges"])]
    # natural units of the case (1 unless it is a magnitude case): tolerances are relative to max(unit, |exact value|),
    # so that an exact zero next to entries of size 2^30 is not held to an absolute 1e-7
    sa_, sb_ = case.get("mag", [1, 1])
    uC = float(sb_)
    uM = max(float(sa_), math.sqrt(float(sb_)))

    def closeM(x, y, tol):
        return abs(float(x) - float(y)) <= tol * max(uM, abs(float(y)))

    def closeC(x, y, tol):
        return abs(float(x) - float(y)) <= tol * max(uC, abs(float(y)))

    # ---- add_cpds: one or several calls, possibly several CPDs for one variable within a call (the last one wins)
    from pgmpy.factors.continuous import LinearGaussianCPD
    calls = case.get("add_calls")
    if calls is None:                                   # older corpus cases
        calls = ([[[case["dummy"], [jf(9)], jf(9), []]]] if case.get("dummy") is not None else []) \
            + [[v] for v in case["add_order"]]
    add_seq = []
    for ci, call in enumerate(calls):
        args = []
        for item in call:
            if isinstance(item, list):
                v_, mean_, var_, ev_ = item
                args.append(LinearGaussianCPD(names[v_], [float(fr(x)) for x in mean_], float(fr(var_)), [names[u] for u in ev_]))
            else:
                args.append(objs[item])
            add_seq.append(item)
        if ci % 2:
            m.add_cpds(*(a_ for a_ in args))            # star-expansion of a one-shot iterator
        else:
            m.add_cpds(*args)
    if any(isinstance(x, list) for x in add_seq):
        tags.append("cpd-replaced")
    if any(len({(x[0] if isinstance(x, list) else x) for x in call}) < len(call) for call in calls):
        tags.append("add_cpds:same-variable-twice-in-one-call")
    mc = model_cpds(case, add_seq)
    got = [idx[repr(c.variable)] for c in m.cpds]
    exp = [c[0] for c in drv.call("c20_add_cpds", mc)]
    if got != exp or len(m.cpds) != n or any(m.cpds[i] is not objs[v] for i, v in enumerate(got)):
        return bad("impl!=model:add_cpds", {"impl": got, "model": exp, "calls": [[(x[0] if isinstance(x, list) else x) for x in call]
                                                                                 for call in calls]})
    for v in range(n):                                  # C20_add_cpds_last_wins, through the public accessor
        if m.get_cpds(fresh(names[v])) is not objs[v]:
            return bad("impl!=model:get_cpds-not-the-last-added", {"variable": v})
    m.check_model()

    order_names = list(nx.topological_sort(m))
    order = [idx[repr(x)] for x in order_names]
    pos = {v: i for i, v in enumerate(order)}
    if sorted(order) != list(range(n)) or any(pos[u] > pos[v] for u, v in case["edges"]):
        return bad("trusted-base:topological_sort", {"order": order, "edges": case["edges"]})
    if order != case["nodes"]:
        tags.append("topo!=insertion")
    if [repr(x) for x in order_names] != sorted(repr(x) for x in order_names):
        tags.append("topo!=alphabetical")

    # ---- to_joint_gaussian
    mu, cov = m.to_joint_gaussian()
    mmu, mcov = drv.call("c20_joint", [True, mc, order])
    mmu, mcov = fvec(mmu), fmat(mcov)
    if mu.shape != (n,) or cov.shape != (n, n):
        return bad("impl!=model:joint-shape", {"mu": list(mu.shape), "cov": list(cov.shape)})
    if not all(closeM(mu[i], mmu[i], TOL_R) for i in range(n)) or not all(closeC(cov[i_][j_], mcov[i_][j_], TOL_R) for i_ in range(n) for j_ in range(n)):
        return bad("impl!=model:to_joint_gaussian", {"order": order, "impl_mu": mu.tolist(), "impl_cov": cov.tolist(),
                                                       "model_mu": [float(x) for x in mmu], "model_cov": tofl(mcov)})
    emu, eS = exact_joint(case, order)
    for i, v in enumerate(order):
        if not closeM(mu[i], emu[v], TOL_R):
            return bad("impl!=spec:joint-mean", {"var": v, "impl": float(mu[i]), "spec": float(emu[v])})
        for j, w in enumerate(order):
            if not closeC(cov[i][j], eS[(v, w)], TOL_R):
                return bad("impl!=spec:joint-cov", {"vars": [v, w], "impl": float(cov[i][j]), "spec": float(eS[(v, w)])})
    # the unrounded model agrees with the exact recursion exactly (model sanity, ties the theorem's rnd = id case)
    umu, ucov = drv.call("c20_joint", [False, mc, order])
    if [fr(x) for x in umu] != [emu[v] for v in order] or fmat(ucov) != [[eS[(v, w)] for w in order] for v in order]:
        return bad("model!=spec:joint-exact", {"order": order})

    # ---- predict: every missing subset of size 1..3 (and everything missing when n <= 3)
    rng = random.Random(case["dseed"])
    subsets = []
    for r in range(1, min(3, n) + 1):
        subsets += list(itertools.combinations(range(n), r))
    if n >= 5 and "subsets" not in case:            # "one or several": also larger missing sets
        for _ in range(3):
            subsets.append(tuple(sorted(rng.sample(range(n), rng.randint(4, n)))))
    if "subsets" in case:
        subsets = [tuple(x) for x in case["subsets"]]
    if "only" in case:
        subsets = [tuple(case["only"])]
    cpd_snap = [(c, np.array(c.mean, copy=True), list(c.evidence), c.variance) for c in m.cpds]
    for si, S in enumerate(subsets):
        obs = [v for v in range(n) if v not in S]
        rng.shuffle(obs)
        nrows = 0 if rng.random() < 0.06 else rng.randint(1, 3)
        extra = rng.random() < 0.4
        intdata = rng.random() < 0.25             # integer-valued observations in an int64 frame
        colnames = [fresh(names[v]) for v in obs]
        rows = [[dy(rng, -4, 4, 1 if intdata else 4) for _ in obs] for _ in range(nrows)]
        frame_cols = list(colnames)
        frame_rows = [[float(x) for x in r] for r in rows]
        model_cols = list(obs)
        model_rows = [list(r) for r in rows]
        if extra or not obs:
            k = rng.randint(0, len(obs))
            frame_cols.insert(k, "__extra__")
            model_cols.insert(k, 1000)
            for fr_, mr_ in zip(frame_rows, model_rows):
                fr_.insert(k, 42.0)
                mr_.insert(k, Fraction(42))
        ikind = INDEX_KINDS[(si + case["dseed"]) % len(INDEX_KINDS)]
        labels = make_index(ikind, nrows, case["dseed"] + si)
        df = pd.DataFrame(np.array(frame_rows, dtype=float).reshape(nrows, len(frame_cols)),
                          columns=pd.Index(frame_cols, dtype=object),
                          index=None if labels is None else pd.Index(labels))
        if intdata:
            df = df.astype("int64")
        df_snap = df.copy(deep=True)
        res = m.predict(df, distribution="joint") if si % 2 else m.predict(df)
        if not df.equals(df_snap) or list(df.columns) != list(df_snap.columns) or list(df.index) != list(df_snap.index) \
                or list(df.dtypes) != list(df_snap.dtypes):
            return bad("impl!=spec:predict-mutates-data", {"missing": list(S)})
        if si == 0:
            tags.append("predict-index=" + ikind)
        if nrows == 0:
            tags.append("predict-zero-rows")
        if intdata:
            tags.append("predict-int64-frame")
        if not (isinstance(res, tuple) and len(res) == 3):
            return bad("impl!=spec:predict-return", {"missing": list(S)})
        pv, pmu, pcov = res
        pvi = [idx[repr(x)] for x in pv]
        a = len(S)
        if sorted(pvi) != sorted(S):
            return bad("impl!=spec:predict-variables", {"missing": list(S), "returned": pvi})
        pmu = np.asarray(pmu)
        pcov = np.asarray(pcov)
        if pmu.shape != (nrows, a) or pcov.shape != (a, a):
            return bad("impl!=spec:predict-shape", {"missing": list(S), "mu": list(pmu.shape), "cov": list(pcov.shape)})
        # model, run with pgmpy's order of the missing set
        st, mr = drv.call_e("c20_predict", [True, mc, order, pvi, model_cols, model_rows])
        if st != "ok":
            return bad("impl!=model:predict-model-error", {"missing": list(S), "code": mr})
        mnames, mmu_c, mcov_c = mr
        if mnames != pvi:
            return bad("impl!=model:predict-names", {"impl": pvi, "model": mnames})
        # independent computation by name from the reported joint, blocks with np.ix_, observed in sorted order
        A = [pos[v] for v in pvi]
        ob = sorted(obs)
        Bi = [pos[v] for v in ob]
        xb = np.array([[float(r[obs.index(v)]) for v in ob] for r in rows]).reshape(nrows, len(ob))
        Sab = cov[np.ix_(A, Bi)]
        Sbb = cov[np.ix_(Bi, Bi)]
        if ob:
            sol = np.linalg.solve(Sbb, (xb - mu[Bi]).T)          # b x nrows
            smu = mu[A][None, :] + (Sab @ sol).T
            scov = cov[np.ix_(A, A)] - Sab @ np.linalg.solve(Sbb, cov[np.ix_(Bi, A)])
        else:
            smu = np.repeat(mu[A][None, :], nrows, axis=0)
            scov = cov[np.ix_(A, A)]
        detail = {"missing_as_returned": pvi, "order": order, "cols": model_cols,
                  "rows": [[float(x) for x in r] for r in model_rows],
                  "impl_mu": pmu.tolist(), "impl_cov": pcov.tolist()}
        for q in range(a):
            for q2 in range(a):
                if not closeC(pcov[q][q2], fr(mcov_c[q][q2]), TOL_R):
                    detail.update({"model_cov": tofl(fmat(mcov_c)), "entry": [pvi[q], pvi[q2]]})
                    return bad("impl!=model:predict-cov", detail)
                if not closeC(pcov[q][q2], scov[q][q2], TOL_R):
                    detail.update({"spec_cov": scov.tolist(), "entry": [pvi[q], pvi[q2]]})
                    return bad("impl!=spec:predict-cov", detail)
            for rr in range(nrows):
                if not closeM(pmu[rr][q], fr(mmu_c[rr][q]), TOL_R):
                    detail.update({"model_mu": tofl(fmat(mmu_c)), "entry": [rr, pvi[q]]})
                    return bad("impl!=model:predict-mean", detail)
                if not closeM(pmu[rr][q], smu[rr][q], TOL_R):
                    detail.update({"spec_mu": smu.tolist(), "entry": [rr, pvi[q]]})
                    return bad("impl!=spec:predict-mean", detail)
        tags.append("missing=%d" % a)
        if a >= 2 and pvi != sorted(pvi, key=lambda v: pos[v]):
            tags.append("missing-order!=topological")
    # ---- purity / result independence: the CPD objects are untouched; scribbling over every returned array does not
    #      change what the next call returns (no memoised array handed out twice)
    for c, cm_, ce_, cv_ in cpd_snap:
        if not np.array_equal(np.asarray(c.mean), cm_) or list(c.evidence) != ce_ or c.variance != cv_:
            return bad("impl!=spec:cpd-mutated", {"variable": idx[repr(c.variable)]})
    for c, cm_, ce_, cv_ in cpd_snap:                    # LinearGaussianCPD.copy(): equal, and independent of the original
        cp = c.copy()
        if cp is c or repr(cp.variable) != repr(c.variable) or not np.array_equal(np.asarray(cp.mean, dtype=float), cm_) \
                or list(cp.evidence) != ce_ or cp.variance != cv_ or list(cp.variables) != list(c.variables):
            return bad("impl!=spec:cpd-copy", {"variable": idx[repr(c.variable)]})
        if cp.mean is c.mean or cp.evidence is c.evidence or np.shares_memory(np.asarray(cp.mean), np.asarray(c.mean)):
            return bad("impl!=spec:cpd-copy-shares-state", {"variable": idx[repr(c.variable)]})
        cp.mean[...] = 123.0
        cp.evidence.append("__x__")
        if not np.array_equal(np.asarray(c.mean), cm_) or list(c.evidence) != ce_:
            return bad("impl!=spec:cpd-copy-shares-state", {"variable": idx[repr(c.variable)]})
    tags.append("cpd-copy")
    mu_keep, cov_keep = mu.copy(), cov.copy()
    mu[...] = 77.0
    cov[...] = 77.0
    if subsets:
        pmu[...] = 55.0
        pcov[...] = 55.0
    mu3, cov3 = m.to_joint_gaussian()
    if mu3 is mu or cov3 is cov or not np.array_equal(mu3, mu_keep) or not np.array_equal(cov3, cov_keep):
        return bad("impl!=spec:to_joint_gaussian-result-not-independent", {"order": order})
    # ---- simulate: the documented draw from the reported joint, columns = variables of the joint
    if n <= 6:
        sd, ns = case["dseed"] % 1000, 4
        sim = m.simulate(n=ns, seed=sd)
        ref = np.random.default_rng(seed=sd).multivariate_normal(mean=mu_keep, cov=cov_keep, size=ns)
        if [idx[repr(x)] for x in sim.columns] != order or sim.shape != (ns, n) \
                or not np.allclose(sim.values, ref, rtol=1e-9, atol=1e-9):
            return bad("impl!=spec:simulate", {"order": order, "columns": [repr(x) for x in sim.columns],
                                                 "impl": sim.values.tolist(), "spec": ref.tolist()})
        tags.append("simulate")
    if "mag" in case:
        tags.append("magnitude intercept*%d variance*%d" % tuple(case["mag"]))
    key = common.canon_key(["lgbn", n, case["nodes"], sorted(map(tuple, case["edges"])), case["cpds"], case["style"],
                            case["nameseed"], case["dseed"], case.get("subsets")])
    return ok(nontrivial=(n >= 2 and len(case["edges"]) >= 1), key=key, tags=tags)


# ------------------------------------------------------------------ fit
def run_fit(case, drv):
    import numpy as np
    import pandas as pd
    from pgmpy.models import LinearGaussianBayesianNetwork
    n = case["n"]
    names = names_for(n, case["style"], case["nameseed"])
    idx = {repr(nm): i for i, nm in enumerate(names)}
    cols = list(case["cols"])
    rows = [[fr(x) for x in r] for r in case["rows"]]
    N = len(rows)
    frame_cols = [names[v] for v in cols]
    frame_rows = [[float(x) for x in r] for r in rows]
    mcols = list(cols)
    mrows = [list(r) for r in rows]
    if case["extra"]:
        frame_cols.append("__extra__")
        mcols.append(1000)
        for i in range(N):
            frame_rows[i].append(float(i))
            mrows[i].append(Fraction(i))
    tags = ["fit n=%d" % n, "rows=%d" % N, "style=" + case["style"]]
    col = {v: np.array([float(r[cols.index(v)]) for r in rows]) for v in range(n)}
    nontrivial = False
    model_fit = {}
    for ki, ikind in enumerate(case.get("indexes", ["range"])):
        fr_rows = frame_rows
        if ikind == "rowperm":                           # the rows themselves in another order: same least squares
            perm = list(range(N))
            random.Random(case.get("iseed", 0)).shuffle(perm)
            fr_rows = [frame_rows[i] for i in perm]
            labels = None
        else:
            labels = make_index(ikind, N, case.get("iseed", 0))
        df = pd.DataFrame(fr_rows, columns=pd.Index(frame_cols, dtype=object),
                          index=None if labels is None else pd.Index(labels))
        if case.get("intdata"):
            df = df.astype("int64")
        snap = df.copy(deep=True)
        m = LinearGaussianBayesianNetwork()
        m.add_nodes_from([names[v] for v in case["nodes"]])
        m.add_edges_from([(names[u], names[v]) for u, v in case["edges"]])
        if (ki + N) % 2:
            m.fit(df, method="mle")
        else:
            m.fit(df)
        if not df.equals(snap) or list(df.index) != list(snap.index) or list(df.columns) != list(snap.columns) \
                or list(df.dtypes) != list(snap.dtypes):
            return bad("impl!=spec:fit-mutates-data", {"index": ikind})
        b = _check_fit(case, m, idx, N, col, mcols, mrows, drv, tags, ikind, model_fit)
        if isinstance(b, dict):
            return b
        nontrivial = nontrivial or b
        if "indexes" in case:
            tags.append("fit-index=" + ikind)
    if case.get("intdata"):
        tags.append("fit-int64-frame")
    # ---- LinearGaussianCPD.fit(data, states, estimator="MLE"): same coefficients, sigma = sqrt(RSS / N)
    from pgmpy.factors.continuous import LinearGaussianCPD
    for (v, ev), (st, mr) in sorted(model_fit.items()):
        if st != "ok" or not ev or "(Y|X)" in [names[u] for u in ev]:
            continue
        cd = LinearGaussianCPD(names[v], [0.0] * (len(ev) + 1), 1.0, [names[u] for u in ev])
        dfc = pd.DataFrame({"(Y|X)": col[v], **{names[u]: col[u] for u in ev}})
        dfc = dfc[["(Y|X)"] + [names[u] for u in ev]]
        beta, sigma = cd.fit(dfc, ["(Y|X)"] + [names[u] for u in ev], estimator="MLE")
        mb, mv = fvec(mr[0]), fr(mr[1])
        s2 = float(mv) * (N - 1) / N
        # an exact fit (RSS = 0) makes the hand-written variance formula cancel to a tiny negative number whose
        # square root is NaN (reported); sigma is compared only where the exact residual variance is positive
        if len(beta) != len(mb) or not all(close(a_, b_, 1e-7) for a_, b_ in zip(beta, mb)) \
                or (mv > 0 and not close(float(sigma) ** 2, s2, 1e-6)):
            return bad("impl!=model:LinearGaussianCPD.fit", {"node": v, "evidence": list(ev), "impl": [list(map(float, beta)), float(sigma)],
                                                              "model": [[float(x) for x in mb], math.sqrt(s2)]})
        try:
            cd.fit(dfc, ["(Y|X)"] + [names[u] for u in ev], estimator="MAP")
            return bad("impl!=spec:LinearGaussianCPD.fit-MAP-accepted", {})
        except NotImplementedError:
            pass
        tags.append("LinearGaussianCPD.fit(MLE)")
        break
    key = common.canon_key(["fit", n, sorted(map(tuple, case["edges"])), case["rows"], case["cols"],
                            case.get("indexes"), case.get("iseed"), case.get("intdata")])
    return ok(nontrivial=nontrivial, key=key, tags=tags)


def _check_fit(case, m, idx, N, col, mcols, mrows, drv, tags, ikind, model_fit):
    """every fitted CPD (coefficients, intercept, variance) vs lstsq / RSS/(N-1) and vs the model; the row index
    `ikind` of the frame is not data.  Returns a bad(...) outcome or the non-triviality flag."""
    import numpy as np
    n = case["n"]
    if len(m.cpds) != n:
        return bad("impl!=spec:fit-cpd-count", {"cpds": len(m.cpds)})
    nontrivial = False
    for c in m.cpds:
        v = idx[repr(c.variable)]
        ev = [idx[repr(u)] for u in c.evidence]
        pa = sorted(u for (u, w) in case["edges"] if w == v)
        if sorted(ev) != pa:
            return bad("impl!=spec:fit-evidence", {"node": v, "evidence": ev, "parents": pa})
        beta = [float(x) for x in np.asarray(c.mean).ravel()]
        if len(beta) != len(ev) + 1:
            return bad("impl!=spec:fit-mean-length", {"node": v, "beta": beta})
        X = np.column_stack([np.ones(N)] + [col[u] for u in ev])
        if np.linalg.matrix_rank(X) < X.shape[1]:
            tags.append("rank-deficient-skipped")
            continue
        # spec: least squares by lstsq, variance = RSS / (N - 1)   (pandas var, ddof = 1)
        sol = np.linalg.lstsq(X, col[v], rcond=None)[0]
        res = col[v] - X @ sol
        svar = float(res @ res) / (N - 1)
        if not all(close(b, s, TOL) for b, s in zip(beta, sol)) or not close(c.variance, svar, TOL):
            return bad("impl!=spec:fit-lstsq", {"index": ikind, "node": v, "evidence": ev, "impl": [beta, float(c.variance)],
                                                  "spec": [sol.tolist(), svar]})
        if (v, tuple(ev)) not in model_fit:
            model_fit[(v, tuple(ev))] = drv.call_e("c20_fit", [mcols, mrows, v, ev])
        st, mr = model_fit[(v, tuple(ev))]
        if st != "ok":
            return bad("impl!=model:fit-model-error", {"node": v, "code": mr})
        mb, mv = fvec(mr[0]), fr(mr[1])
        if len(mb) != len(beta) or not all(close(b, s, TOL) for b, s in zip(beta, mb)) or not close(c.variance, mv, TOL):
            return bad("impl!=model:fit", {"index": ikind, "node": v, "evidence": ev, "impl": [beta, float(c.variance)],
                                             "model": [[float(x) for x in mb], float(mv)]})
        # the normal equations on the fitted coefficients (what C20_fit_normal_equations states)
        if not np.allclose(X.T @ X @ np.array(beta), X.T @ col[v], rtol=1e-8, atol=1e-8):
            return bad("impl!=spec:fit-normal-equations", {"node": v})
        if ikind == case.get("indexes", ["range"])[0]:
            tags.append("parents=%d" % len(ev))
        if ev:
            nontrivial = True
    return nontrivial


# ------------------------------------------------------------------ Gaussian / canonical distributions
def run_gauss(case, drv):
    import numpy as np
    from pgmpy.factors.distributions import GaussianDistribution as GD
    from pgmpy.factors.continuous import CanonicalDistribution
    n = case["n"]
    n_all = max([n - 1] + case["v2"]) + 1
    names = names_for(n_all, case["style"], case["nameseed"])
    idx = {repr(nm): i for i, nm in enumerate(names)}
    mean = fvec(case["mean"])
    cov = fmat(case["cov"])
    rng = random.Random(case["qseed"])
    tags = ["gauss n=%d" % n, "style=" + case["style"]]
    vars1 = list(range(n))
    rng.shuffle(vars1)                       # scope order of the distribution (position p holds variable vars1[p])
    gm = [vars1, mean, cov]

    def mk():
        return GD([names[v] for v in vars1], [float(x) for x in mean], tofl(cov))

    fmean = np.array([float(x) for x in mean])
    fcov = np.array(tofl(cov))
    at = {v: p for p, v in enumerate(vars1)}

    def cmp_gauss(tagname, d, mres, spec_vars, spec_mean, spec_cov, detail):
        dv = [idx[repr(x)] for x in d.variables]
        mv, mm, mc_ = mres
        if dv != mv or dv != spec_vars:
            return bad("impl!=model:%s-variables" % tagname, dict(detail, impl=dv, model=mv, spec=spec_vars))
        k = len(dv)
        dm = np.asarray(d.mean, dtype=float)
        dc = np.asarray(d.covariance, dtype=float)
        if dm.shape != (k, 1) or dc.shape != (k, k):
            return bad("impl!=spec:%s-shape" % tagname, dict(detail, mean=list(dm.shape), cov=list(dc.shape)))
        for i in range(k):
            if not close(dm[i][0], fr(mm[i]), TOL) or not close(dm[i][0], spec_mean[i], TOL):
                return bad("impl!=model:%s-mean" % tagname, dict(detail, impl=dm.ravel().tolist(),
                           model=[float(fr(x)) for x in mm], spec=[float(x) for x in spec_mean]))
            for j in range(k):
                if not close(dc[i][j], fr(mc_[i][j]), TOL) or not close(dc[i][j], spec_cov[i][j], TOL):
                    return bad("impl!=model:%s-cov" % tagname, dict(detail, impl=dc.tolist(), model=tofl(fmat(mc_)),
                               spec=np.asarray(spec_cov, dtype=float).tolist()))
        return None

    # ---- marginalize: every subset (plus a variable outside the scope, which is ignored)
    for r in range(0, n + 1):
        for S in itertools.combinations(range(n), r):
            drop = list(S)
            rng.shuffle(drop)
            if rng.random() < 0.2 and n_all > n:
                drop.append(n)          # a variable outside the scope is ignored
            d = mk()
            d0 = mk()
            res = d.marginalize([fresh(names[v]) for v in drop], inplace=False)
            if d.variables != d0.variables or not np.array_equal(d.mean, d0.mean) or not np.array_equal(d.covariance, d0.covariance):
                return bad("impl!=spec:marginalize-mutates-original", {"drop": drop})
            d2 = mk()
            if d2.marginalize([names[v] for v in drop], inplace=True) is not None:
                return bad("impl!=spec:marginalize-inplace-return", {"drop": drop})
            keep = [v for v in vars1 if v not in drop]
            P = [at[v] for v in keep]
            mres = drv.call("c20_marg", [gm, drop])
            for dd in (res, d2):
                b = cmp_gauss("marginalize", dd, mres, keep, fmean[P], fcov[np.ix_(P, P)], {"vars": vars1, "drop": drop})
                if b:
                    return b
    tags.append("marginalize-subsets=%d" % (2 ** n))

    # ---- reduce: every proper subset, values in shuffled order
    for r in range(0, n):
        for S in itertools.combinations(range(n), r):
            red = list(S)
            rng.shuffle(red)
            vals = [dy(rng, -3, 3) for _ in red]
            d = mk()
            res = d.reduce([(fresh(names[v]), float(x)) for v, x in zip(red, vals)], inplace=False)
            d2 = mk()
            d2.reduce([(names[v], float(x)) for v, x in zip(red, vals)], inplace=True)
            keep = [v for v in vars1 if v not in red]
            J = [at[v] for v in keep]
            I = [at[v] for v in sorted(red)]                     # independent order of the conditioning block
            xi = np.array([float(vals[red.index(v)]) for v in sorted(red)])
            if red:
                Sji = fcov[np.ix_(J, I)]
                Sii = fcov[np.ix_(I, I)]
                smean = fmean[J] + Sji @ np.linalg.solve(Sii, xi - fmean[I])
                scov = fcov[np.ix_(J, J)] - Sji @ np.linalg.solve(Sii, fcov[np.ix_(I, J)])
            else:
                smean, scov = fmean[J], fcov[np.ix_(J, J)]
            mres = drv.call("c20_reduce", [gm, [[v, x] for v, x in zip(red, vals)]])
            for dd in (res, d2):
                b = cmp_gauss("reduce", dd, mres, keep, smean, scov, {"vars": vars1, "reduce": red,
                                                                        "values": [float(x) for x in vals]})
                if b:
                    return b
    tags.append("reduce-subsets=%d" % (2 ** n - 1))

    # ---- to_canonical_factor and back
    d = mk()
    cf = d.to_canonical_factor()
    (cv, cK, ch), back = drv.call("c20_canon", gm)
    Kspec = np.linalg.inv(fcov)
    hspec = Kspec @ fmean
    gspec = -0.5 * float(fmean @ hspec) - math.log((2 * math.pi) ** (n / 2.0) * abs(np.linalg.det(fcov)) ** 0.5)
    if [idx[repr(x)] for x in cf.variables] != cv or cv != vars1:
        return bad("impl!=model:canonical-variables", {"impl": [idx[repr(x)] for x in cf.variables], "model": cv})
    if np.asarray(cf.K).shape != (n, n) or np.asarray(cf.h).shape != (n, 1):
        return bad("impl!=spec:canonical-shape", {})
    for i in range(n):
        if not close(cf.h[i][0], fr(ch[i]), TOL) or not close(cf.h[i][0], hspec[i], TOL):
            return bad("impl!=model:canonical-h", {"impl": np.asarray(cf.h).ravel().tolist(), "model": [float(fr(x)) for x in ch]})
        for j in range(n):
            if not close(cf.K[i][j], fr(cK[i][j]), TOL) or not close(cf.K[i][j], Kspec[i][j], TOL):
                return bad("impl!=model:canonical-K", {"impl": np.asarray(cf.K).tolist(), "model": tofl(fmat(cK))})
    if not close(cf.g, gspec, TOL):
        return bad("impl!=spec:canonical-g", {"impl": float(cf.g), "spec": gspec})
    # model round trip is exact (C20_canonical_roundtrip_partial); pgmpy's is compared numerically
    if back != [vars1, [jf(x) for x in mean], [[jf(x) for x in r] for r in cov]]:
        return bad("model!=spec:canonical-roundtrip", {"back": back})
    rt = cf.to_joint_gaussian()
    b = cmp_gauss("canonical-roundtrip", rt, back, vars1, fmean, fcov, {"vars": vars1})
    if b:
        return b
    # density value at a point (pdf of both forms agree)
    pt = [float(dy(rng, -2, 2)) for _ in range(n)]
    pg = float(d.assignment(*pt))
    pc = float(np.asarray(cf.assignment(*pt)).ravel()[0])
    if not close(pc, pg, 1e-7):
        return bad("impl!=spec:canonical-density", {"point": pt, "gaussian": pg, "canonical": pc})


    # ---- CanonicalDistribution.marginalize / reduce (K', h' vs the defining formulas by name; g' vs its formula)
    pending_finding = None
    for r in range(1, n):
        for S in itertools.combinations(range(n), r):
            sel = list(S)
            rng.shuffle(sel)
            keep = [v for v in vars1 if v not in sel]
            I = [at[v] for v in keep]
            J = [at[v] for v in sel]
            Kf = np.asarray(cf.K, dtype=float)
            hf = np.asarray(cf.h, dtype=float).ravel()
            # marginalize
            margs = [fresh(names[v]) for v in sel]
            if (r + len(sel) + n) % 3 == 1:
                margs = tuple(margs)
            elif (r + len(sel) + n) % 3 == 2 and all(isinstance(names[v], str) for v in vars1):
                # (an ndarray argument next to a TUPLE name in the scope is mis-read by `name in ndarray`: reported)
                margs = np.array(margs, dtype=object)
            cm = cf.marginalize(margs, inplace=False)
            Kjj = Kf[np.ix_(J, J)]
            Ks = Kf[np.ix_(I, I)] - Kf[np.ix_(I, J)] @ np.linalg.solve(Kjj, Kf[np.ix_(J, I)])
            hs = hf[I] - Kf[np.ix_(I, J)] @ np.linalg.solve(Kjj, hf[J])
            g_right = cf.g + 0.5 * (len(sel) * math.log(2 * math.pi) - math.log(abs(np.linalg.det(Kjj)))
                                    + float(hf[J] @ np.linalg.solve(Kjj, hf[J])))
            g_coded = cf.g + 0.5 * (len(sel) * math.log(2 * math.pi) - math.log(abs(np.linalg.det(Kjj)))
                                    + float(hf[J] @ Kjj @ hf[J]))
            if [idx[repr(x)] for x in cm.variables] != keep:
                return bad("impl!=spec:canonical-marginalize-variables", {"vars": vars1, "drop": sel})
            if not np.allclose(cm.K, Ks, rtol=1e-8, atol=1e-8) or not np.allclose(np.asarray(cm.h).ravel(), hs, rtol=1e-8, atol=1e-8):
                return bad("impl!=spec:canonical-marginalize-Kh", {"vars": vars1, "drop": sel, "impl_K": np.asarray(cm.K).tolist(),
                                                                     "spec_K": Ks.tolist()})
            # the marginal of the canonical form must be the canonical form of the Gaussian marginal
            dm = mk().marginalize([names[v] for v in sel], inplace=False).to_canonical_factor()
            if not np.allclose(cm.K, dm.K, rtol=1e-7, atol=1e-8) or not np.allclose(cm.h, dm.h, rtol=1e-7, atol=1e-8):
                return bad("impl!=spec:canonical-marginalize-vs-gaussian", {"vars": vars1, "drop": sel})
            # model of the function AS CODED: K', h' and the quadratic summand of g' (C20_canonical_marginalize_g_refuted)
            (mcv, mcK, mch), mq = drv.call("c20_cmarg", [[cv, fmat(cK), fvec(ch)], sel])
            if mcv != keep or not mat_close(np.asarray(cm.K), fmat(mcK), TOL) \
                    or not all(close(a_, fr(b_), TOL) for a_, b_ in zip(np.asarray(cm.h).ravel(), mch)):
                return bad("impl!=model:canonical-marginalize-Kh", {"vars": vars1, "drop": sel, "impl_K": np.asarray(cm.K).tolist(),
                                                                      "model_K": tofl(fmat(mcK))})
            q_impl = 2.0 * (float(cm.g) - float(cf.g)) - len(sel) * math.log(2 * math.pi) + math.log(abs(np.linalg.det(Kjj)))
            if not close(q_impl, fr(mq), 1e-6):
                return bad("impl!=model:canonical-marginalize-g-summand", {"vars": vars1, "drop": sel, "impl": q_impl,
                                                                             "model": float(fr(mq))})
            if not close(cm.g, g_right, 1e-7):
                det = {"vars": vars1, "drop": sel, "K": Kf.tolist(), "h": hf.tolist(), "g": float(cf.g),
                       "impl_g": float(cm.g), "correct_g": g_right, "gaussian_marginal_g": float(dm.g)}
                if close(cm.g, g_coded, 1e-7) and close(dm.g, g_right, 1e-6):
                    pending_finding = pending_finding or det      # exactly the K_YY vs K_YY^-1 slip
                else:
                    return bad("impl!=spec:canonical-marginalize-g", det)
            # reduce
            vals = [dy(rng, -2, 2) for _ in sel]
            yv = np.array([float(x) for x in vals])
            rargs = [(fresh(names[v]), float(x)) for v, x in zip(sel, vals)]
            cr = cf.reduce(tuple(rargs) if (r + n) % 2 else rargs, inplace=False)
            Kr = Kf[np.ix_(I, I)]
            hr = hf[I] - Kf[np.ix_(I, J)] @ yv
            gr = cf.g + float(hf[J] @ yv) - 0.5 * float(yv @ Kjj @ yv)
            if [idx[repr(x)] for x in cr.variables] != keep or not np.allclose(cr.K, Kr, rtol=1e-8, atol=1e-8) \
                    or not np.allclose(np.asarray(cr.h).ravel(), hr, rtol=1e-8, atol=1e-8) or not close(cr.g, gr, 1e-7):
                return bad("impl!=spec:canonical-reduce", {"vars": vars1, "reduce": sel, "values": yv.tolist()})
            # reducing the canonical form = conditioning the Gaussian (same density up to normalisation)
            dr = mk().reduce([(names[v], float(x)) for v, x in zip(sel, vals)], inplace=False).to_canonical_factor()
            if not np.allclose(cr.K, dr.K, rtol=1e-7, atol=1e-8) or not np.allclose(cr.h, dr.h, rtol=1e-7, atol=1e-8):
                return bad("impl!=spec:canonical-reduce-vs-gaussian", {"vars": vars1, "reduce": sel})
    if n >= 2:
        tags.append("canonical-marginalize/reduce")

    # ---- product / divide with a second distribution on an overlapping scope
    v2 = case["v2"]
    mean2 = fvec(case["mean2"])
    cov2 = fmat(case["cov2"])
    gm2 = [v2, mean2, cov2]
    d2 = GD([names[v] for v in v2], [float(x) for x in mean2], tofl(cov2))
    allv = vars1 + [v for v in v2 if v not in vars1]
    Nn = len(allv)
    pa = {v: p for p, v in enumerate(allv)}

    def ext(vs, M, h):
        E = np.zeros((Nn, Nn))
        e = np.zeros(Nn)
        for a_, va in enumerate(vs):
            e[pa[va]] = h[a_]
            for b_, vb in enumerate(vs):
                E[pa[va], pa[vb]] = M[a_][b_]
        return E, e
    K1 = np.linalg.inv(fcov)
    f2 = np.array(tofl(cov2))
    K2 = np.linalg.inv(f2)
    E1, e1 = ext(vars1, K1, K1 @ fmean)
    E2, e2 = ext(v2, K2, K2 @ np.array([float(x) for x in mean2]))
    for prod in (True, False):
        opn = "product" if prod else "divide"
        d = mk()
        c1, c2 = d.to_canonical_factor(), d2.to_canonical_factor()
        cres = c1.product(c2, inplace=False) if prod else c1.divide(c2, inplace=False)
        (mv, mK, mh), mg = drv.call("c20_operate", [prod, gm, gm2])
        Ks = E1 + E2 if prod else E1 - E2
        hs = e1 + e2 if prod else e1 - e2
        civ = [idx[repr(x)] for x in cres.variables]
        if civ != mv or civ != allv:
            return bad("impl!=model:%s-variables" % opn, {"impl": civ, "model": mv, "spec": allv})
        for i in range(Nn):
            if not close(np.asarray(cres.h).ravel()[i], fr(mh[i]), TOL) or not close(np.asarray(cres.h).ravel()[i], hs[i], TOL):
                return bad("impl!=model:%s-h" % opn, {"vars": allv, "impl": np.asarray(cres.h).ravel().tolist(),
                                                        "model": [float(fr(x)) for x in mh], "spec": hs.tolist()})
            for j in range(Nn):
                if not close(cres.K[i][j], fr(mK[i][j]), TOL) or not close(cres.K[i][j], Ks[i][j], TOL):
                    return bad("impl!=model:%s-K" % opn, {"vars": allv, "impl": np.asarray(cres.K).tolist(),
                                                            "model": tofl(fmat(mK)), "spec": Ks.tolist()})
        g_ok = close(cres.g, c1.g + c2.g if prod else c1.g - c2.g, TOL)
        if not g_ok:
            return bad("impl!=spec:%s-g" % opn, {"impl": float(cres.g)})
        # GaussianDistribution level (product only: the sum of the extended precisions is positive definite)
        if prod:
            res = mk().product(d2, inplace=False)
            if not mg:
                return bad("model!=spec:product-singular", {"vars": allv})
            Sg = np.linalg.inv(Ks)
            b = cmp_gauss("product", res, mg[0], allv, Sg @ hs, Sg, {"vars1": vars1, "vars2": v2})
            if b:
                return b
            d_in = mk()
            if d_in.product(d2, inplace=True) is not None:
                return bad("impl!=spec:product-inplace-return", {"vars1": vars1, "vars2": v2})
            b = cmp_gauss("product-inplace", d_in, mg[0], allv, Sg @ hs, Sg, {"vars1": vars1, "vars2": v2})
            if b:
                return b
            tags.append("product-inplace")
        else:
            # divide: K1 - K2 need not be positive definite, so only "in place == returned" is required
            try:
                res = mk().divide(d2, inplace=False)
                err = None
            except np.linalg.LinAlgError:
                res, err = None, "singular"
            d_in = mk()
            try:
                r_in = d_in.divide(d2, inplace=True)
                err_in = None
            except np.linalg.LinAlgError:
                r_in, err_in = None, "singular"
            if err != err_in or r_in is not None:
                return bad("impl!=spec:divide-inplace-return", {"vars1": vars1, "vars2": v2, "err": [err, err_in]})
            if err is None and (d_in.variables != res.variables
                                or not np.allclose(d_in.mean, res.mean, rtol=1e-9, atol=1e-12, equal_nan=True)
                                or not np.allclose(d_in.covariance, res.covariance, rtol=1e-9, atol=1e-12, equal_nan=True)):
                return bad("impl!=spec:divide-inplace", {"vars1": vars1, "vars2": v2,
                                                          "inplace_vars": [idx[repr(x)] for x in d_in.variables]})
            tags.append("divide-inplace")
        tags.append(opn + " shared=%d" % len([v for v in v2 if v in vars1]))

    # ---- class J/C/B/K extras on this distribution -------------------------------------------------------------
    def same_canon(x, y):
        return [idx[repr(v)] for v in x.variables] == [idx[repr(v)] for v in y.variables] \
            and np.allclose(x.K, y.K, rtol=1e-9, atol=1e-12) and np.allclose(x.h, y.h, rtol=1e-9, atol=1e-12) \
            and close(x.g, y.g, 1e-9)

    def same_gauss(x, y):
        return [idx[repr(v)] for v in x.variables] == [idx[repr(v)] for v in y.variables] \
            and np.allclose(x.mean, y.mean, rtol=1e-9, atol=1e-12) and np.allclose(x.covariance, y.covariance, rtol=1e-9, atol=1e-12)

    c1, c2 = mk().to_canonical_factor(), d2.to_canonical_factor()
    # operators and in-place variants of the canonical form agree with the inplace=False results checked above
    for opn, fres in (("product", c1.product(c2, inplace=False)), ("divide", c1.divide(c2, inplace=False))):
        cin = c1.copy()
        rin = cin.product(c2, inplace=True) if opn == "product" else cin.divide(c2, inplace=True)
        via_op = (c1 * c2) if opn == "product" else (c1 / c2)
        if rin is not None or not same_canon(cin, fres) or not same_canon(via_op, fres):
            return bad("impl!=spec:canonical-%s-inplace/operator" % opn, {"vars1": vars1, "vars2": v2})
        if not same_canon(c1, mk().to_canonical_factor()) or not same_canon(c2, d2.to_canonical_factor()):
            return bad("impl!=spec:canonical-%s-mutates-operand" % opn, {"vars1": vars1, "vars2": v2})
    if not same_gauss(mk() * d2, mk().product(d2, inplace=False)):
        return bad("impl!=spec:gaussian-mul-operator", {"vars1": vars1, "vars2": v2})
    if n >= 2:
        sel = [vars1[0]]
        yv = [(names[vars1[0]], 0.5)]
        for meth, arg in (("marginalize", [names[v] for v in sel]), ("reduce", yv)):
            arg_snap = list(arg)
            fres = getattr(c1, meth)(arg, inplace=False)
            cin = c1.copy()
            if getattr(cin, meth)(arg, inplace=True) is not None or not same_canon(cin, fres) or arg != arg_snap:
                return bad("impl!=spec:canonical-%s-inplace" % meth, {"vars": vars1})
            # result independence: scribble over the result, ask again
            fres.K[...] = 9.0
            fres.h[...] = 9.0
            if not same_canon(getattr(c1, meth)(arg, inplace=False), cin) or not same_canon(c1, mk().to_canonical_factor()):
                return bad("impl!=spec:canonical-%s-result-not-independent" % meth, {"vars": vars1})
        cc = c1.copy()
        cc.K[...] = 7.0
        cc.h[...] = 7.0
        if not same_canon(c1, mk().to_canonical_factor()):
            return bad("impl!=spec:canonical-copy-shares-arrays", {"vars": vars1})
    # GaussianDistribution: construct from ndarrays (C-contiguous float64, and a view of a larger reused buffer); the
    # caller's arrays are never written to; results are independent of the source object
    buf = np.zeros((n + 1, n + 1))
    buf[:n, :n] = fcov
    arr_m, arr_c = np.array(fmean, dtype=float), np.ascontiguousarray(fcov, dtype=float)
    for src_c in (arr_c, buf[:n, :n]):
        keep_m, keep_c = arr_m.copy(), np.array(src_c, copy=True)
        dn = GD([names[v] for v in vars1], arr_m, src_c)
        drop = [names[vars1[-1]]] if n >= 2 else []
        r1 = dn.marginalize(drop, inplace=False)
        r2 = dn.reduce([(names[vars1[0]], 0.25)], inplace=False) if n >= 2 else None
        cfn = dn.to_canonical_factor()
        ref = mk()
        if not same_gauss(r1, ref.marginalize(drop, inplace=False)) or not same_canon(cfn, ref.to_canonical_factor()) \
                or (r2 is not None and not same_gauss(r2, mk().reduce([(names[vars1[0]], 0.25)], inplace=False))):
            return bad("impl!=spec:gaussian-from-ndarray", {"vars": vars1})
        r1.mean[...] = 5.0
        r1.covariance[...] = 5.0
        if r2 is not None:
            r2.mean[...] = 5.0
            r2.covariance[...] = 5.0
        # the caller reuses its buffers / scribbles over the canonical form it was handed: the distribution is unaffected
        da = GD([names[v] for v in vars1], arr_m, src_c)
        cfa = da.to_canonical_factor()
        arr_m[...] = -1.0
        src_c[...] = 1.0
        cfa.K[...] = 4.0
        cfa.h[...] = 4.0
        arr_m[...] = keep_m
        src_c[...] = keep_c
        if not same_gauss(da, ref) or not np.allclose(da.precision_matrix, ref.precision_matrix, rtol=1e-9, atol=1e-12) \
                or not same_canon(da.to_canonical_factor(), ref.to_canonical_factor()):
            return bad("impl!=spec:gaussian-arrays-aliased", {"vars": vars1})
        dn.marginalize(drop, inplace=True)
        dn.product(d2, inplace=True)
        if not np.array_equal(arr_m, keep_m) or not np.array_equal(src_c, keep_c):
            return bad("impl!=spec:gaussian-writes-to-callers-array", {"vars": vars1})
    dsrc = mk()
    rr = dsrc.marginalize([], inplace=False)
    rr.mean[...] = 3.0
    rr.covariance[...] = 3.0
    cp = dsrc.copy()
    cp.mean[...] = 3.0
    cp.covariance[...] = 3.0
    pr = dsrc.product(d2, inplace=False)
    pr.mean[...] = 3.0
    if not same_gauss(dsrc, mk()) or not same_gauss(dsrc.marginalize([], inplace=False), mk()):
        return bad("impl!=spec:gaussian-result-not-independent", {"vars": vars1})
    if dsrc.normalize(inplace=True) is not None or not same_gauss(dsrc.normalize(inplace=False), mk()) or not same_gauss(dsrc, mk()):
        return bad("impl!=spec:gaussian-normalize", {"vars": vars1})
    # rejected calls leave the object as it was (a LATER invalid entry, in place)
    dk = mk()
    for call_, arg, exc in ((dk.reduce, [(names[vars1[0]], 1.0), ("__nope__", 2.0)], ValueError),
                            (dk.marginalize, (names[vars1[0]],), TypeError),
                            (c1.reduce, [(names[vars1[0]], 1.0), ("__nope__", 2.0)], ValueError),
                            (c1.marginalize, [names[vars1[0]], "__nope__"], ValueError)):
        try:
            call_(arg, inplace=True)
            return bad("impl!=spec:invalid-argument-accepted", {"call": call_.__qualname__})
        except exc:
            pass
    if not same_gauss(dk, mk()) or not same_canon(c1, mk().to_canonical_factor()):
        return bad("impl!=spec:rejected-call-changed-object", {"vars": vars1})
    for ctor in (lambda: GD([names[v] for v in vars1], list(fmean) + [0.0], fcov),
                 lambda: GD([names[v] for v in vars1], fmean, np.zeros((n + 1, n + 1))),
                 lambda: CanonicalDistribution([names[v] for v in vars1], np.eye(n), np.zeros(n + 1), 0.0),
                 lambda: CanonicalDistribution([names[v] for v in vars1], np.eye(n + 1), np.zeros(n), 0.0)):
        try:
            ctor()
            return bad("impl!=spec:constructor-accepts-wrong-shape", {"n": n})
        except ValueError:
            pass
    tags.append("gauss-extras")

    key = common.canon_key(["gauss", n, vars1, case["mean"], case["cov"], case["v2"], case["mean2"], case["cov2"],
                            case["style"]])
    if pending_finding is not None:
        # everything else about this case agreed; the only deviation is exactly the known g' slip
        return bad("impl!=spec:canonical-marginalize-g", pending_finding, finding=FINDING_CANON_G,
                   nontrivial=n >= 2, key=key, tags=tags + ["known:canonical-marginalize-g"])
    return ok(nontrivial=n >= 2, key=key, tags=tags)



# ------------------------------------------------------------------ usage sequences on one object (cache)
def run_seq(case, drv):
    """Random 2..5-step sequences of {precision_matrix, to_canonical_factor, copy, marginalize, reduce, product,
    divide} (in place or continuing with the returned object) on ONE GaussianDistribution.  After every step the
    object (and the object left behind, and the other operand) must describe the expected distribution in every
    view: variables / mean / covariance, the cached _precision_matrix when present, and -- read through a copy() so
    that the check itself does not fill the object's cache -- precision_matrix and to_canonical_factor K, h, g; all
    recomputed from scratch by name (model state machine Model.o_trace + formulas).  C20_precision_cache_consistent
    is the theorem behind it."""
    import numpy as np
    from pgmpy.factors.distributions import GaussianDistribution as GD
    names = names_for(case["nvars"], case["style"], case["nameseed"])
    idx = {repr(nm): i for i, nm in enumerate(names)}
    tags = ["seq steps=%d" % len(case["steps"]), "style=" + case["style"]]

    def mkgd(vs, mean, cov):
        return GD([names[v] for v in vs], [float(fr(x)) for x in mean], [[float(fr(x)) for x in r] for r in cov])

    # ---- the model: expected state after every step
    enc = []
    for st in case["steps"]:
        op = st["op"]
        if op == "prec":
            enc.append([0])
        elif op == "canon":
            enc.append([1])
        elif op == "copy":
            enc.append([2])
        elif op == "marg":
            enc.append([3, st["sel"]])
        elif op == "reduce":
            enc.append([4, [[v, fr(x)] for v, x in zip(st["sel"], st["values"])]])
        else:
            enc.append([6 if st["cont"] == "self" else 5, op == "product",
                        [st["v2"], fvec(st["mean2"]), fmat(st["cov2"])]])
    g0 = [case["vars"], case["mean"], case["cov"]]          # wire form ([num, den] entries), like the model's replies
    trace = drv.call("c20_seq", [[case["vars"], fvec(case["mean"]), fmat(case["cov"])], enc])

    canon_cache = {}

    def expected(gs):
        """gs = model gauss [vars, mean, cov] (wire form) -> floats + from-scratch K, h (exact, via the model)"""
        kk = common.canon_key(gs)
        if kk not in canon_cache:
            vs, m, c = gs
            st_, r = drv.call_e("c20_canon", [vs, fvec(m), fmat(c)])
            if st_ != "ok":
                canon_cache[kk] = None
            else:
                (cv, cK, ch), back = r
                fm = np.array([float(fr(x)) for x in m])
                fc = np.array(tofl(fmat(c)))
                fK = np.array(tofl(fmat(cK)))
                canon_cache[kk] = {"vars": vs, "mean": fm, "cov": fc, "K": fK, "h": np.array([float(fr(x)) for x in ch]),
                                   "cond": float(np.linalg.cond(fc)) if len(vs) else 1.0, "K_exact": cK}
        return canon_cache[kk]

    def check_obj(where, o, gs, step_i):
        e = expected(gs)
        det = {"step": step_i, "where": where, "steps": [s_["op"] + ("!" if s_.get("inplace") else "") for s_ in case["steps"]]}
        if e is None:
            return None
        tol = 1e-7 if e["cond"] < 1e6 else None
        ov = [idx[repr(x)] for x in o.variables]
        if ov != e["vars"]:
            return bad("impl!=model:seq-variables", dict(det, impl=ov, model=e["vars"]))
        k = len(ov)
        om = np.asarray(o.mean, dtype=float)
        oc = np.asarray(o.covariance, dtype=float)
        if om.shape != (k, 1) or oc.shape != (k, k):
            return bad("impl!=spec:seq-shape", dict(det, mean=list(om.shape), cov=list(oc.shape)))
        if tol is None:
            return None

        def mclose(A, B):
            A = np.asarray(A, dtype=float)
            return A.shape == B.shape and bool(np.all(np.abs(A - B) <= tol * np.maximum(1.0, np.abs(B))))
        if not mclose(om.ravel(), e["mean"]):
            return bad("impl!=model:seq-mean", dict(det, impl=om.ravel().tolist(), model=e["mean"].tolist()))
        if not mclose(oc, e["cov"]):
            return bad("impl!=model:seq-covariance", dict(det, impl=oc.tolist(), model=e["cov"].tolist()))
        cache_before = o._precision_matrix
        c = o.copy()
        if c is o or (cache_before is not None and c._precision_matrix is cache_before) or c.mean is o.mean \
                or c.covariance is o.covariance:
            return bad("impl!=spec:seq-copy-shares-state", det)
        if [idx[repr(x)] for x in c.variables] != ov or not mclose(np.asarray(c.mean).ravel(), e["mean"]) \
                or not mclose(c.covariance, e["cov"]):
            return bad("impl!=spec:seq-copy", det)
        if not mclose(c.precision_matrix, e["K"]):
            return bad("impl!=spec:seq-precision_matrix", dict(det, vars=ov, impl=np.asarray(c.precision_matrix).tolist(),
                                                                 inverse_of_covariance=e["K"].tolist()))
        cf = c.to_canonical_factor()
        if [idx[repr(x)] for x in cf.variables] != ov or not mclose(cf.K, e["K"]) or not mclose(np.asarray(cf.h).ravel(), e["h"]):
            return bad("impl!=spec:seq-canonical-Kh", dict(det, vars=ov, impl_K=np.asarray(cf.K).tolist(),
                                                             spec_K=e["K"].tolist(), impl_h=np.asarray(cf.h).ravel().tolist(),
                                                             spec_h=e["h"].tolist()))
        gspec = -0.5 * float(e["mean"] @ e["h"]) - math.log((2 * math.pi) ** (k / 2.0) * abs(np.linalg.det(e["cov"])) ** 0.5)
        if not close(cf.g, gspec, 1e-6):
            return bad("impl!=spec:seq-canonical-g", dict(det, impl=float(cf.g), spec=gspec))
        if o._precision_matrix is not cache_before:
            return bad("impl!=spec:seq-copy-writes-back", det)
        # white box: the cache itself, when present, is the inverse of the covariance (C20_precision_cache_consistent)
        if cache_before is not None and not mclose(cache_before, e["K"]):
            return bad("impl!=spec:seq-stale-precision-cache", dict(det, vars=ov, cached=np.asarray(cache_before).tolist(),
                                                                      inverse_of_covariance=e["K"].tolist()))
        return None

    def snapshot(o):
        return (list(o.variables), np.array(o.mean, copy=True), np.array(o.covariance, copy=True))

    def same(o, snap):
        return list(o.variables) == snap[0] and np.array_equal(o.mean, snap[1]) and np.array_equal(o.covariance, snap[2])

    obj = mkgd(case["vars"], case["mean"], case["cov"])
    cur = g0                       # expected distribution of obj (wire form)
    b = check_obj("initial", obj, cur, -1)
    if b:
        return b
    cache_filled_then_marg = False
    filled = False
    for i, st in enumerate(case["steps"]):
        op = st["op"]
        if not trace[i]:
            tags.append("model-exception-at-%s" % op)
            break
        (nv, nm, nc), mcache = trace[i][0]
        nxt_state = [nv, nm, nc]
        if mcache:                  # the model's own cache is the from-scratch inverse (C20_precision_cache_consistent)
            e = expected(nxt_state)
            if e is not None and mcache[0] != e["K_exact"]:
                return bad("model!=spec:seq-model-cache", {"step": i})
        left_behind = None
        if op == "prec":
            e = expected(cur)
            P = obj.precision_matrix
            if e is not None and e["cond"] < 1e6 and not np.allclose(P, e["K"], rtol=1e-7, atol=1e-9):
                return bad("impl!=spec:seq-precision_matrix", {"step": i, "where": "step", "impl": np.asarray(P).tolist(),
                                                                 "inverse_of_covariance": e["K"].tolist()})
            filled = True
        elif op == "canon":
            e = expected(cur)
            cf = obj.to_canonical_factor()
            if e is not None and e["cond"] < 1e6 and (not np.allclose(cf.K, e["K"], rtol=1e-7, atol=1e-9)
                                                       or not np.allclose(np.asarray(cf.h).ravel(), e["h"], rtol=1e-7, atol=1e-9)):
                return bad("impl!=spec:seq-canonical-Kh", {"step": i, "where": "step", "impl_K": np.asarray(cf.K).tolist(),
                                                             "spec_K": e["K"].tolist()})
            filled = True
        elif op == "copy":
            left_behind = (obj, cur)
            obj = obj.copy()
        elif op in ("marg", "reduce"):
            if op == "marg":
                args = [names[v] for v in st["sel"]]
                call = obj.marginalize
                if filled:
                    cache_filled_then_marg = True
            else:
                args = [(names[v], float(fr(x))) for v, x in zip(st["sel"], st["values"])]
                call = obj.reduce
            if st["inplace"]:
                if call(args, inplace=True) is not None:
                    return bad("impl!=spec:seq-inplace-return", {"step": i, "op": op})
            else:
                snap = snapshot(obj)
                res = call(args, inplace=False)
                if not same(obj, snap):
                    return bad("impl!=spec:seq-mutates-original", {"step": i, "op": op})
                left_behind = (obj, cur)
                obj = res
            filled = False
        else:
            other_g = [st["v2"], st["mean2"], st["cov2"]]
            other = mkgd(st["v2"], st["mean2"], st["cov2"])
            osnap = snapshot(other)
            call = obj.product if op == "product" else obj.divide
            try:
                if st["inplace"]:
                    if call(other, inplace=True) is not None:
                        return bad("impl!=spec:seq-inplace-return", {"step": i, "op": op})
                    filled = False
                else:
                    snap = snapshot(obj)
                    res = call(other, inplace=False)
                    if not same(obj, snap):
                        return bad("impl!=spec:seq-mutates-original", {"step": i, "op": op})
                    if st["cont"] == "self":
                        left_behind = (res, None)
                        filled = True
                    else:
                        left_behind = (obj, cur)
                        obj = res
                        filled = False
            except np.linalg.LinAlgError:
                tags.append("singular-at-%s" % op)
                break
            if not same(other, osnap):
                return bad("impl!=spec:seq-mutates-operand", {"step": i, "op": op})
            b = check_obj("operand", other, [st["v2"], st["mean2"], st["cov2"]], i)
            if b:
                return b
        if left_behind is not None and left_behind[1] is not None:
            b = check_obj("object-left-behind", left_behind[0], left_behind[1], i)
            if b:
                return b
        cur = nxt_state
        b = check_obj("object", obj, cur, i)
        if b:
            return b
        tags.append("seq:" + op + ("(inplace)" if st.get("inplace") else ""))
    else:
        # finally the public precision-based API on the object itself
        e = expected(cur)
        if e is not None and e["cond"] < 1e6:
            P = obj.precision_matrix
            cf = obj.to_canonical_factor()
            if not np.allclose(P, e["K"], rtol=1e-7, atol=1e-9) or not np.allclose(cf.K, e["K"], rtol=1e-7, atol=1e-9) \
                    or not np.allclose(np.asarray(cf.h).ravel(), e["h"], rtol=1e-7, atol=1e-9):
                return bad("impl!=spec:seq-precision_matrix", {"step": len(case["steps"]), "where": "final",
                                                                 "impl": np.asarray(P).tolist(), "inverse_of_covariance": e["K"].tolist()})
    if cache_filled_then_marg:
        tags.append("seq:cache-filled-before-marginalize")
    key = common.canon_key(["seq", case["vars"], case["mean"], case["cov"], case["steps"], case["style"]])
    return ok(nontrivial=True, key=key, tags=tags)




# ------------------------------------------------------------------ magnitudes
def gen_gaussmag(rng):
    c = gen_gauss(rng)
    c["kind"] = "gaussmag"
    c["n"] = max(2, c["n"])
    if len(c["mean"]) < 2:
        c = gen_gaussmag(rng)
    c["exp"] = rng.choice([-60, -30, -12, 12, 30, 60])          # every variable is measured in units of 2^exp
    return c


def run_gaussmag(case, drv):
    """the same distributions with every variable rescaled by s = 2^exp (exact in floats): mean ~ s, covariance ~ s^2,
    K ~ s^-2, h ~ s^-1.  Every comparison is RELATIVE to the natural unit of the quantity (not to 1)."""
    import numpy as np
    from pgmpy.factors.distributions import GaussianDistribution as GD
    n = len(case["mean"])
    s = Fraction(2) ** case["exp"]
    names = names_for(8, "str", case["nameseed"])
    vars1 = list(range(n))
    mean = [fr(x) * s for x in case["mean"]]
    cov = [[fr(x) * s * s for x in r] for r in case["cov"]]
    fs = float(s)
    um, uc, uK, uh = fs, fs * fs, 1.0 / (fs * fs), 1.0 / fs
    rng = random.Random(case["qseed"])

    def rel(a, b, unit):
        return abs(float(a) - float(b)) <= 1e-7 * max(unit, abs(float(b)))

    def cmp(tag, d, mres, um_, uc_):
        mv, mm, mc_ = mres
        if [names.index(x) for x in d.variables] != mv:
            return bad("impl!=model:mag-%s-variables" % tag, {"exp": case["exp"]})
        dm, dc = np.asarray(d.mean).ravel(), np.asarray(d.covariance)
        for i in range(len(mv)):
            if not rel(dm[i], fr(mm[i]), um_):
                return bad("impl!=model:mag-%s-mean" % tag, {"exp": case["exp"], "impl": dm.tolist(), "model": [float(fr(x)) for x in mm]})
            for j in range(len(mv)):
                if not rel(dc[i][j], fr(mc_[i][j]), uc_):
                    return bad("impl!=model:mag-%s-cov" % tag, {"exp": case["exp"], "impl": dc.tolist(), "model": tofl(fmat(mc_))})
        return None

    def mk():
        return GD([names[v] for v in vars1], [float(x) for x in mean], [[float(x) for x in r] for r in cov])
    gm = [vars1, mean, cov]
    for _ in range(2):
        drop = rng.sample(vars1, rng.randint(1, n - 1))
        b = cmp("marginalize", mk().marginalize([names[v] for v in drop], inplace=False), drv.call("c20_marg", [gm, drop]), um, uc)
        if b:
            return b
        vals = [dy(rng, -3, 3) * s for _ in drop]
        b = cmp("reduce", mk().reduce([(names[v], float(x)) for v, x in zip(drop, vals)], inplace=False),
                drv.call("c20_reduce", [gm, [[v, x] for v, x in zip(drop, vals)]]), um, uc)
        if b:
            return b
    cf = mk().to_canonical_factor()
    (cv, cK, ch), back = drv.call("c20_canon", gm)
    for i in range(n):
        if not rel(cf.h[i][0], fr(ch[i]), uh):
            return bad("impl!=model:mag-canonical-h", {"exp": case["exp"]})
        for j in range(n):
            if not rel(cf.K[i][j], fr(cK[i][j]), uK):
                return bad("impl!=model:mag-canonical-K", {"exp": case["exp"], "impl": np.asarray(cf.K).tolist(), "model": tofl(fmat(cK))})
    # g = -1/2 mu^T K mu - n/2 log(2 pi) - 1/2 log det(S); det(S) = s^(2n) det(S0): computed in the log domain here
    base_cov = np.array(tofl(fmat(case["cov"])))
    fm0 = np.array([float(fr(x)) for x in case["mean"]])
    gspec = -0.5 * float(fm0 @ np.linalg.solve(base_cov, fm0)) - 0.5 * n * math.log(2 * math.pi) \
        - 0.5 * (math.log(abs(np.linalg.det(base_cov))) + 2 * n * case["exp"] * math.log(2.0))
    if not close(cf.g, gspec, 1e-7):
        return bad("impl!=spec:mag-canonical-g", {"exp": case["exp"], "impl": float(cf.g), "spec": gspec})
    b = cmp("canonical-roundtrip", cf.to_joint_gaussian(), back, um, uc)
    if b:
        return b
    v2 = [v for v in case["v2"] if v < 8]
    mean2 = [fr(x) * s for x in case["mean2"]][:len(v2)]
    k2 = len(v2)
    cov2 = [[fr(x) * s * s for x in r[:k2]] for r in case["cov2"][:k2]]
    if v2 and len(case["v2"]) == k2:
        d2 = GD([names[v] for v in v2], [float(x) for x in mean2], [[float(x) for x in r] for r in cov2])
        (mv, mK, mh), mg = drv.call("c20_operate", [True, gm, [v2, mean2, cov2]])
        if mg:
            b = cmp("product", mk().product(d2, inplace=False), mg[0], um, uc)
            if b:
                return b
    key = common.canon_key(["gaussmag", case["exp"], case["mean"], case["cov"], case["v2"]])
    return ok(nontrivial=True, key=key, tags=["gaussmag exp=%d" % case["exp"], "gaussmag n=%d" % n])



# ------------------------------------------------------------------ known finding: 8-decimal rounding of the joint
FINDING_ROUNDING = "joint-gaussian-rounded-8-decimals"


def gen_tiny(rng):
    """networks in which some exact variance / covariance entry is below 5e-9 (variance 2^-30 .. 2^-40, or a
    coefficient 2^-12 on a variance 2^-20), every other parameter having at most 8 binary places so that the
    8-decimal rounding is exact on the ordinary entries"""
    n = rng.randint(1, 4)
    nodes, edges = common.rand_dag(rng, n, p=rng.choice([0.4, 0.8]))
    roots = [v for v in range(n) if not any(w == v for (u, w) in edges)]
    small = rng.choice(roots) if rng.random() < 0.75 else rng.randrange(n)   # a non-root's variance is masked by its parents'
    mode = rng.choice(["variance", "variance", "coefficient"])
    cpds = []
    for v in range(n):
        pa = [u for (u, w) in edges if w == v]
        rng.shuffle(pa)
        mean = [Fraction(rng.randint(-8, 8), 4)] + [rng.choice([Fraction(-1), Fraction(1, 2), Fraction(1), Fraction(2)]) for _ in pa]
        var = rng.choice([Fraction(1, 4), Fraction(1, 2), Fraction(1), Fraction(2)])
        if v == small:
            var = Fraction(1, 2 ** rng.choice([30, 34, 37, 40])) if mode == "variance" else Fraction(1, 2 ** 20)
        elif mode == "coefficient" and small in pa:
            mean[1 + pa.index(small)] = Fraction(1, 2 ** 12)
        cpds.append([v, [jf(x) for x in mean], jf(var), pa])
    return {"kind": "tiny", "n": n, "nodes": nodes, "edges": [list(e) for e in edges], "style": rng.choice(["str", "int"]),
            "nameseed": rng.randint(0, 10**9), "cpds": cpds, "add_order": list(range(n)), "dummy": None, "small": small,
            "mode": mode}


def run_tiny(case, drv):
    """pgmpy must report EXACTLY what the as-coded model reports (the exact joint rounded to 8 decimals); where that
    differs from the exact joint by more than 1e-9 of the entry's own unit (sqrt(S_ii S_jj) for a covariance, sqrt(S_ii)
    or |mu_i| for a mean) the case is an instance of the known finding; any other deviation is an unlisted violation."""
    import numpy as np
    import pandas as pd
    import networkx as nx
    m, names, objs = build_lgbn(case)
    n = case["n"]
    idx = {repr(nm): i for i, nm in enumerate(names)}
    for v in case["add_order"]:
        m.add_cpds(objs[v])
    mc = model_cpds(case, case["add_order"])
    order = [idx[repr(x)] for x in nx.topological_sort(m)]
    mu, cov = m.to_joint_gaussian()
    cmu, ccov = drv.call("c20_joint", [True, mc, order])          # as coded
    emu, ecov = drv.call("c20_joint", [False, mc, order])         # exact
    cmu, ccov, emu, ecov = fvec(cmu), fmat(ccov), fvec(emu), fmat(ecov)
    xmu, xS = exact_joint(case, order)
    if emu != [xmu[v] for v in order] or ecov != [[xS[(v, w)] for w in order] for v in order]:
        return bad("model!=spec:joint-exact", {"order": order})
    key = common.canon_key(["tiny", n, case["nodes"], sorted(map(tuple, case["edges"])), case["cpds"], case["style"]])
    tags = ["tiny n=%d" % n, "tiny:" + case["mode"]]
    det = {"order": order, "impl_mu": mu.tolist(), "impl_cov": cov.tolist(), "as_coded_cov": tofl(ccov), "exact_cov": tofl(ecov)}
    for i in range(n):
        if abs(float(mu[i]) - float(cmu[i])) > 1e-10 * max(1.0, abs(float(cmu[i]))):
            return bad("impl!=model:to_joint_gaussian", det)
        for j in range(n):
            if abs(float(cov[i][j]) - float(ccov[i][j])) > 1e-10 * max(1.0, abs(float(ccov[i][j]))):
                return bad("impl!=model:to_joint_gaussian", det)
    lost = []
    for i in range(n):
        um = max(math.sqrt(float(ecov[i][i])), abs(float(emu[i])))
        if abs(float(cmu[i] - emu[i])) > 1e-9 * um:
            lost.append(["mean", order[i]])
        for j in range(n):
            uc = math.sqrt(float(ecov[i][i]) * float(ecov[j][j]))
            if abs(float(ccov[i][j] - ecov[i][j])) > 1e-9 * uc:
                lost.append(["cov", order[i], order[j]])
    # predict on the as-coded (rounded) joint: pgmpy and the as-coded model fail or succeed together
    if n >= 2:
        S = [case["small"]] if case["small"] != order[0] else [order[-1]]
        obs = [v for v in range(n) if v not in S]
        vals = [[Fraction(1, 2)] * len(obs)]
        df = pd.DataFrame([[0.5] * len(obs)], columns=pd.Index([names[v] for v in obs], dtype=object))
        try:
            pv, pmu, pcov = m.predict(df)
            perr = None
        except np.linalg.LinAlgError:
            perr = "singular"
        st, r = drv.call_e("c20_predict", [True, mc, order, S, obs, vals])
        if (perr is None) != (st == "ok"):
            # numpy may invert a numerically singular block that is exactly singular for the model only when the
            # block is exactly singular; the rounded blocks here are exact in floats, so the two must agree
            return bad("impl!=model:predict-singularity", dict(det, impl_error=perr, model=[st, r if st != "ok" else "ok"]))
        if perr:
            tags.append("tiny:predict-LinAlgError")
    if lost:
        return bad("impl!=spec:joint-rounded", dict(det, lost_entries=lost[:6]), finding=FINDING_ROUNDING,
                   nontrivial=True, key=key, tags=tags + ["known:joint-gaussian-rounded-8-decimals"])
    return ok(nontrivial=True, key=key, tags=tags + ["tiny:rounding-harmless"])


# ------------------------------------------------------------------ sessions on ONE network object
def _rand_cpd(rng, v, pa):
    pa = list(pa)
    rng.shuffle(pa)
    mean = [dy(rng, -3, 3)] + [Fraction(rng.choice([k for k in range(-8, 9) if k != 0]), 4) for _ in pa]
    var = rng.choice([Fraction(1, 4), Fraction(1, 2), Fraction(1), Fraction(2), Fraction(4)])
    return [v, [jf(x) for x in mean], jf(var), pa]


def gen_session(rng):
    """edits through every mutator between queries on one LinearGaussianBayesianNetwork object"""
    n = rng.randint(3, 5)
    order = list(range(n))
    rng.shuffle(order)                                  # hidden topological order: edges go forward in it
    rank = {v: i for i, v in enumerate(order)}
    edges = [[order[i], order[j]] for i in range(n) for j in range(i + 1, n) if rng.random() < 0.5]
    rng.shuffle(edges)
    nodes = list(range(n))
    rng.shuffle(nodes)
    cpds = [_rand_cpd(rng, v, [u for (u, w) in edges if w == v]) for v in range(n)]
    cur_edges = [list(e) for e in edges]
    steps = []
    for _ in range(rng.randint(4, 7)):
        op = rng.choice(["replace", "multi", "multi", "remove+add", "fit", "fit", "remove_edge", "add_edge", "joint", "predict"])
        if op == "multi":
            # ONE add_cpds call with 2..3 CPDs for variable v (optionally removed first, so that it is new to the model)
            # interleaved with a CPD for another variable
            v = rng.randrange(n)
            w = rng.choice([u for u in range(n) if u != v])
            pa_v = [u for (u, x) in cur_edges if x == v]
            items = [_rand_cpd(rng, v, pa_v) for _ in range(rng.randint(2, 3))]
            items.insert(rng.randint(0, len(items)), _rand_cpd(rng, w, [u for (u, x) in cur_edges if x == w]))
            steps.append({"op": "multi", "items": items, "remove_first": rng.random() < 0.5, "var": v})
            continue
        if op in ("replace", "remove+add"):
            v = rng.randrange(n)
            steps.append({"op": op, "cpd": _rand_cpd(rng, v, [u for (u, w) in cur_edges if w == v])})
        elif op == "fit":
            prev = [x for x in steps if x["op"] == "fit"]
            reuse = bool(prev) and rng.random() < 0.7
            if reuse:
                N, cols = len(prev[-1]["rows"]), list(prev[-1]["cols"])
            else:
                N = rng.randint(n + 3, n + 8)
                cols = list(range(n))
                rng.shuffle(cols)
            steps.append({"op": "fit", "cols": cols, "rows": [[jf(dy(rng, -4, 4)) for _ in range(n)] for _ in range(N)],
                          "reuse": reuse, "index": rng.choice(INDEX_KINDS)})
        elif op == "remove_edge" and cur_edges:
            e = rng.choice(cur_edges)
            cur_edges = [x for x in cur_edges if x != e]
            steps.append({"op": "remove_edge", "edge": e,
                          "cpd": _rand_cpd(rng, e[1], [u for (u, w) in cur_edges if w == e[1]])})
        elif op == "add_edge":
            cand = [[order[i], order[j]] for i in range(n) for j in range(i + 1, n) if [order[i], order[j]] not in cur_edges]
            if cand:
                e = rng.choice(cand)
                cur_edges.append(e)
                steps.append({"op": "add_edge", "edge": e,
                              "cpd": _rand_cpd(rng, e[1], [u for (u, w) in cur_edges if w == e[1]])})
        else:
            steps.append({"op": op if op in ("joint", "predict") else "joint"})
    return {"kind": "session", "n": n, "nodes": nodes, "edges": edges, "style": rng.choice(["str", "int"]),
            "nameseed": rng.randint(0, 10**9), "cpds": cpds, "steps": steps, "qseed": rng.randint(0, 10**9)}


def run_session(case, drv):
    """One network object; between queries it is edited through add_cpds (in-place replacement), remove_cpds + add_cpds,
    fit (again, on a REUSED DataFrame object whose values were overwritten in place), remove_edge / add_edge (+ the
    child's new CPD).  After EVERY step to_joint_gaussian and one predict must equal the model on the CURRENT state
    (= what a freshly built network would give); the frames handed to fit / predict are left untouched."""
    import numpy as np
    import pandas as pd
    import networkx as nx
    from pgmpy.models import LinearGaussianBayesianNetwork
    from pgmpy.factors.continuous import LinearGaussianCPD
    n = case["n"]
    names = names_for(n, case["style"], case["nameseed"])
    idx = {repr(nm): i for i, nm in enumerate(names)}
    rng = random.Random(case["qseed"])
    m = LinearGaussianBayesianNetwork()
    m.add_nodes_from([names[v] for v in case["nodes"]])
    m.add_edges_from([(names[u], names[v]) for u, v in case["edges"]])
    cur = {}                                             # exact current CPD per variable: [v, mean, var, evidence]
    edges = [list(e) for e in case["edges"]]

    def mk(c):
        v, mean, var, ev = c
        return LinearGaussianCPD(names[v], [float(fr(x)) for x in mean], float(fr(var)), [names[u] for u in ev])

    for c in case["cpds"]:
        m.add_cpds(mk(c))
        cur[c[0]] = [c[0], fvec(c[1]), fr(c[2]), list(c[3])]
    tags = ["session steps=%d" % len(case["steps"])]
    fit_frame = [None]
    pred_frame = {}

    def check_state(where):
        order = [idx[repr(x)] for x in nx.topological_sort(m)]
        pos = {v: i for i, v in enumerate(order)}
        if any(pos[u] > pos[v] for u, v in edges):
            return bad("trusted-base:topological_sort", {"order": order, "edges": edges})
        if sorted((idx[repr(a)], idx[repr(b)]) for a, b in m.edges()) != sorted(map(tuple, edges)):
            return bad("impl!=spec:session-edges", {"where": where})
        mc = [cur[v] for v in sorted(cur)]
        if len(m.cpds) != n or sorted(idx[repr(c.variable)] for c in m.cpds) != list(range(n)):
            return bad("impl!=model:session-cpds", {"where": where, "cpds": [idx[repr(c.variable)] for c in m.cpds]})
        for v in range(n):
            c = m.get_cpds(fresh(names[v]))
            if [idx[repr(u)] for u in c.evidence] != cur[v][3] or not all(
                    close(a_, b_, 1e-12) for a_, b_ in zip(np.asarray(c.mean, dtype=float).ravel(), cur[v][1])) \
                    or not close(c.variance, cur[v][2], 1e-12):
                return bad("impl!=model:session-get_cpds", {"where": where, "variable": v})
        mu, cov = m.to_joint_gaussian()
        st, r = drv.call_e("c20_joint", [True, mc, order])
        if st != "ok":
            return bad("impl!=model:session-model-error", {"where": where, "code": r})
        mmu, mcov = fvec(r[0]), fmat(r[1])
        det = {"where": where, "steps": [s_["op"] for s_ in case["steps"]], "order": order}
        if not all(close(mu[i], mmu[i], TOL_R) for i in range(n)) or not mat_close(cov, mcov, TOL_R):
            return bad("impl!=model:session-joint", dict(det, impl_mu=mu.tolist(), model_mu=[float(x) for x in mmu],
                                                         impl_cov=cov.tolist(), model_cov=tofl(mcov)))
        # one predict; the frame object for a given column set is REUSED, its values overwritten in place
        S = sorted(rng.sample(range(n), rng.randint(1, min(2, n - 1))))
        obs = [v for v in range(n) if v not in S]
        kf = tuple(obs)
        vals = [[dy(rng, -4, 4) for _ in obs] for _ in range(2)]
        if kf not in pred_frame:
            pred_frame[kf] = pd.DataFrame([[0.0] * len(obs)] * 2, columns=pd.Index([fresh(names[v]) for v in obs], dtype=object))
        df = pred_frame[kf]
        df.iloc[:, :] = [[float(x) for x in r_] for r_ in vals]
        snap = df.copy(deep=True)
        pv, pmu, pcov = m.predict(df)
        if not df.equals(snap):
            return bad("impl!=spec:predict-mutates-data", det)
        pvi = [idx[repr(x)] for x in pv]
        if sorted(pvi) != S:
            return bad("impl!=spec:predict-variables", dict(det, missing=S, returned=pvi))
        st, r = drv.call_e("c20_predict", [True, mc, order, pvi, obs, vals])
        if st != "ok":
            return bad("impl!=model:session-model-error", {"where": where, "code": r})
        _, mmu_c, mcov_c = r
        if not mat_close(np.asarray(pmu), fmat(mmu_c), TOL_R) or not mat_close(np.asarray(pcov), fmat(mcov_c), TOL_R):
            return bad("impl!=model:session-predict", dict(det, missing=pvi, impl_mu=np.asarray(pmu).tolist(),
                                                           model_mu=tofl(fmat(mmu_c)), impl_cov=np.asarray(pcov).tolist(),
                                                           model_cov=tofl(fmat(mcov_c))))
        return None

    b = check_state("initial")
    if b:
        return b
    for i, st_ in enumerate(case["steps"]):
        op = st_["op"]
        if op == "multi":
            if st_["remove_first"]:
                m.remove_cpds(names[st_["var"]])
            m.add_cpds(*[mk(c) for c in st_["items"]])
            for c in st_["items"]:
                cur[c[0]] = [c[0], fvec(c[1]), fr(c[2]), list(c[3])]
        elif op in ("replace", "remove+add", "remove_edge", "add_edge"):
            c = st_["cpd"]
            if op == "remove_edge":
                m.remove_edge(names[st_["edge"][0]], names[st_["edge"][1]])
                edges = [e for e in edges if e != st_["edge"]]
            if op == "add_edge":
                m.add_edge(names[st_["edge"][0]], names[st_["edge"][1]])
                edges.append(list(st_["edge"]))
            if op == "remove+add":
                old = m.get_cpds(names[c[0]])
                if i % 2:
                    m.remove_cpds(old)
                else:
                    m.remove_cpds(names[c[0]])
            before = len(m.cpds)
            m.add_cpds(mk(c))
            if len(m.cpds) != (before + 1 if op == "remove+add" else before):
                return bad("impl!=model:session-add_cpds-count", {"step": i, "op": op})
            cur[c[0]] = [c[0], fvec(c[1]), fr(c[2]), list(c[3])]
        elif op == "fit":
            cols = st_["cols"]
            rows = [fvec(r_) for r_ in st_["rows"]]
            N = len(rows)
            labels = make_index(st_["index"], N, case["qseed"] + i)
            old = fit_frame[0]
            if st_["reuse"] and old is not None and old.shape == (N, n) and list(old.columns) == [names[v] for v in cols]:
                df = old                                  # same object, same len / columns: new VALUES in place
                df.iloc[:, :] = [[float(x) for x in r_] for r_ in rows]
                tags.append("session:fit-reused-frame")
            else:
                df = pd.DataFrame([[float(x) for x in r_] for r_ in rows], columns=pd.Index([names[v] for v in cols], dtype=object),
                                  index=None if labels is None else pd.Index(labels))
            fit_frame[0] = df
            snap = df.copy(deep=True)
            X = np.array([[float(x) for x in r_] for r_ in rows])
            full = all(np.linalg.matrix_rank(np.column_stack([np.ones(N)] + [X[:, cols.index(u)] for (u, w) in edges if w == v]))
                       == 1 + sum(1 for (u, w) in edges if w == v) for v in range(n))
            if not full:
                return ok(nontrivial=False, key=common.canon_key(["session", case["qseed"]]), tags=tags + ["rank-deficient-skipped"])
            m.fit(df) if i % 2 else m.fit(df, method="mle")
            if not df.equals(snap) or list(df.index) != list(snap.index):
                return bad("impl!=spec:fit-mutates-data", {"step": i})
            if len(m.cpds) != n:
                return bad("impl!=spec:fit-cpd-count", {"step": i, "cpds": len(m.cpds)})
            for cobj in m.cpds:
                v = idx[repr(cobj.variable)]
                ev = [idx[repr(u)] for u in cobj.evidence]
                if sorted(ev) != sorted(u for (u, w) in edges if w == v):
                    return bad("impl!=spec:fit-evidence", {"step": i, "node": v, "evidence": ev})
                r = drv.call("c20_fit", [cols, rows, v, ev])
                mb, mv = fvec(r[0]), fr(r[1])
                beta = [float(x) for x in np.asarray(cobj.mean).ravel()]
                if len(beta) != len(mb) or not all(close(a_, b_, TOL) for a_, b_ in zip(beta, mb)) or not close(cobj.variance, mv, TOL):
                    return bad("impl!=model:session-fit", {"step": i, "node": v, "evidence": ev, "index": st_["index"],
                                                            "impl": [beta, float(cobj.variance)],
                                                            "model": [[float(x) for x in mb], float(mv)]})
                # the state to continue from is what the object now holds (the exact rationals of the fitted floats):
                # the 8-decimal rounding of to_joint_gaussian is discontinuous, so continuing from the model's exact
                # fit instead would let a 1e-13 least-squares rounding error flip a digit and be amplified by predict
                cur[v] = [v, [Fraction(x) for x in beta], Fraction(float(cobj.variance)), ev]
        b = check_state("after step %d (%s)" % (i, op))
        if b:
            return b
        tags.append("session:" + op)
    key = common.canon_key(["session", n, case["nodes"], case["edges"], case["cpds"], case["steps"], case["style"]])
    return ok(nontrivial=True, key=key, tags=tags)


# ------------------------------------------------------------------ malformed stream
def run_bad(case, drv):
    import numpy as np
    import pandas as pd
    import networkx as nx
    from pgmpy.factors.continuous import LinearGaussianCPD
    m, names, objs = build_lgbn(case)
    n = case["n"]
    idx = {repr(nm): i for i, nm in enumerate(names)}
    what = case["what"]
    tags = ["bad:" + what]
    for v in case["add_order"]:
        m.add_cpds(objs[v])
    mc = model_cpds(case, case["add_order"])
    order = [idx[repr(x)] for x in nx.topological_sort(m)]
    key = common.canon_key(["bad", what, n, case["nodes"], sorted(map(tuple, case["edges"])), case["cpds"]])
    if what == "no-missing":
        df = pd.DataFrame([[0.5] * n], columns=pd.Index([names[v] for v in range(n)], dtype=object))
        try:
            m.predict(df)
            return bad("impl!=model:predict-no-missing-accepted", {})
        except ValueError:
            pass
        st, code = drv.call_e("c20_predict", [True, mc, order, [], list(range(n)), [[Fraction(1, 2)] * n]])
        if st != "err":
            return bad("impl!=model:predict-no-missing-model", {"model": code})
        return ok(nontrivial=True, key=key, tags=tags)
    if what == "bad-evidence":
        # give the first node in topological order an evidence variable that comes later: KeyError in pgmpy
        if n < 2:
            return ok(nontrivial=False, key=key, tags=tags + ["skipped"])
        first, later = order[0], order[-1]
        m.add_cpds(LinearGaussianCPD(names[first], [1.0, 2.0], 1.0, [names[later]]))
        mc2 = mc + [[first, [Fraction(1), Fraction(2)], Fraction(1), [later]]]
        try:
            m.to_joint_gaussian()
            return bad("impl!=model:bad-evidence-accepted", {"order": order})
        except KeyError:
            pass
        st, code = drv.call_e("c20_joint", [True, mc2, order])
        if st != "err":
            return bad("impl!=model:bad-evidence-model", {"model": code})
        # ... and an evidence variable that is an EARLIER non-parent is computed happily by both (no check_model)
        if n >= 2:
            last, early = order[-1], order[0]
            by = {c[0]: c for c in case["cpds"]}
            if early not in by[last][3]:
                ev = by[last][3] + [early]
                mean = [fr(x) for x in by[last][1]] + [Fraction(3, 4)]
                m2, _, objs2 = build_lgbn(case)
                for v in case["add_order"]:
                    m2.add_cpds(objs2[v])
                m2.add_cpds(LinearGaussianCPD(names[last], [float(x) for x in mean], float(fr(by[last][2])),
                                              [names[u] for u in ev]))
                mu, cov = m2.to_joint_gaussian()
                mc3 = mc + [[last, mean, fr(by[last][2]), ev]]
                mmu, mcov = drv.call("c20_joint", [True, mc3, order])
                if not all(close(mu[i], fr(mmu[i]), TOL_R) for i in range(n)) or not mat_close(cov, fmat(mcov), TOL_R):
                    return bad("impl!=model:to_joint_gaussian-nonparent-evidence", {"order": order})
                tags.append("nonparent-evidence-accepted-by-both")
        return ok(nontrivial=True, key=key, tags=tags)
    if what == "foreign-cpd":
        try:
            m.add_cpds(LinearGaussianCPD("__nope__", [1.0], 1.0, []))
            return bad("impl!=spec:foreign-cpd-accepted", {})
        except ValueError:
            pass
        try:
            m.add_cpds("not a cpd")
            return bad("impl!=spec:non-cpd-accepted", {})
        except ValueError:
            pass
        return ok(nontrivial=True, key=key, tags=tags)
    if what == "multi-add":
        # add_cpds(good, foreign, good2): rejected at the foreign one; the CPDs before it were added, the later not
        from pgmpy.models import LinearGaussianBayesianNetwork
        m2 = LinearGaussianBayesianNetwork()
        m2.add_nodes_from([names[v] for v in case["nodes"]])
        m2.add_edges_from([(names[u], names[v]) for u, v in case["edges"]])
        seq = list(case["add_order"])
        k_ = len(seq) // 2
        try:
            m2.add_cpds(*([objs[v] for v in seq[:k_]] + [LinearGaussianCPD("__nope__", [1.0], 1.0, [])]
                          + [objs[v] for v in seq[k_:]]))
            return bad("impl!=spec:foreign-cpd-accepted", {})
        except ValueError:
            pass
        got = [idx[repr(c.variable)] for c in m2.cpds]
        exp = [c[0] for c in drv.call("c20_add_cpds", model_cpds(case, seq[:k_]))]
        if got != exp:
            return bad("impl!=model:add_cpds-after-rejection", {"impl": got, "model": exp})
        return ok(nontrivial=True, key=key, tags=tags)
    if what == "fit-missing-col":
        if n < 2:
            return ok(nontrivial=False, key=key, tags=tags + ["skipped"])
        before = list(m.cpds)
        df = pd.DataFrame([[0.5] * (n - 1)] * 4, columns=pd.Index([names[v] for v in range(1, n)], dtype=object))
        try:
            m.fit(df)
            return bad("impl!=spec:fit-missing-column-accepted", {})
        except ValueError:
            pass
        if len(m.cpds) != len(before) or any(a_ is not b_ for a_, b_ in zip(m.cpds, before)):
            return bad("impl!=spec:rejected-fit-changed-cpds", {})
        mu, cov = m.to_joint_gaussian()
        mmu, mcov = drv.call("c20_joint", [True, mc, order])
        if not all(close(mu[i], fr(mmu[i]), TOL_R) for i in range(n)) or not mat_close(cov, fmat(mcov), TOL_R):
            return bad("impl!=model:to_joint_gaussian-after-rejected-fit", {"order": order})
        return ok(nontrivial=True, key=key, tags=tags)
    if what == "simulate-incomplete":
        if n < 2:
            return ok(nontrivial=False, key=key, tags=tags + ["skipped"])
        m.remove_cpds(names[order[-1]])
        try:
            m.simulate(n=2, seed=1)
            return bad("impl!=spec:simulate-without-all-cpds-accepted", {})
        except ValueError:
            pass
        return ok(nontrivial=True, key=key, tags=tags)
    if what == "get-random":
        # get_random / get_random_cpds: whatever parameters were drawn, the joint is the model's on those parameters
        from pgmpy.models import LinearGaussianBayesianNetwork
        nn = n + 2
        nm = names_for(nn, "str", case["nameseed"])
        g = LinearGaussianBayesianNetwork.get_random(n_nodes=nn, edge_prob=0.5, node_names=nm if n % 2 else None,
                                                     seed=case["dseed"] % 997)
        gi = {repr(x): i for i, x in enumerate(g.nodes())}
        if len(g.cpds) != nn:
            return bad("impl!=spec:get_random-cpds", {"cpds": len(g.cpds)})
        gm_ = []
        for c in g.cpds:
            if sorted(gi[repr(u)] for u in c.evidence) != sorted(gi[repr(u)] for u in g.get_parents(c.variable)):
                return bad("impl!=spec:get_random-evidence", {})
            gm_.append([gi[repr(c.variable)], [Fraction(float(x)) for x in np.asarray(c.mean).ravel()],
                        Fraction(float(c.variance)), [gi[repr(u)] for u in c.evidence]])
        go = [gi[repr(x)] for x in nx.topological_sort(g)]
        mu, cov = g.to_joint_gaussian()
        st, r = drv.call_e("c20_joint", [True, gm_, go])
        if st != "ok":
            return bad("impl!=model:get_random-model-error", {"code": r})
        if not all(close(mu[i], fr(r[0][i]), TOL_R) for i in range(nn)) or not mat_close(cov, fmat(r[1]), TOL_R):
            return bad("impl!=model:get_random-joint", {"order": go, "impl_cov": cov.tolist(), "model_cov": tofl(fmat(r[1]))})
        return ok(nontrivial=True, key=key, tags=tags)
    if what == "reduce-unknown":
        from pgmpy.factors.distributions import GaussianDistribution as GD
        mu, cov = m.to_joint_gaussian()
        d = GD([names[v] for v in order], mu, cov)
        try:
            d.reduce([("__nope__", 1.0)], inplace=False)
            return bad("impl!=model:reduce-unknown-accepted", {})
        except ValueError:
            pass
        mmu, mcov = drv.call("c20_joint", [True, mc, order])
        st, code = drv.call_e("c20_reduce", [[order, fvec(mmu), fmat(mcov)], [[1000, Fraction(1)]]])
        if st != "err":
            return bad("impl!=model:reduce-unknown-model", {"model": code})
        for arg in ("x", ("x", 1)):
            try:
                d.marginalize(arg, inplace=False)
                return bad("impl!=spec:marginalize-nonlist-accepted", {})
            except TypeError:
                pass
        return ok(nontrivial=True, key=key, tags=tags)
    return ok(nontrivial=False, key=key, tags=tags)


def run_cwit(case, drv):
    """C20_canonical_marginalize_g_refuted's witness: K = [[2,-1],[-1,3]], h = [1,2], g = -1, marginalise y"""
    import numpy as np
    from pgmpy.factors.continuous import CanonicalDistribution
    c = CanonicalDistribution(["x", "y"], np.array([[2.0, -1.0], [-1.0, 3.0]]), np.array([[1.0], [2.0]]), -1.0)
    m = c.marginalize(["y"], inplace=False)
    (mv, mK, mh), mq = drv.call("c20_cmarg", [[[0, 1], [[Fraction(2), Fraction(-1)], [Fraction(-1), Fraction(3)]],
                                               [Fraction(1), Fraction(2)]], [1]])
    key = common.canon_key(["cwit"])
    if m.variables != ["x"] or mv != [0] or not close(m.K[0][0], fr(mK[0][0]), TOL) or not close(m.h[0][0], fr(mh[0]), TOL) \
            or not close(m.K[0][0], Fraction(5, 3), TOL) or not close(m.h[0][0], Fraction(5, 3), TOL):
        return bad("impl!=model:canonical-marginalize-Kh", {"impl_K": np.asarray(m.K).tolist(), "impl_h": np.asarray(m.h).tolist()})
    base = -1.0 + 0.5 * (math.log(2 * math.pi) - math.log(3.0))
    g_coded = base + 0.5 * float(fr(mq))            # model: 12
    g_right = base + 0.5 * (4.0 / 3.0)              # Spec.marg_quad: 4/3
    if fr(mq) != 12:
        return bad("model!=spec:cwit-model", {"model_q": float(fr(mq))})
    if close(m.g, g_right, 1e-9):
        return ok(nontrivial=True, key=key, tags=["cwit:repaired"])
    if close(m.g, g_coded, 1e-9):
        return bad("impl!=spec:canonical-marginalize-g", {"K": [[2, -1], [-1, 3]], "h": [1, 2], "g": -1, "drop": "y",
                                                          "impl_g": float(m.g), "correct_g": g_right},
                   finding=FINDING_CANON_G, nontrivial=True, key=key, tags=["cwit", "known:canonical-marginalize-g"])
    return bad("impl!=spec:canonical-marginalize-g", {"impl_g": float(m.g), "coded_g": g_coded, "correct_g": g_right})


def run_case(case, drv):
    k = case["kind"]
    if k == "cwit":
        return run_cwit(case, drv)
    if k == "seq":
        return run_seq(case, drv)
    if k == "session":
        return run_session(case, drv)
    if k == "tiny":
        return run_tiny(case, drv)
    if k == "gaussmag":
        return run_gaussmag(case, drv)
    if k == "lgbn":
        return run_lgbn(case, drv)
    if k == "fit":
        return run_fit(case, drv)
    if k == "gauss":
        return run_gauss(case, drv)
    return run_bad(case, drv)
